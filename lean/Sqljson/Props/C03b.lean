import Sqljson.Lemmas.Layout
import Sqljson.Props.C02b
/-!
# C03b — layout and spelling independence: other spellings of a path give the same tree

`Props/C03` has token-level facts, `Props/C02b` the round trip `Parse(p.String()) = p` for the printer's
ONE canonical text, on the class `RT5` (see the header of `Props/C02b` for the class).  This file proves,
for the same class, that the OTHER spellings the documented syntax permits give the same tree
(`Lemmas/Layout` holds the proofs).

## Definitions (`namespace Sqljson.Layout`)

* `Sep : List Char → Prop` — a *separator*: any sequence of blanks, tabs, newlines, carriage returns
  (`Lex.isWhitespace`) and comments `/* body */` whose body has no NUL and does not contain `*/`
  (`noClose`).  This is exactly what `Lex` skips before a token: `skipWs` skips the four white-space
  characters, and a `/` directly followed by `*` starts a comment that ends at the first `*/`
  (`commentLoop`); a `/` followed by anything else is the division operator — so `/*` directly after
  ANY token starts a comment (the lexer decides by one character of look-ahead after `/`, never by
  what precedes), and `/` followed by a separator that starts with a comment, `//* c */`, is division
  followed by a comment.  `skip_sep`, `skip_sep_end` below.
* `tokSplit o txt : List (Bool × List Char)` — the token texts of `txt`: run the model lexer on `txt`
  and cut where it cuts (the text consumed by each call of `Lex`); the flag says that a blank precedes
  the token in `txt`.
* `renderT texts seps` — the token texts interleaved with the separators `seps`, one before each token;
  `LayoutOKT pieces seps` — one separator (`Sep`) per piece; it may be EMPTY where the canonical text has
  no blank, and also where it has one provided the token before tolerates the first character of this
  token: `tolOf prevText c` — a syntactic criterion read off the first character of the token text
  (a number tolerates the ASCII punctuation except `.` and `@`; a word the ASCII punctuation; `$` all of
  it but `"`; a string, `$"…"`, a two-character operator, `( ) [ ] { } , ? @ + - %` everything; `.`
  everything but a digit; `<` all but `=` `>`; `>` `!` all but `=`; `*` `/` all but `*`).  So `1+2`,
  `@.x<>1`, `exists(@)`, `(@ > 1)is unknown` need no blanks, `last to`, `1 to` do.  `LayoutSimpleT` is
  the simple sufficient condition "non-empty wherever the canonical text has a blank".  A last separator
  `fin` may follow the last token.
* `Item` / `ItemOK` / `canon` / `render` / `LayoutOK` / `Gaps` / `Resp` — the same at the level of the proofs: an
  item is a token text `c :: w` with its token `tk` and the condition `C` on the next character under
  which the scanner started on `c` reads exactly `c :: w` and returns `tk` (`RoundTrip.TokAt`);
  `ItemOK` demands in addition that `C` holds of white space and of `/` and of every character `tolOf`
  admits (this is where `tolOf` is proved sound, token kind by token kind).  `Gaps items C` says that
  in the canonical text every token is followed by a character it tolerates.
* `SpellsChar cs c`, `SpellsStr body s` — the character sequence `cs` inside a double-quoted string
  denotes the character `c`: a plain character (not `"`, `\`, newline, NUL), `\b \f \n \r \t \v`,
  `\c` for any other `c` not in `bfnrtvxu` (so `\"`, `\\`, `\/`), `\xHH`, `\uHHHH`, `\u{H…}` (1–6 digits)
  with hex digits of either case, and a surrogate pair of two `\u` forms.
* `BaseDigits base ds n` — `ds` is a non-empty digit string of the base (hex digits of either case)
  with optional single underscores between digits, of value `n`; `prefixBase` maps `x X o O b B` to
  16, 8, 2.
* `PieceResp p p'` — a permitted respelling of a piece of the canonical text: the same text, another
  escape spelling of the same string / `$"…"` variable, or `<>` for `!=`.
* `ModeSp lax m toks` — the mode prefix: nothing (lax), or the keyword `lax` / `strict` with letters of
  either case.

## Oracle hypotheses

`Layout.OrOK o` = `RoundTrip.OrOK o` (header of `Props/C02b`) and: the four white-space characters are
neither `XID_Start` nor `XID_Continue`.  The keyword-case and bare-identifier theorems need `Layout.OrUp o`:
`A`…`Z` are `XID_Start` and `XID_Continue` and `unicode.ToLower` maps them to `a`…`z`; the decimal digits
are `XID_Continue` and fixed by `ToLower`.  Both hold for the real tables; `orOK_ascii`, `orUp_ascii` show
them for the ASCII instance.

## Theorems

Stage 1 — layout:
* `skip_sep`, `skip_sep_end` — the body of `Lex` started on a separator followed by a character `c`
  goes on exactly as if started on `c`; a separator before the end of the source gives `stopTok`.
* `lexer_layout` — tokens, each preceded by an arbitrary separator and followed by a character it
  tolerates, lex to exactly these tokens (`Layout.lexes_render`).
* **`layout_independent`** — for `a` in `RT5`: cut the printed text into its token texts (`tokSplit`),
  put ANY separator before each (`LayoutOKT`: it may be empty except between two tokens that would
  fuse) and any separator at the end: `parse o (utf8 …) = .ok a`.  `layout_independent_simple`: the
  corollary for "non-empty where the printer writes a blank".
* `layout_items` — the same in the form the proofs use, with respelled items (`RespL`).

Stage 3 — spellings (token level, each "whatever follows", i.e. as `RoundTrip.TokAt`):
* `string_any_escapes`, `variable_any_escapes`, `canonical_string_is_a_spelling` — `SpellsStr body s` ⇒
  `"body"` is the token `(STRING_P, s)` and `$"body"` is `(VARIABLE_P, s)`.
* `identifier_with_escapes` — the same escapes in bare identifiers.
* `integer_hex_oct_bin`, `integer_decimal_underscores`, `integer_value`, `integer_value_negated` —
  `0x… 0X… 0o… 0O… 0b… 0B…` with digits of either case and single underscores between digits, and
  decimal digits with underscores, are `INT_P`, and `newInteger` makes `.integer n` of them; negated: `-n`.
* `keyword_any_case`, `true_false_null_are_case_sensitive` — every keyword except `true false null`
  in any mixture of upper and lower case is that keyword's token.
* `ne_two_spellings` — `<>` and `!=` are the same token.
* `bare_identifier`, `bare_variable`; parser level: `bare_key_is_quoted_key` (`.foo` = `."foo"`, also
  for keywords used as keys: the key is the text as written), `method_keyword_any_text`
  (`.SIZE()` = `.size()`), `method_keyword_without_parens_is_a_key`.
* **`spelling_independent`** — Stage 1 together with respelled strings / variables and `<>`: whole paths
  of `RT5`.
* **`mode_keyword_any_case`** — the mode keyword in any case (or an explicit `lax`), whole paths of `RT5`,
  any layout.

Stage 2 — redundant parentheses:
* `redundant_parens_expr`, `redundant_parens_pred` — parser calculus: the parenthesised token stream of an
  expression / predicate is the same expression / predicate, fit for every position.
* `expr_in_parens`, `pred_in_parens`, `parens_before_accessors` — text level (`ExprT` / `PredT`), any number
  of pairs; `(e).b` is `e.b`.
* `spelled_expr_parses`, `spelled_pred_parses` — every text built with the rules parses, in every layout.
* **`redundant_parens_whole_path`**, **`fewer_parens_whole_path`** — class `RT5`: the printed root with `n`
  more pairs of parentheses, and without the pair the printer adds, in every layout.
* `redundant_parens_worked`, `redundant_parens_concrete`.

Precedence and associativity (section "Operators nest by precedence and associativity"):
* `mul_chain`, `arith_chain`, `pred_chain` — parser calculus, fuel linear in the number of tokens: on an
  unparenthesised chain of units and `* / %`, `+ -` (resp. of atoms and `&&`, `||`) the parser builds the
  left-nested tree in which `* / %` bind tighter than `+ -` (resp. `&&` tighter than `||`).
* **`arithmetic_chain_parses`**, **`predicate_chain_parses`** — the same on texts, in every layout;
  `comparisons_do_not_associate`: `l op r op' x` with two comparison operators is rejected, in every layout.

The grammar (section "The documented syntax as a grammar"):
* `Layout.Sp o cn : Cat → List Char → Prop` — 61 rules: every construct of the class, with parentheses
  anywhere, keywords in any case, strings / variables / keys in any spelling, `<>`; `Sp.sound`.
* **`every_spelling_parses`**, **`every_spelling_parses_pred`**, **`every_spelling_in_every_layout`** — every
  text the grammar generates, after the mode keyword in any case, in every layout, parses to the tree the
  derivation assigns.  `class_is_generated`: every tree of `RT5` is generated (with its printed text).

Equivalent token streams (section "The parser is a function of the token stream"):
* `Layout.TokEqX dot t t'` — the same token up to harmless differences of its TEXT: an integer literal of the
  same value (`IntEq`: as `int64`, as `int32`, and negated), a keyword in any case provided the token before
  is not `.` (`dot = false`), and — directly after a `.` — any two plain key names (bare identifier, quoted
  string, keyword) with the same text.  `TokEqLX` is the pointwise relation on streams.
* **`parser_depends_on_tokens`** (`Layout.sim_parseBodyX`, by `Layout.allSim`: a simulation between two runs of
  all 16 functions of the parser's mutual block) — on equivalent streams `parseBody` returns the same mode,
  predicate flag and tree.  This holds for ARBITRARY streams, not only those of the class.
* **`equivalent_tokens_parse`** — class `RT5`: every text made of tokens (`ItemOK`, e.g. the kinds
  `Layout.itKw`, `itStr`, `itIntB`, `itIdent`, …) in a strict layout (`LayoutStrict`: every empty separator
  justified by `tolOf`) whose token stream is equivalent to that of the printed text (`toksOf`) parses to
  `a`.  Hence INTEGER spellings (`0X1f`, `1_000`), keyword case and bare keys anywhere in a path.
* **`task_example`** — `strict/* c */$ . "a"⏎[ 0 ,last ]?( @ . x<>0X1f )` parses to the tree of
  `strict $."a"[0,last]?(@."x" != 31)`: an instance of `equivalent_tokens_parse`.

## Findings (model = Go, by `decide`; none is a deviation from the documented syntax)

* `0x_1F`, `0o_17`, `0b_101` are rejected (`underscore_directly_after_prefix_rejected`): the lexer refuses an
  underscore directly after the base prefix although `strconv.ParseInt` would accept it.
* `TRUE`, `False`, `NULL` are identifiers, not literals (`true_false_null_are_case_sensitive`, as in
  PostgreSQL); a keyword used as a key keeps its case (`$.STRICT` is the key `"STRICT"`).
* inside a string, a backslash before any character other than `bfnrtvxu` yields that character
  (also a raw line feed); both halves of a surrogate pair may be written `\u{…}`.
* `0x1F.abs()` is `(31).abs()` but `1.abs()` is an error (`1.` starts a fraction).
* after a fraction, after `D.` and after an exponent a `.` ENDS the number (`1.5.abs()` is `(1.5).abs()`,
  `1.5.e1` is the member `"e1"` of `1.5`); after a plain integer it starts a fraction (`1.abs()` is an
  error, `1..abs()` and `1 .abs()` are `(1).abs()`); `0.89` is accepted although the digit loop runs in
  base 8 after the leading `0`; `1e-400` silently becomes `0`, `1e400` is an error
  (`Layout.what_follows`, `Layout.forms_accepted`, `Layout.forms_rejected`, `Layout.sample_range`).
* a method keyword (`size`, `type`, `date`, …) directly after a `.` is a key only when no `(` follows;
  so a bare and a quoted spelling of such a key are NOT interchangeable in the token-stream simulation
  (the parser looks one token further for the bare one), while `.strict` / `."strict"` are.

## Not proved here

* Non-integer literals `.5`, `5.`, `1e3`: token level (`numeric_forms`, `numeric_leading_dot`); their value
  is `strconv.ParseFloat`'s (model `Decimal.parseFloat`, evaluated on samples, not proved correct), and the
  class `RT5` has no numeric nodes (D5 of `Props/C02`).
* a method keyword used as a bare key in the LAST position of a chain (`$.size`; `$.size.x` is covered),
  bare `$name` containing `_`, `+` in `.decimal(+1)`: not generated by the grammar.
* chains are built from units in one step or nested through parentheses (`arithmetic_chain_parses`);
  the grammar `Sp` itself has the printer's parenthesisation (`(a - b) - c`) plus redundant parentheses.
* completeness (that NOTHING else is accepted) is not claimed anywhere; `Layout.no_parenthesised_form`,
  `Layout.forms_rejected`, `Layout.spellings_rejected`, `Layout.refused_concrete` record rejected samples.
-/

namespace Sqljson
namespace C03b
open Parse Lex ParseLemmas RoundTrip Layout

/-! ## Stage 1: separators are skipped; the lexer on any layout -/

/-- **`skip_sep`**: the body of `Lex`, started on a separator that is followed by the character `c`, skips
    the separator entirely and continues as if started on `c` (with enough fuel: one unit per comment). -/
theorem skip_sep {o : Oracles} (ok : RoundTrip.OrOK o) {sep : List Char} (hs : Sep sep) (st : LState) (c : Char)
    (R : List Char) (hc : c.toNat ≠ 0) (hR : NoNul R) (f : Nat) (hf : sep.length ≤ f) :
    ∃ f', lexFrom o (f + 1) (sep ++ c :: R).head? (fd st (sep ++ c :: R).tail)
      = lexFrom o (f' + 1) (some c) (fd st R) :=
  Layout.skip_sep o ok hs st c R hc hR f hf

/-- a separator before the end of the source: `Lex` answers `stopTok`, nothing is left -/
theorem skip_sep_end {o : Oracles} (ok : RoundTrip.OrOK o) {sep : List Char} (hs : Sep sep) (st : LState)
    (f : Nat) (hf : sep.length ≤ f) :
    lexFrom o (f + 1) sep.head? (fd st sep.tail) = ⟨.stop, [], none, fd st []⟩ :=
  Layout.skip_sep_end o ok hs st f hf

/-- **The lexer on a rendered text.**  Tokens (`ItemOK`), each preceded by an arbitrary separator and
    followed — in the rendered text continued by `x` — by a character it tolerates (`GapsR`), lex to
    exactly these tokens followed by the tokens of `x`. -/
theorem lexer_layout {o : Oracles} (ok : RoundTrip.OrOK o) (items : List Layout.Item) (hok : ∀ it ∈ items, ItemOK o it)
    (seps : List (List Char)) (hl : seps.length = items.length) (hs : ∀ s ∈ seps, Sep s)
    (x : List Char) (ts' : List TT) (hx : NoNul x) (hg : GapsR items seps x) (hlx : Layout.Lexes o x ts') :
    Layout.Lexes o (render items seps ++ x) (items.map (·.tk) ++ ts') :=
  lexes_render o ok items hok seps hl hs x ts' hx hg hlx

/-- **`layout_independent`.**  For every tree `a` of the class `RT5`: let `txt` be its printed text and
    `tokSplit o txt` its token texts.  For EVERY choice of separators `seps` — one before each token,
    non-empty where `txt` has a blank, possibly empty elsewhere — and every separator `fin` at the end,
    `Parse` of the rendered text returns `a`. -/
theorem layout_independent {o : Oracles} (ok : Layout.OrOK o) (a : AST) (h : RT5 o a = true) :
    ∃ txt, Print.toString o.isPrint a = some txt ∧
      ∀ (seps : List (List Char)) (fin : List Char), LayoutOKT (tokSplit o txt) seps → Sep fin →
        parse o (utf8 (renderT ((tokSplit o txt).map (·.2)) seps ++ fin)) = .ok a :=
  Layout.layout_independent ok a h

/-- the simple sufficient condition: a non-empty separator wherever the printer writes a blank -/
theorem layout_independent_simple {o : Oracles} (ok : Layout.OrOK o) (a : AST) (h : RT5 o a = true) :
    ∃ txt, Print.toString o.isPrint a = some txt ∧
      ∀ (seps : List (List Char)) (fin : List Char), LayoutSimpleT (tokSplit o txt) seps → Sep fin →
        parse o (utf8 (renderT ((tokSplit o txt).map (·.2)) seps ++ fin)) = .ok a := by
  obtain ⟨txt, h1, h2⟩ := Layout.layout_independent ok a h
  exact ⟨txt, h1, fun seps fin hl hf => h2 seps fin (layoutOKT_of_simple hl) hf⟩

/-- `tolOf` is sound: an item tolerates every character `tolOf` admits after its text (part of `ItemOK`) -/
theorem tolOf_sound {o : Oracles} {it : Layout.Item} (h : ItemOK o it) (d : Char)
    (hd : tolOf (it.c :: it.w) d = true) : it.C (some d) :=
  h.2.2.2.2.2.2 d hd

/-- the same in the form the proofs use: the printed text is the canonical text of token items, and
    every respelling (`RespL`) of the items in every layout parses to `a`, for every byte string that
    decodes to the rendered text -/
theorem layout_items {o : Oracles} (ok : Layout.OrOK o) (a : AST) (h : RT5 o a = true) :
    ∃ items : List Layout.Item, Print.toString o.isPrint a = some (canon items) ∧ (∀ it ∈ items, ItemOK o it) ∧
      Gaps items brk ∧
      ∀ (items' : List Layout.Item) (seps : List (List Char)) (fin : List Char),
        RespL o items items' → LayoutOK items' seps → Sep fin →
        ∀ bytes, decodeAll bytes = (render items' seps ++ fin).map Src.ch → parse o bytes = .ok a :=
  layout_stage5 ok a h

/-- the canonical text is one of the layouts (so `layout_independent` contains the round trip of C02b) -/
theorem canonical_is_a_layout (items : List Layout.Item) :
    LayoutOK items (canonSeps items) ∧ render items (canonSeps items) = canon items :=
  ⟨layoutOK_canon items, render_canon items⟩

/-- the pieces `tokSplit` computes are the items of the canonical text -/
theorem tokSplit_is_the_items {o : Oracles} (ok : RoundTrip.OrOK o) (items : List Layout.Item)
    (hok : ∀ it ∈ items, ItemOK o it) (hg : Gaps items brk) :
    tokSplit o (canon items) = items.map Layout.Item.piece :=
  tokSplit_canon ok brk_none items hok hg

/-! ## Stage 3: spellings of one token -/

section
variable (o : Oracles) (ok : RoundTrip.OrOK o)
include ok

/-- **strings**: any permitted spelling of the characters `s` between double quotes is the token
    `(STRING_P, s)`, whatever follows the closing quote -/
theorem string_any_escapes {body s : List Char} (h : SpellsStr body s) :
    TokAt o (fun _ => True) '"' (body ++ ['"']) (.string, s) :=
  tokAt_string_spelled o ok h

/-- the same for `$"…"` variables -/
theorem variable_any_escapes {body s : List Char} (h : SpellsStr body s) :
    TokAt o (fun _ => True) '$' ('"' :: (body ++ ['"'])) (.variable, s) :=
  tokAt_variable_spelled o ok h

/-- the printer's body (`ast.quote`) is one of the spellings -/
theorem canonical_string_is_a_spelling (s : List Char) (hs : NoNul s) : SpellsStr (body o.isPrint s) s :=
  spellsStr_body o.isPrint ok.nl s hs

omit ok in
/-- bare identifiers may use the same escapes; the token is looked up from the DECODED text -/
theorem identifier_with_escapes {c0 : Char} {w s : List Char} (h : SpellsIdent o (c0 :: w) s) :
    TokAt o (fun y => isIdentCont o y = false) c0 w (identToken o s, s) :=
  tokAt_ident_spelled o h

/-- **integers**: `0x… 0o… 0b…` (prefix letter and hex digits of either case, single underscores between
    digits) is `INT_P` with its text, whatever follows that does not continue a number -/
theorem integer_hex_oct_bin {p : Char} {base : Nat} (hp : prefixBase p = some base) {ds : List Char} {n : Nat}
    (h : BaseDigits base ds n) : TokAt o (EndsNumber o) '0' (p :: ds) (.int, '0' :: p :: ds) :=
  tokAt_based o ok hp h

/-- decimal digits with single underscores between them -/
theorem integer_decimal_underscores {d : Char} {ds : List Char} {n : Nat} (h : BaseDigits 10 (d :: ds) n)
    (hd : d ≠ '0') : TokAt o (EndsNumber o) d ds (.int, d :: ds) :=
  tokAt_dec_sep o ok h hd

end

/-- the parser's constructor makes the integer node with the mathematical value -/
theorem integer_value {p : Char} {base : Nat} (hp : prefixBase p = some base) {ds : List Char} {n : Nat}
    (h : BaseDigits base ds n) (hn : n < 2 ^ 63) (s : PS) :
    newInteger ('0' :: p :: ds) s = .ok { node := .integer (n : Int) none, lit := '0' :: p :: ds } s :=
  newInteger_based hp h hn s

theorem integer_value_decimal {d : Char} {ds : List Char} {n : Nat} (h : BaseDigits 10 (d :: ds) n) (hd : d ≠ '0')
    (hn : n < 2 ^ 63) (s : PS) :
    newInteger (d :: ds) s = .ok { node := .integer (n : Int) none, lit := d :: ds } s :=
  newInteger_dec_sep h hd hn s

/-- `-0x1F` is `-31`: what `ast.NewUnaryOrNumber` re-parses -/
theorem integer_value_negated {p : Char} {base : Nat} (hp : prefixBase p = some base) {ds : List Char} {n : Nat}
    (h : BaseDigits base ds n) (hn : n ≤ 2 ^ 63) : parseInt0 (negLit ('0' :: p :: ds)) = some (-(n : Int)) :=
  parseInt0_neg_based hp h hn

/-- for every `n`: the plain hexadecimal spelling, either case -/
theorem hex_spelling (o : Oracles) (ok : RoundTrip.OrOK o) {p : Char} (hp : prefixBase p = some 16) (upper : Bool)
    (n : Nat) :
    TokAt o (EndsNumber o) '0' (p :: hexDigitsOf upper n) (.int, '0' :: p :: hexDigitsOf upper n) ∧
    (n < 2 ^ 63 → parseInt0 ('0' :: p :: hexDigitsOf upper n) = some (n : Int)) ∧
    (n ≤ 2 ^ 63 → parseInt0 (negLit ('0' :: p :: hexDigitsOf upper n)) = some (-(n : Int))) :=
  hex_literal o ok hp upper n

/-- **non-integer numbers**: `D.D`, `D.`, each optionally with an exponent `e`/`E` `[+-]` digits, and `De…`
    (`FloatForm`, single underscores between digits allowed) are the token `(NUMERIC_P, text)`, whatever
    follows that does not continue the literal (`EndsNumeric`: not a digit, `_`, `e`/`E`, an identifier
    start — a `.` DOES end it: `1.5.abs()`) -/
theorem numeric_forms (o : Oracles) (ok : RoundTrip.OrOK o) {d : Char} {ds : List Char}
    (h : FloatForm (d :: ds)) (hd : isDecimal d = true) :
    TokAt o (EndsNumeric o) d ds (.numeric, d :: ds) :=
  tokAt_float o ok h hd

/-- `.D` with an optional exponent: the `.` followed by a digit starts a number -/
theorem numeric_leading_dot (o : Oracles) (ok : RoundTrip.OrOK o) {ds : List Char} (h : FloatForm ('.' :: ds)) :
    TokAt o (EndsNumeric o) '.' ds (.numeric, '.' :: ds) :=
  tokAt_dot_float o ok h

/-- the parser's action on a numeric token depends on its text only -/
theorem numeric_value (txt : List Char) (f : F64) (s : PS) :
    newNumeric txt s = .ok { node := .numeric f none, lit := txt } s ↔ parseFloatFinite txt = some f :=
  newNumeric_iff txt f s

section
variable (o : Oracles) (ok : Layout.OrOK o) (up : OrUp o)
include ok up

/-- **keyword case**: a word whose ASCII lower-case form is the keyword `kw` (any keyword but `true`,
    `false`, `null`) is that keyword's token; the token text is the word as written -/
theorem keyword_any_case (c : Char) (w kw : List Char) (t : Tok) (hp : (kw, t) ∈ kwListAll) (hci : ciKw t = true)
    (hl : (c :: w).map lowerAscii = kw) : TokAt o (fun y => isIdentCont o y = false) c w (t, c :: w) :=
  tokAt_kw_case o ok up c w kw t hp hci hl

/-- `TRUE`, `False`, `NULL`, … are identifiers -/
theorem true_false_null_are_case_sensitive (c : Char) (w kw : List Char)
    (hk : kw = "true".toList ∨ kw = "false".toList ∨ kw = "null".toList)
    (hl : (c :: w).map lowerAscii = kw) (hne : c :: w ≠ kw) :
    TokAt o (fun y => isIdentCont o y = false) c w (.ident, c :: w) :=
  tokAt_lit_case o ok up c w kw hk hl hne

omit up in
/-- `<>` is the token of `!=`, text included -/
theorem ne_two_spellings :
    TokAt o (fun _ => True) '<' ['>'] (.notEq, []) ∧ TokAt o (fun _ => True) '!' ['='] (.notEq, []) :=
  tokAt_ltgt_eq_bangeq o ok

/-- a bare identifier of ASCII letters, digits and `_` that is not a keyword -/
theorem bare_identifier (c : Char) (w : List Char) (hc : isIdCh0 c = true) (hw : ∀ x ∈ w, isIdCh x = true)
    (hid : identToken o (c :: w) = .ident) : TokAt o (fun y => isIdentCont o y = false) c w (.ident, c :: w) :=
  tokAt_ident o ok up c w hc hw hid

/-- a bare variable `$name` is the token of `$"name"` -/
theorem bare_variable (n : Char) (ns : List Char) (hw : ∀ c ∈ n :: ns, isAlnum c = true) :
    TokAt o (fun y => isVariableRune o y = false) '$' (n :: ns) (.variable, n :: ns) :=
  tokAt_var o ok up n ns hw

end

/-- `.foo`, `."foo"` and a keyword used as a key: the accessor is the key with the text as written -/
theorem bare_key_is_quoted_key {o : Oracles} (f : Nat) (k : Tok) (s : List Char) (hk : isPlainKeyName k = true)
    (rest : List TT) :
    Layout.RunsV (Layout.StP o (tDot :: (k, s) :: rest)) (accessorOp o (f + 1) .dot) (.key s none) (Layout.StE o rest) :=
  accOp_plainKey f k s hk rest

/-- `.SIZE()` is `.size()`: the method keyword with any text -/
theorem method_keyword_any_text {o : Oracles} (f : Nat) (m : Method) (x : List Char) (rest : List TT) :
    Layout.RunsV (Layout.StP o (tDot :: (methodTok m, x) :: tLp :: tRp :: rest)) (accessorOp o (f + 1) .dot)
      (.method m none) (Layout.StE o rest) :=
  accOp_method_any f m x rest

/-- a method keyword (also `decimal`, `date`, `datetime`, `time…`) not followed by `(` is a key -/
theorem method_keyword_without_parens_is_a_key {o : Oracles} (f : Nat) (k : Tok) (s : List Char)
    (hk : isMethodKw k = true) (rest : List TT) (hr : (RoundTrip.hd rest).1 ≠ .lparen) :
    Layout.RunsV (Layout.StP o (tDot :: (k, s) :: rest)) (accessorOp o (f + 1) .dot) (.key s none) (Layout.StA o rest) :=
  accOp_kwKey f k s hk rest hr

/-! ## Stage 3 on whole paths -/

/-- **`spelling_independent`.**  For every tree `a` of `RT5`: cut the printed text into its token texts;
    respell strings and `$"…"` variables with any permitted escapes and write `<>` for `!=`
    (`PieceRespL`); put any separator before each piece (non-empty where the printer writes a blank)
    and at the end: `Parse` returns `a`. -/
theorem spelling_independent {o : Oracles} (ok : Layout.OrOK o) (a : AST) (h : RT5 o a = true) :
    ∃ txt, Print.toString o.isPrint a = some txt ∧
      ∀ (ps' : List (Bool × List Char)) (seps : List (List Char)) (fin : List Char),
        PieceRespL (tokSplit o txt) ps' → LayoutOKT ps' seps → Sep fin →
        parse o (utf8 (renderT (ps'.map (·.2)) seps ++ fin)) = .ok a :=
  Layout.spelling_independent ok a h

/-- **`mode_keyword_any_case`.**  For every tree of `RT5`: no mode prefix, `lax`, `strict`, `LAX`,
    `Strict`, … (`ModeSp`) followed by the root in any layout (and respelling) parses to the tree with
    that mode. -/
theorem mode_keyword_any_case {o : Oracles} (ok : Layout.OrOK o) (up : OrUp o) (a : AST) (h : RT5 o a = true)
    {lax : Bool} {m : List Char} {mt : List TT} (hm : ModeSp lax m mt) :
    ∃ (rtxt : List Char) (items : List Layout.Item), Print.writeTo o.isPrint a.root false true = some rtxt ∧
      withMode m rtxt = canon items ∧ (∀ it ∈ items, ItemOK o it) ∧ Gaps items brk ∧
      ∀ (items' : List Layout.Item) (seps : List (List Char)) (fin : List Char),
        RespL o items items' → LayoutOK items' seps → Sep fin →
        ∀ bytes, decodeAll bytes = (render items' seps ++ fin).map Src.ch →
          parse o bytes = .ok ⟨a.root, lax, a.pred⟩ :=
  layout_mode_stage5 ok up a h hm

/-! ## Stage 2: redundant parentheses

`ExprT o e u m txt` — "`txt` is a spelling of the expression `e`" (`u`: it may stand where a unit is
required — operand of `* / %`, of a sign, head of accessors; `m`: it may be the right operand of `+ -`);
`PredT o p a l txt` — "`txt` is a spelling of the predicate `p`" (`a`: operand of `&&`, `l`: operand of
`||`).  They bundle the text (with its token boundaries, `Seg2`) with what the parser makes of its tokens
(`ESpec`, `AtomSpec`, `LeftSpec`, `RightSpec`); the rule lemmas `Layout.exprT_mul`, `exprT_add`,
`exprT_sign`, `predT_cmp`, `predT_and`, `predT_or`, `predT_not`, `predT_exists`, `predT_isUnknown`,
`predT_starts`, `predT_regex`, `stepT_filter`, `stepT_index`, `chainT_cons`, `exprT_head`, … build
spellings of composite trees from spellings of their parts — with the texts of the parts as parameters,
so parentheses may be added anywhere by the two rules below. -/

/-- **`redundant_parens` (parser calculus, expressions).**  If the tokens `tk :: ts` are the expression `e`
    (in whatever positions), then `( tk … ts )` is the SAME expression, fit for every position. -/
theorem redundant_parens_expr {o : Oracles} (ok : Layout.OrOK o) {e : Node} {tk : TT} {ts : List TT} {p q : Prop}
    (h : Layout.ESpec o e tk ts p q) (p' q' : Prop) : Layout.ESpec o e tLp (tk :: ts ++ [tRp]) p' q' :=
  Layout.redundant_parens_expr ok h p' q'

/-- **`redundant_parens` (parser calculus, predicates).**  If the tokens are the whole predicate `p`, then
    `( … )` is the same predicate as an atom (operand of `&&`, `||`, `!`, a filter, the top level). -/
theorem redundant_parens_pred {o : Oracles} {p : Node} {toks : List TT} (h : Layout.FullSpec o p toks) :
    Layout.AtomSpec o p (tLp :: toks ++ [tRp]) :=
  Layout.redundant_parens_pred h

/-- text level: a parenthesised spelling of `e` is a spelling of `e`, usable everywhere -/
theorem expr_in_parens {o : Oracles} (ok : Layout.OrOK o) {e : Node} {u m : Prop} {txt : List Char}
    (h : ExprT o e u m txt) (n : Nat) : ExprT o e (0 < n ∨ u) (0 < n ∨ m) (parensC n txt) :=
  exprT_parens ok h n

theorem pred_in_parens {o : Oracles} (ok : Layout.OrOK o) {p : Node} {a l : Prop} {txt : List Char}
    (h : PredT o p a l txt) (n : Nat) : PredT o p (0 < n ∨ a) (0 < n ∨ l) (parensC n txt) :=
  predT_parens ok h n

/-- `(e).acc…` is `e.acc…`: parentheses around the head of an accessor chain -/
theorem parens_before_accessors {o : Oracles} (ok : Layout.OrOK o) {e n : Node} {u m : Prop}
    {te stxt ctxt : List Char} (he : ExprT o e u m te) (hs : StepT o n stxt) (hc : ChainT o n.next ctxt) :
    ExprT o (appendEnd e (some n)) True True ('(' :: (te ++ ')' :: (stxt ++ ctxt))) :=
  exprT_paren_chain ok he hs hc

/-- every spelling of an expression, after the mode prefix, parses to it — in every layout -/
theorem spelled_expr_parses {o : Oracles} (ok : Layout.OrOK o) {e : Node} {u m : Prop} {txt : List Char}
    (h : ExprT o e u m txt) (hv : validate e = true) (lax : Bool) :
    ∃ items, SpellInv o ⟨e, lax, false⟩ (modeTxt lax ++ txt) items :=
  layout_exprT ok h hv lax

theorem spelled_pred_parses {o : Oracles} (ok : Layout.OrOK o) {p : Node} {a l : Prop} {txt : List Char}
    (h : PredT o p a l txt) (hv : validate p = true) (lax : Bool) :
    ∃ items, SpellInv o ⟨p, lax, true⟩ (modeTxt lax ++ txt) items :=
  layout_predT ok h hv lax

/-- **whole paths, more parentheses**: for `a` in `RT5`, the printed root wrapped in `n` more pairs of
    parentheses parses to `a`, in every layout (`SpellInv`) -/
theorem redundant_parens_whole_path {o : Oracles} (ok : Layout.OrOK o) (a : AST) (h : RT5 o a = true) (n : Nat) :
    ∃ txt, Print.writeTo o.isPrint a.root false true = some txt ∧
      Print.toString o.isPrint a = some (modeTxt a.lax ++ txt) ∧
      ∃ items, SpellInv o a (modeTxt a.lax ++ parensC n txt) items :=
  redundant_parens_stage5 ok a h n

/-- **whole paths, fewer parentheses**: the printer parenthesises a binary root; the text without that
    pair (`n = 0`), or with any number of pairs, parses to `a` as well -/
theorem fewer_parens_whole_path {o : Oracles} (ok : Layout.OrOK o) (a : AST) (h : RT5 o a = true) (n : Nat) :
    ∃ txt0, Print.writeTo o.isPrint a.root false false = some txt0 ∧
      ∃ items, SpellInv o a (modeTxt a.lax ++ parensC n txt0) items :=
  fewer_parens_stage5 ok a h n

/-- a text built with the rules, redundant parentheses at three places: `strict (($."a")) + ((1 * (2)))`
    parses to the tree of `strict ($."a" + 1 * 2)`, for every oracle -/
theorem redundant_parens_worked {o : Oracles} (ok : Layout.OrOK o) (bytes : List UInt8)
    (hb : decodeAll bytes = "strict (($.\"a\")) + ((1 * (2)))".toList.map Src.ch) :
    parse o bytes = .ok ⟨exSum, false, false⟩ :=
  exSum_parse_text ok bytes hb

/-- concrete placements (ASCII oracles, kernel evaluation): `Layout.redundant_parens_examples`,
    `Layout.redundant_parens_positions` (≈45 placements that do not change the tree),
    `Layout.significant_parens` (parentheses that DO change it, as precedence and associativity require),
    `Layout.no_parenthesised_form` (positions where the grammar has no parenthesised form) -/
theorem redundant_parens_concrete :
    same "((($.a)))" "$.a" = true ∧ same "(($.a == 1)) && ((($.b > 2)))" "$.a == 1 && $.b > 2" = true ∧
    same "($.a).b" "$.a.b" = true ∧ same "$ ? ((@ > 1))" "$ ? (@ > 1)" = true ∧
    same "$.a - (1 - 2)" "$.a - 1 - 2" = false := by
  decide +kernel

/-! ## Operators nest by precedence and associativity

`mulTree x [(op₁,u₁),…]` is `((x op₁ u₁) op₂ u₂) …`; `sumTree T₀ [(op₁,T₁),…]` is `((T₀ op₁ T₁) op₂ T₂) …` with
each term `Tᵢ` a `mulTree`; `andTree`, `orTree` likewise for `&&` within `||`.  A *unit* is an operand with
its accessors, a signed unit or a parenthesised expression; an *atom* is a comparison, `exists (…)`,
`!(…)`, `(…) is unknown`, `… starts with …`, `… like_regex …` or a parenthesised predicate. -/

/-- `u₀ * u₁ / u₂ …`: `mulLoop` builds the left-nested product (fuel linear in the tokens) -/
theorem mul_chain {o : Oracles} (ms : List (BinOp × UnitC)) (hms : MulsOK o ms) (x : Node) (g : Nat)
    (rest : List TT) (hg : 16 * (mulToks ms).length + 4 ≤ g) (hu : UFollow (RoundTrip.hd rest).1)
    (hm : mulOp (RoundTrip.hd rest).1 = none) :
    Layout.RunsV (Layout.StE o (mulToks ms ++ rest)) (mulLoop o g (evOf x)) (evOf (mulTree x (mulNodes ms)))
      (Layout.StA o rest) :=
  mulLoop_chain ms hms x g rest hg hu hm

/-- `x * … + T₁ - T₂ …`: `arithLoop` builds the left-nested sum of left-nested products -/
theorem arith_chain {o : Oracles} (ms : List (BinOp × UnitC)) (hms : MulsOK o ms) (as : List (BinOp × TermC))
    (has : AddsOK o as) (x : Node) (g : Nat) (rest : List TT)
    (hg : 16 * ((mulToks ms).length + (addToks as).length) + 4 ≤ g) (hu : UFollow (RoundTrip.hd rest).1)
    (ha : addOp (RoundTrip.hd rest).1 = none) (hm : mulOp (RoundTrip.hd rest).1 = none) :
    Layout.RunsV (Layout.StE o (mulToks ms ++ (addToks as ++ rest))) (arithLoop o g (evOf x))
      (evOf (sumTree ⟨x, mulNodes ms⟩ (addTerms as)), (RoundTrip.hd rest).1) (Layout.StA o rest) :=
  arithLoop_chain ms hms as has x g rest hg hu ha hm

/-- `a && … || C₁ || C₂ …`: `predLoop` builds the left-nested disjunction of left-nested conjunctions -/
theorem pred_chain {o : Oracles} (as : List AtomC) (has : AndsOK o as) (cs : List ConjC) (hcs : OrsOK o cs)
    (a : Node) (g : Nat) (rest : List TT) (hg : 16 * ((andToks as).length + (orToks cs).length) + 8 ≤ g)
    (he : EndP (RoundTrip.hd rest).1) :
    Layout.RunsV (Layout.StE o (andToks as ++ (orToks cs ++ rest))) (predLoop o g { node := a })
      ({ node := orTree ⟨a, andNodes as⟩ (orConjs cs) }, (RoundTrip.hd rest).1) (Layout.StA o rest) :=
  predLoop_chain as has cs hcs a g rest hg he

/-- **precedence and associativity of `+ - * / %` on texts**: spellings of units joined by ` op `, WITHOUT
    parentheses, after the mode prefix, parse to `sumTree` — in every layout -/
theorem arithmetic_chain_parses {o : Oracles} (ok : Layout.OrOK o) (t₀ : TermT) (h₀ : t₀.OK o)
    (as : List (BinOp × TermT)) (has : AddsOKT o as)
    (hv : validate (sumTree t₀.term (addTermsT as)) = true) (lax : Bool) :
    ∃ items, SpellInv o ⟨sumTree t₀.term (addTermsT as), lax, false⟩
      (modeTxt lax ++ (t₀.head.txt ++ (mulTxt t₀.muls ++ addTxt as))) items :=
  layout_expr_chain ok t₀ h₀ as has hv lax

/-- **precedence and associativity of `&&` `||` on texts** -/
theorem predicate_chain_parses {o : Oracles} (ok : Layout.OrOK o) (c₀ : ConjT) (h₀ : c₀.OK o) (cs : List ConjT)
    (hcs : OrsOKT o cs) (hv : validate (orTree c₀.conj (orConjsT cs)) = true) (lax : Bool) :
    ∃ items, SpellInv o ⟨orTree c₀.conj (orConjsT cs), lax, true⟩
      (modeTxt lax ++ (c₀.head.txt ++ (andTxt c₀.ands ++ orTxt cs))) items :=
  layout_pred_chain ok c₀ h₀ cs hcs hv lax

/-- a parenthesised chain is a unit again (so chains nest through parentheses and plug into every rule) -/
theorem chain_in_parens_is_a_unit {o : Oracles} (ok : Layout.OrOK o) {e : Node} {txt : List Char}
    (h : ExprTC o e txt) : ExprT o e True True ('(' :: (txt ++ [')'])) :=
  exprT_paren_of_chain ok h

/-- **comparisons do not associate**: `l op r op' x` with two comparison operators is rejected, in every
    layout (`RejectInv`: `parse = .err`) -/
theorem comparisons_do_not_associate {o : Oracles} (ok : Layout.OrOK o) (op op' : BinOp) (hop : isCmp op = true)
    (hop' : isCmp op' = true) {l r x : Node} {tl tr tx : List Char} (hl : ExprTC o l tl) (hr : ExprTC o r tr)
    (hx : ExprTC o x tx) (lax : Bool) :
    ∃ items, RejectInv o
      (modeTxt lax ++ (tl ++ ' ' :: (Print.binStr op ++ ' ' :: (tr ++ ' ' :: (Print.binStr op' ++ ' ' :: tx)))))
      items :=
  cmp_nonassoc ok op op' hop hop' hl hr hx lax

/-- `1 - 2 - 3` is `(1 - 2) - 3`, for every oracle (an instance of `arithmetic_chain_parses`) -/
theorem left_assoc_worked {o : Oracles} (ok : Layout.OrOK o) (bytes : List UInt8)
    (hb : decodeAll bytes = "1 - 2 - 3".toList.map Src.ch) :
    parse o bytes = .ok ⟨.binary .sub (some (.binary .sub (some (.integer 1 none)) (some (.integer 2 none)) none))
      (some (.integer 3 none)) none, true, false⟩ :=
  sub3_parse_text ok bytes hb

theorem precedence_concrete :
    same "1 - 2 - 3" "(1 - 2) - 3" = true ∧ same "1 - 2 * 3 % 4 + 5" "(1 - ((2 * 3) % 4)) + 5" = true ∧
    same "1 - 2 - 3" "1 - (2 - 3)" = false ∧
    same "$.a == 1 || $.b == 2 && $.c == 3 || $.d == 4" "($.a == 1 || ($.b == 2 && $.c == 3)) || $.d == 4" = true ∧
    same "1 + 2 == 3 * 4" "(1 + 2) == (3 * 4)" = true ∧ run "1 < 2 < 3" = "ERR" := by
  decide +kernel

/-! ## The documented syntax as a grammar

`Layout.Sp o cn c txt`: the text `txt` is derivable for the judgement `c : Cat` — `expr e u m` ("a spelling of
the expression `e`", `u`: fit for a unit position, `m`: fit as right operand of `+ -`), `pred p a l`,
`step n` (one accessor), `chain nx`, `sub s`, `subs l`.  Its 61 constructors are the constructs of the
class with their spelling freedoms: `paren` / `pparen` (parentheses around any expression / predicate, any
number of times), `parenChain` (`(e).acc`), `mul`, `add`, `sign`, `negLit`, `cmp` (with `<>`), `and`, `or`,
`not`, `exists_` / `exists0`, `isUnknown`, `starts`, `regex`, `regexFlag` (keywords in ANY case as
parameters), leaves `root`, `current`, `nat`, `strTok` (string, `$"…"`, bare `$name`, any escapes), `last`,
`const`, accessors `keyQ` (`."…"` any escapes), `keyIdent` (bare `.name`), `keyKw` / `keyLit` (keywords as
keys), `keyIdentSp` (bare key with escapes), `method`, `date`, `datetime0`, `datetime`, `time0`, `time1`,
`decimal`, `any1`, `any2`, `index`, `sub1`, `sub2` (`TO` any case), `filter`, `cons`, `consKwKey`, `nil`,
`simple`; with `cn = true` also the canonical leaves of the class.  Blanks are written where the printer
writes them; the layout theorem then allows any separators (`LayoutOKT`). -/

/-- **C03 for expressions**: every text the grammar derives for `e`, after the mode keyword in any case (or
    none), parses to `e` — in every layout, with every token that keeps its token respelled (`SpellInv`) -/
theorem every_spelling_parses {o : Oracles} (ok : Layout.OrOK o) (up : OrUp o) {cn : Bool} {e : Node} {u m : Bool}
    {txt : List Char} (h : SpExpr o cn e u m txt) (hv : validate e = true) {lax : Bool} {md : List Char}
    {mt : List TT} (hm : ModeSp lax md mt) :
    ∃ items, SpellInv o ⟨e, lax, false⟩ (withMode md txt) items :=
  spells_parse_mode ok up h hv hm

/-- **C03 for predicates** -/
theorem every_spelling_parses_pred {o : Oracles} (ok : Layout.OrOK o) (up : OrUp o) {cn : Bool} {p : Node}
    {a l : Bool} {txt : List Char} (h : SpPred o cn p a l txt) (hv : validate p = true) {lax : Bool}
    {md : List Char} {mt : List TT} (hm : ModeSp lax md mt) :
    ∃ items, SpellInv o ⟨p, lax, true⟩ (withMode md txt) items :=
  spells_parse_pred_mode ok up h hv hm

/-- the same with explicit separators: cut the derived text into its token texts and put any separators -/
theorem every_spelling_in_every_layout {o : Oracles} (ok : Layout.OrOK o) (up : OrUp o) {cn : Bool} {e : Node}
    {u m : Bool} {txt : List Char} (h : SpExpr o cn e u m txt) (hv : validate e = true) {lax : Bool}
    {md : List Char} {mt : List TT} (hm : ModeSp lax md mt) (seps : List (List Char)) (fin : List Char)
    (hl : LayoutOKT (tokSplit o (withMode md txt)) seps) (hfin : Sep fin) :
    parse o (utf8 (renderT ((tokSplit o (withMode md txt)).map (·.2)) seps ++ fin)) = .ok ⟨e, lax, false⟩ :=
  spells_layout ok up h hv hm seps fin hl hfin

/-- the rules are sound: a derivation gives the relational bundle of its judgement -/
theorem grammar_sound {o : Oracles} (ok : Layout.OrOK o) (up : OrUp o) {cn : Bool} {c : Cat} {t : List Char}
    (h : Sp o cn c t) : c.den o t :=
  Sp.sound ok up h

/-- every tree of the class `RT5` is generated, with its printed text, WITHOUT the canonical-leaf rules -/
theorem class_is_generated {o : Oracles} (ok : Layout.OrOK o) (a : AST) (h : RT5 o a = true) :
    ∃ txt, Print.writeTo o.isPrint a.root false true = some txt ∧
      Print.toString o.isPrint a = some (modeTxt a.lax ++ txt) ∧
      (if a.pred then SpPred o false a.root true true txt else SpExpr o false a.root true true txt) :=
  rt5_generated_core ok a h

/-- a derivation instantiated (ASCII oracles): every keyword upper case, a bare key, `<>`, a string written
    `"\x41"`, blanks around the punctuation — `Layout.exG_layout1`; with comments, tabs and newlines —
    `Layout.exG_layout2` -/
theorem grammar_worked :
    parse asciiOracles (utf8 "STRICT $.foo ? ( @.\"bar\" <> \"\\x41\" && EXISTS ( @.c ) ) .SIZE()".toList)
      = .ok ⟨exG, false, false⟩ :=
  exG_layout1

/-! ## The parser is a function of the token stream -/

/-- **`parser_depends_on_tokens`.**  Two parser states standing before equivalent token streams
    (`TokEqLX`: integer literals of equal value, keywords in any case except after a dot, bare / quoted /
    keyword key names with the same text after a dot): if `parseBody` succeeds error-free on the first, it
    succeeds on the second with the same mode, predicate flag and tree.  (Same fuel on both sides; the
    streams are arbitrary.) -/
theorem parser_depends_on_tokens {o : Oracles} {ts ts' : List TT} (h : TokEqLX false ts ts') {s s' : PS}
    (hs : Layout.StE o ts s) (hs' : Layout.StE o ts' s') {f : Nat} {lax p : Bool} {ev : EV} {s1 : PS}
    (hrun : parseBody o f s = .ok (lax, p, ev) s1) (hend : Layout.StE o [] s1) :
    ∃ ev' s1', parseBody o f s' = .ok (lax, p, ev') s1' ∧ ev'.node = ev.node ∧ Layout.StE o [] s1' :=
  sim_parseBodyX h hs hs' hrun hend

/-- hexadecimal, octal, binary and underscore spellings are `IntEq` to the decimal one (instance) -/
theorem intEq_example : IntEq "31".toList "0X1f".toList := by
  refine ⟨⟨'3', _, rfl, Or.inl (by decide)⟩, ⟨'0', _, rfl, Or.inl (by decide)⟩, ?_, ?_, ?_⟩ <;> decide +kernel

/-- **`equivalent_tokens_parse`** (class `RT5`): let `txt` be the printed text of `a`.  Every text that
    consists of tokens (`ItemOK`, each tolerating the end of the text) separated by any separators — an
    empty one only where `tolOf` allows it (`LayoutStrict`) — and whose token stream is equivalent to the
    token stream of `txt` parses to `a`. -/
theorem equivalent_tokens_parse {o : Oracles} (ok : Layout.OrOK o) (a : AST) (h : RT5 o a = true) :
    ∃ txt, Print.toString o.isPrint a = some txt ∧
      ∀ (items' : List Layout.Item) (seps : List (List Char)) (fin : List Char),
        (∀ it ∈ items', ItemOK o it ∧ it.C none) → TokEqLX false (toksOf o txt) (items'.map (·.tk)) →
        LayoutStrict items' seps → Sep fin →
        parse o (utf8 (render items' seps ++ fin)) = .ok a :=
  tokens_equiv_stage5 ok a h

/-- `strict $."a"[0,last]?(@."x" != 31)` -/
def exAll : AST :=
  ⟨.const .root (some (.key "a".toList (some (.arrayIndex
      [.binary .subscript (some (.integer 0 none)) none none,
       .binary .subscript (some (.const .last none)) none none]
      (some (.unary .filter (some (.binary .ne
        (some (.const .current (some (.key "x".toList none)))) (some (.integer 31 none)) none)) none)))))),
   false, false⟩

example : RT5 asciiOracles exAll = true := by decide

theorem exAll_toks : toksOf asciiOracles "strict $.\"a\"[0,last]?(@.\"x\" != 31)".toList =
    [(.strict, "strict".toList), tDollar, tDot, (.string, "a".toList), tLb, (.int, "0".toList), tComma,
     (.last, "last".toList), tRb, tQ, tLp, tAt, tDot, (.string, "x".toList), (.notEq, []), (.int, "31".toList), tRp] := by
  decide +kernel

/-- the tokens of the variant text, one by one -/
def exAll_items : List Layout.Item :=
  [itKw (o := asciiOracles) false 's' "trict".toList .strict, itDollar (o := asciiOracles) false, itDot false,
   itStr false "a".toList "a".toList, itSolo false '[', itInt (o := asciiOracles) false '0' [], itSolo false ',',
   itKw (o := asciiOracles) false 'l' "ast".toList .last, itSolo false ']', itSolo false '?', itSolo false '(',
   itSolo false '@', itDot false, itIdent (o := asciiOracles) false 'x' [], itLtGt false,
   itIntB (o := asciiOracles) false 'X' "1f".toList, itSolo false ')']

/-- **`task_example`**: a comment after the mode keyword, blanks and a newline between the tokens, NO blanks
    around the operator, a bare key `x` for `"x"`, `<>` for `!=`, `0X1f` for `31` — the same tree.  Obtained
    from `equivalent_tokens_parse`, not by evaluation. -/
theorem task_example :
    parse asciiOracles (utf8 "strict/* c */$ . \"a\"\n[ 0 ,last ]?( @ . x<>0X1f )".toList) = .ok exAll := by
  obtain ⟨txt, h1, h2⟩ := equivalent_tokens_parse orOK_ascii exAll (by decide)
  have e : txt = "strict $.\"a\"[0,last]?(@.\"x\" != 31)".toList := by
    have e : Print.toString asciiOracles.isPrint exAll = some "strict $.\"a\"[0,last]?(@.\"x\" != 31)".toList := by
      decide +kernel
    rw [e] at h1
    injection h1 with h1
    exact h1.symm
  subst e
  have ok := orOK_ascii
  have up := orUp_ascii
  have hok : ∀ it ∈ exAll_items, ItemOK asciiOracles it ∧ it.C none := by
    simp only [exAll_items, List.forall_mem_cons, List.not_mem_nil, false_imp_iff, implies_true, and_true]
    refine ⟨itKw_ok ok up false 's' "trict".toList "strict".toList .strict (by decide) (by decide) (by decide) (by decide),
      itDollar_ok ok false, itDot_ok ok false,
      itStr_ok ok false (body := "a".toList) (s := "a".toList) (spellsStr_plain _ (by decide)),
      itSolo_ok ok false '[' (by decide), itInt_ok ok false '0' [] (by decide) (by decide),
      itSolo_ok ok false ',' (by decide),
      itKw_ok ok up false 'l' "ast".toList "last".toList .last (by decide) (by decide) (by decide) (by decide),
      itSolo_ok ok false ']' (by decide), itSolo_ok ok false '?' (by decide), itSolo_ok ok false '(' (by decide),
      itSolo_ok ok false '@' (by decide), itDot_ok ok false,
      itIdent_ok ok up false 'x' [] (by decide) (by decide) (by decide), itLtGt_ok ok false,
      itIntB_ok ok false (p := 'X') (base := 16) (by decide) (ds := "1f".toList) (n := 31) (by decide),
      itSolo_ok ok false ')' (by decide)⟩
  have r := fun t => TokEqX.refl false t
  have heq : TokEqLX false (toksOf asciiOracles "strict $.\"a\"[0,last]?(@.\"x\" != 31)".toList)
      (exAll_items.map (·.tk)) := by
    rw [exAll_toks]
    refine .cons (r _) (.cons (r _) (.cons (r _) (.cons (TokEqX.refl _ _) (.cons (r _) (.cons (r _) (.cons (r _)
      (.cons (r _) (.cons (r _) (.cons (r _) (.cons (r _) (.cons (r _) (.cons (r _) (.cons ?_ (.cons (r _)
      (.cons ?_ (.cons (r _) (.nil _)))))))))))))))))
    · exact Or.inr ⟨rfl, by decide, by decide, rfl⟩
    · exact Or.inl ⟨rfl, Or.inr (Or.inl ⟨rfl, intEq_example⟩)⟩
  exact h2 exAll_items
    [[], "/* c */".toList, " ".toList, " ".toList, "\n".toList, " ".toList, " ".toList, [], " ".toList, [], [],
     " ".toList, " ".toList, " ".toList, [], [], " ".toList] [] hok heq (layoutStrict_of_B _ _ (by decide)) Sep.nil

/-! ## A worked instance of `layout_independent` -/

/-- `strict $."a"[0,last]` -/
def exL : AST :=
  ⟨.const .root (some (.key "a".toList (some (.arrayIndex
      [.binary .subscript (some (.integer 0 none)) none none,
       .binary .subscript (some (.const .last none)) none none] none)))), false, false⟩

example : RT5 asciiOracles exL = true := by decide

/-- the token texts of the printed text -/
theorem exL_pieces : tokSplit asciiOracles "strict $.\"a\"[0,last]".toList =
    [(false, "strict".toList), (true, "$".toList), (false, ".".toList), (false, "\"a\"".toList),
     (false, "[".toList), (false, "0".toList), (false, ",".toList), (false, "last".toList),
     (false, "]".toList)] := by decide +kernel

/-- the theorem instantiated: a comment after `strict`, blanks and a newline inside the path, a tab, a
    trailing comment -/
example : parse asciiOracles (utf8 "strict/* c */$ . \"a\"\n[ 0 ,last\t]  /* end */".toList) = .ok exL := by
  obtain ⟨txt, h1, h2⟩ := layout_independent orOK_ascii exL (by decide)
  have e : txt = "strict $.\"a\"[0,last]".toList := by
    have e : Print.toString asciiOracles.isPrint exL = some "strict $.\"a\"[0,last]".toList := by decide +kernel
    rw [e] at h1
    injection h1 with h1
    exact h1.symm
  subst e
  have := h2 [[], "/* c */".toList, " ".toList, " ".toList, "\n".toList, " ".toList, " ".toList, [], "\t".toList]
    "  /* end */".toList (by rw [exL_pieces]; exact layoutOKT_of_B _ _ (by decide)) (sep_of_sepB 20 _ (by decide))
  rw [exL_pieces] at this
  exact this

/-! ## A worked instance of `spelling_independent`: no blanks around the operator, `<>` for `!=` -/

/-- `$?(@."x" != "A")` -/
def exT : AST :=
  ⟨.const .root (some (.unary .filter (some (.binary .ne
      (some (.const .current (some (.key "x".toList none)))) (some (.str ['A'] none)) none)) none)), true, false⟩

example : RT5 asciiOracles exT = true := by decide

theorem exT_pieces : tokSplit asciiOracles "$?(@.\"x\" != \"A\")".toList =
    [(false, "$".toList), (false, "?".toList), (false, "(".toList), (false, "@".toList), (false, ".".toList),
     (false, "\"x\"".toList), (true, "!=".toList), (true, "\"A\"".toList), (false, ")".toList)] := by
  decide +kernel

/-- `$ ? (@."\u0078"<>"\x41")`: the key and the string respelled with escapes, `<>` for `!=`, EMPTY
    separators around the operator (the string before it and the operator itself tolerate what follows) -/
example : parse asciiOracles (utf8 "$ ? (@.\"\\u0078\"<>\"\\x41\")".toList) = .ok exT := by
  obtain ⟨txt, h1, h2⟩ := spelling_independent orOK_ascii exT (by decide)
  have e : txt = "$?(@.\"x\" != \"A\")".toList := by
    have e : Print.toString asciiOracles.isPrint exT = some "$?(@.\"x\" != \"A\")".toList := by decide +kernel
    rw [e] at h1
    injection h1 with h1
    exact h1.symm
  subst e
  have hx : SpellsStr "\\u0078".toList ['x'] :=
    SpellsStr.single' (SpellsChar.u4 (hexDig_lower '0' 0 (by decide) (by decide))
      (hexDig_lower '0' 0 (by decide) (by decide)) (hexDig_lower '7' 7 (by decide) (by decide))
      (hexDig_lower '8' 8 (by decide) (by decide)) (by decide) (by decide)) (by decide)
  have hA : SpellsStr "\\x41".toList ['A'] :=
    SpellsStr.single' (SpellsChar.hex (hexDig_lower '4' 4 (by decide) (by decide))
      (hexDig_lower '1' 1 (by decide) (by decide)) (by decide)) (by decide)
  have hxc : SpellsStr "x".toList ['x'] := spellsStr_plain _ (by decide)
  have hAc : SpellsStr "A".toList ['A'] := spellsStr_plain _ (by decide)
  have same : ∀ p : Bool × List Char, PieceResp p p := fun p => ⟨rfl, Or.inl rfl⟩
  have hp : PieceRespL (tokSplit asciiOracles "$?(@.\"x\" != \"A\")".toList)
      [(false, "$".toList), (false, "?".toList), (false, "(".toList), (false, "@".toList), (false, ".".toList),
       (false, "\"\\u0078\"".toList), (true, "<>".toList), (true, "\"\\x41\"".toList), (false, ")".toList)] := by
    rw [exT_pieces]
    refine .cons (same _) (.cons (same _) (.cons (same _) (.cons (same _) (.cons (same _) (.cons ?_ (.cons ?_
      (.cons ?_ (.cons (same _) .nil))))))))
    · exact ⟨rfl, Or.inr (Or.inl ⟨_, _, _, hxc, hx, rfl, rfl⟩)⟩
    · exact ⟨rfl, Or.inr (Or.inr (Or.inr ⟨rfl, rfl, rfl⟩))⟩
    · exact ⟨rfl, Or.inr (Or.inl ⟨_, _, _, hAc, hA, rfl, rfl⟩)⟩
  have := h2 _ [[], " ".toList, " ".toList, [], [], [], [], [], []] [] hp
    (layoutOKT_of_B _ _ (by decide)) Sep.nil
  exact this

/-! ## Concrete evaluations (kernel `decide`, ASCII instance of the oracles) -/

/-- the example of the task: comments, newlines, blanks, a bare key, `<>`, a hexadecimal literal -/
theorem example_all_freedoms :
    run "strict/* c */$ . \"a\"\n[ 0 ,last ]?( @ . x<>0X1f )" = run "strict $.\"a\"[0,last]?(@.\"x\" != 31)" ∧
    run "strict $.\"a\"[0,last]?(@.\"x\" != 31)" = "strict $.\"a\"[0,last]?(@.\"x\" != 31)" := by
  decide +kernel

/-- a comment directly after any kind of token (number, identifier, `$`, `*`, `/`, string) is a comment;
    `/` then a comment is division -/
theorem comment_after_every_token_kind :
    run "1/**/+/**/2" = run "1 + 2" ∧ run "$.a/**/./**/b" = run "$.a.b" ∧ run "$/**/.a" = run "$.a" ∧
    run "$.*/**/.a" = run "$.*.a" ∧ run "1 //**/ 2" = run "1 / 2" ∧ run "\"a\"/**/" = run "\"a\"" ∧
    run "$./**/**/**/{2 to last}" = run "$.**{2 to last}" ∧ run "1 /* * / ** */ / 2" = run "1 / 2" := by
  decide +kernel

/-- where the canonical text has a blank, an EMPTY separator may change the tokens: the condition of
    `layout_independent` cannot be dropped altogether (`last to` vs `lastto`, `1 to` vs `1to`).  It is
    sufficient, not necessary: `strict$`, `1 +2`, `@ == 1&&@ == 2` are fine — the precise condition
    is `GapsR` of `lexer_layout`: every token is followed by a character it tolerates. -/
theorem blank_needed :
    run "$[last to 2]" = "$[last to 2]" ∧ run "$[lastto 2]" = "ERR" ∧ run "$[1to 2]" = "ERR" ∧
    run "$[last to2]" = "ERR" ∧ run "strict$" = "strict $" ∧ run "1 +2" = "(1 + 2)" ∧
    run "$ ? (@ == 1&&@ == 2)" = "$?(@ == 1 && @ == 2)" := by
  decide +kernel

/-- an unterminated comment and a NUL inside a comment are errors (not separators) -/
theorem not_separators :
    run "$ /* x" = "ERR" ∧ run "$ /*/" = "ERR" ∧ run "$ /**/" = "$" := by
  decide +kernel

/-- an underscore directly after the base prefix is refused by the lexer although `strconv.ParseInt`
    accepts it (finding; Go = model) -/
theorem underscore_directly_after_prefix_rejected :
    run "0x_1F" = "ERR" ∧ run "0o_17" = "ERR" ∧ run "0b_101" = "ERR" ∧ parseInt0 "0x_1F".toList = some 31 ∧
    run "0x1_F" = "31" := by
  decide +kernel

end C03b
end Sqljson
