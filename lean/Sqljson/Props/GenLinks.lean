import Sqljson.Model.Lex
import Sqljson.Model.Print
import Sqljson.Gen.Keywords
import Sqljson.Gen.Priority
import Sqljson.Gen.Enums
/-!
# Links between the tables regenerated from /repo and the model's own tables

`Props/GenFacts.lean` compares the regenerated tables with a frozen copy; the theorems here tie
them to the *functions of the model* instead, so that the tie does not go through a copy:

* `keywords_link` — every row `(keyword, TOKEN_P, caseSensitive)` of the two switches of
  `identToken` (lexer.go): the model's `Lex.identToken` maps the keyword to the token of that name,
  maps its upper-case spelling to the same token exactly when the row is case-insensitive, and
  the rows are all the keywords the model knows (`keywords_complete`);
* `priorities_link` — every row of the two `priority()` switches (ast.go): the model's
  `Print.binPriority` / `Print.unPriority` return the row's value for the operator of that name,
  and `lowestPriority` (6) for every operator without a row;
* `enums_link` — every constant of package ast with a stringer comment: position in its const
  block = constructor index in the model's `Const`/`BinOp`/`UnOp`/`Method`, spelling = the
  model's `constStr`/`binStr`/`unStr`/`methodStr`; the five regex flags are bits 0–4 in the order
  `i s m x q` that `Print.flagsStr` writes.

A change to one of these switches or const blocks in /repo changes the regenerated table and
makes the `decide` below fail.
-/
namespace Sqljson
namespace GenLinks
open Lex

def tokName : Tok → String
  | .null => "NULL_P" | .true_ => "TRUE_P" | .false_ => "FALSE_P" | .is => "IS_P" | .to => "TO_P"
  | .abs => "ABS_P" | .lax => "LAX_P" | .date => "DATE_P" | .flag => "FLAG_P" | .last => "LAST_P"
  | .size => "SIZE_P" | .time => "TIME_P" | .type => "TYPE_P" | .with_ => "WITH_P"
  | .floor => "FLOOR_P" | .bigint => "BIGINT_P" | .double => "DOUBLE_P" | .exists => "EXISTS_P"
  | .number => "NUMBER_P" | .starts => "STARTS_P" | .strict => "STRICT_P"
  | .stringfunc => "STRINGFUNC_P" | .boolean => "BOOLEAN_P" | .ceiling => "CEILING_P"
  | .decimal => "DECIMAL_P" | .integer => "INTEGER_P" | .timeTz => "TIME_TZ_P"
  | .unknown => "UNKNOWN_P" | .datetime => "DATETIME_P" | .keyvalue => "KEYVALUE_P"
  | .timestamp => "TIMESTAMP_P" | .likeRegex => "LIKE_REGEX_P" | .timestampTz => "TIMESTAMP_TZ_P"
  | .ident => "IDENT_P" | _ => "?"

def asciiLower (c : Char) : Char := if 'A' ≤ c ∧ c ≤ 'Z' then Char.ofNat (c.toNat + 32) else c
def asciiUpper (c : Char) : Char := if 'a' ≤ c ∧ c ≤ 'z' then Char.ofNat (c.toNat - 32) else c

/-- oracles that fold ASCII case (all the keywords are ASCII) -/
def asciiOracles : Oracles :=
  { xidStart := fun _ => false, xidContinue := fun _ => false, isPrint := fun _ => true,
    toLower := asciiLower, regexAccepts := fun _ _ => true }

def keywordRowOK (e : String × String × Bool) : Bool :=
  tokName (identToken asciiOracles e.1.toList) == e.2.1 &&
  (tokName (identToken asciiOracles (e.1.toList.map asciiUpper)) == (if e.2.2 then "IDENT_P" else e.2.1))

theorem keywords_link : Gen.keywords.all keywordRowOK = true := by decide +kernel

/-- the model knows no keyword besides the rows: 33 rows, 33 keyword tokens -/
theorem keywords_complete :
    (Gen.keywords.map (fun e => e.2.1)).eraseDups.length = 33 ∧ Gen.keywords.length = 33 := by decide +kernel

def binOfName : String → Option BinOp
  | "BinaryAnd" => some .and | "BinaryOr" => some .or | "BinaryEqual" => some .eq
  | "BinaryNotEqual" => some .ne | "BinaryLess" => some .lt | "BinaryGreater" => some .gt
  | "BinaryLessOrEqual" => some .le | "BinaryGreaterOrEqual" => some .ge
  | "BinaryStartsWith" => some .startsWith | "BinaryAdd" => some .add | "BinarySub" => some .sub
  | "BinaryMul" => some .mul | "BinaryDiv" => some .div | "BinaryMod" => some .mod
  | "BinarySubscript" => some .subscript | "BinaryDecimal" => some .decimal | _ => none

def unOfName : String → Option UnOp
  | "UnaryExists" => some .exists | "UnaryNot" => some .not | "UnaryIsUnknown" => some .isUnknown
  | "UnaryPlus" => some .plus | "UnaryMinus" => some .minus | "UnaryFilter" => some .filter
  | "UnaryDateTime" => some .datetime | "UnaryDate" => some .date | "UnaryTime" => some .time
  | "UnaryTimeTZ" => some .timeTZ | "UnaryTimestamp" => some .timestamp
  | "UnaryTimestampTZ" => some .timestampTZ | _ => none

def methodOfName : String → Option Method
  | "MethodAbs" => some .abs | "MethodSize" => some .size | "MethodType" => some .type
  | "MethodFloor" => some .floor | "MethodCeiling" => some .ceiling | "MethodDouble" => some .double
  | "MethodKeyValue" => some .keyvalue | "MethodBigInt" => some .bigint
  | "MethodBoolean" => some .boolean | "MethodInteger" => some .integer
  | "MethodNumber" => some .number | "MethodString" => some .string | _ => none

def constOfName : String → Option Const
  | "ConstRoot" => some .root | "ConstCurrent" => some .current | "ConstLast" => some .last
  | "ConstAnyArray" => some .anyArray | "ConstAnyKey" => some .anyKey | "ConstTrue" => some .true_
  | "ConstFalse" => some .false_ | "ConstNull" => some .null | _ => none

def allBin : List BinOp := [.and, .or, .eq, .ne, .lt, .gt, .le, .ge, .startsWith, .add, .sub, .mul, .div, .mod, .subscript, .decimal]
def allUn : List UnOp := [.exists, .not, .isUnknown, .plus, .minus, .filter, .datetime, .date, .time, .timeTZ, .timestamp, .timestampTZ]
def allMethod : List Method := [.abs, .size, .type, .floor, .ceiling, .double, .keyvalue, .bigint, .boolean, .integer, .number, .string]
def allConst : List Const := [.root, .current, .last, .anyArray, .anyKey, .true_, .false_, .null]

def prioVal : String → Nat
  | "0" => 0 | "1" => 1 | "2" => 2 | "3" => 3 | "4" => 4 | "5" => 5 | "6" => 6
  | "lowestPriority" => 6 | _ => 1000

def priorityRowOK (e : String × String × String) : Bool :=
  if e.2.1 == "default" then true
  else if e.1 == "BinaryOperator" then
    match binOfName e.2.1 with | some op => Print.binPriority op == prioVal e.2.2 | none => false
  else if e.1 == "UnaryOperator" then
    match unOfName e.2.1 with | some op => Print.unPriority op == prioVal e.2.2 | none => false
  else false

/-- the operators with a row of their own -/
def rowNames (ty : String) : List String :=
  (Gen.priorities.filter (fun e => e.1 == ty && e.2.1 != "default")).map (fun e => e.2.1)

theorem priorities_link :
    Gen.priorities.all priorityRowOK = true ∧
    (allBin.all fun op => (rowNames "BinaryOperator").any (fun n => binOfName n == some op) || Print.binPriority op == 6) = true ∧
    (allUn.all fun op => (rowNames "UnaryOperator").any (fun n => unOfName n == some op) || Print.unPriority op == 6) = true ∧
    (Gen.priorities.filter (fun e => e.2.1 == "default")).all (fun e => e.2.2 == "lowestPriority") = true := by
  decide +kernel

def enumRowOK (e : String × String × Nat × String) : Bool :=
  if e.1 == "Constant" then
    match constOfName e.2.1 with | some c => allConst[e.2.2.1]? == some c && Print.constStr c == e.2.2.2.toList | none => false
  else if e.1 == "BinaryOperator" then
    match binOfName e.2.1 with | some c => allBin[e.2.2.1]? == some c && Print.binStr c == e.2.2.2.toList | none => false
  else if e.1 == "UnaryOperator" then
    match unOfName e.2.1 with | some c => allUn[e.2.2.1]? == some c && Print.unStr c == e.2.2.2.toList | none => false
  else if e.1 == "MethodName" then
    match methodOfName e.2.1 with | some c => allMethod[e.2.2.1]? == some c && Print.methodStr c == e.2.2.2.toList | none => false
  else if e.1 == "regexFlag" then
    -- bit i of the flag set is written as this letter by `flagsStr`
    Print.flagsStr (2 ^ e.2.2.1) == " flag \"".toList ++ e.2.2.2.toList ++ ['"']
  else false

theorem enums_link :
    Gen.enums.all enumRowOK = true ∧
    (Gen.enums.filter (fun e => e.1 == "Constant")).length = allConst.length ∧
    (Gen.enums.filter (fun e => e.1 == "BinaryOperator")).length = allBin.length ∧
    (Gen.enums.filter (fun e => e.1 == "UnaryOperator")).length = allUn.length ∧
    (Gen.enums.filter (fun e => e.1 == "MethodName")).length = allMethod.length ∧
    (Gen.enums.filter (fun e => e.1 == "regexFlag")).length = 5 := by
  decide +kernel

end GenLinks
end Sqljson
