import Sqljson.Lemmas.RoundTrip
/-!
# C02b — whole-tree round trip `Parse(p.String()) = p` on a syntactic class of paths

`Props/C02` has the token-level read-back theorems and the counterexamples D3 / D5 which show that
the round trip is false in general.  This file proves it for a decidable class of trees, built up
in stages (`Lemmas/RoundTrip` holds the proofs).

`Print.toString isPrint a : Option (List Char)` is the model of `(*AST).String()` (runes),
`Parse.parse o : List UInt8 → ParseOutcome` the model of `parser.Parse` (bytes).  The two are
connected by `RoundTrip.utf8 : List Char → List UInt8` (UTF-8 encoding of a Go string) with
`decodeAll_utf8 : decodeAll (utf8 l) = l.map Src.ch`; the core theorems (`roundtrip_…'` in
`Lemmas/RoundTrip`) are stated for *every* byte string that the lexer decodes to the printed runes.

## Hypotheses on the oracles (`RoundTrip.OrOK o`)

* `o.isPrint '\n' = false`, `o.isPrint c = true` for `a`…`z`  (`strconv.IsPrint`),
* `o.xidStart c = false` and `o.xidContinue c = false` for blank and the ASCII punctuation
  `` !"$%&()*+,-./<=>?@[]{|}`` (`RoundTrip.punct`),
* `o.xidStart c = false` for the decimal digits,
* `o.xidStart c = true`, `o.xidContinue c = true`, `o.toLower c = c` for `a`…`z`, `o.toLower '_' = '_'`.

All hold for `xid.Start`, `xid.Continue`, `unicode.ToLower`, `strconv.IsPrint`; `asciiOracles_ok`
shows them for the ASCII instance used in the concrete evaluations.  `like_regex` needs in addition
that the pattern compiles: `o.regexAccepts pat flags = true` is part of the classes `RT3` … `RT5`.

## The classes (each is a `Bool`-valued function, `RT1 ⊆ RT2 ⊆ RT3 ⊆ RT4 ⊆ RT5`)

* `RT1` (stage 1) — mode `lax` or `strict`; root `$` followed by any number of accessors from:
  `.key` for **every key text without NUL** (the printer always quotes keys, so keys spelled like
  keywords — `."null"`, `."last"`, `."to"` — are in the class), `.*`, `[*]`, `.**`, `.**{n}`,
  `.**{a to b}` with each bound below 2³¹ or `last` (exactly the bounds the parser can produce:
  `lvlOK`), the twelve item methods without arguments, `.date()`, `.datetime()`,
  `.datetime("template")`, and subscripts `[s₁,…,sₙ]` (n ≥ 1) whose elements are `i` or `i to j`
  with `i`, `j` an integer literal in `0 … 2⁶³-1` or `last`.
* `RT2` (stage 2) — stage 1 plus filters `?(pred)`, where `pred` is built from comparisons
  `== != < <= > >=` between operands, `&&`, `||`, `!(…)`, `exists (…)`, `(…) is unknown`,
  `… starts with "…"`, nested in any way; an operand is `$`, `@`, a string literal (every content
  without NUL), `null`, `true`, `false` — each followed by any chain of accessors of the class,
  filters included — or an integer literal in `0 … 2⁶³-1` (without accessors: see D3).
* `RT3 o` (stage 3) — in addition: variables `$"name"` as operands (every name without NUL) and
  after `starts with`; `like_regex "pat" [flag "…"]` for flag masks the parser can produce
  (`okFlags`: five bits, `x` only together with `q`) and patterns with `o.regexAccepts pat flags`;
  a predicate at the top level (`pred = true`, printed in parentheses when it is a binary node), or
  any operand with its accessors at the top level (`"a".size()`, `$"v"[0]`).
* `RT4 o` (stage 4) — in addition: arithmetic.  Operands of comparisons / `starts with` /
  `like_regex` / `exists` and the top-level expression may be built with `+ - * / %`, unary `+ -`
  applied to anything that is not a number literal, and negative integer literals
  `-(2⁶³-1) … -1`, nested in any way.
* `RT5 o` (stage 5, the largest class) — in addition: subscripts whose bounds are arbitrary
  expressions of the class (`[last - 1]`, `[$."n" to last]`, `[@."i" * 2, 0]`; `last` may stand
  wherever an operand may, `validate` confines it to subscripts), the methods `.time()`,
  `.time_tz()`, `.timestamp()`, `.timestamp_tz()` without or with a precision `0 … 2⁶³-1`, and
  `.decimal()`, `.decimal(p)`, `.decimal(p,s)` with signed integer literals `-(2⁶³-1) … 2⁶³-1`;
  an integer literal of either sign followed by accessors (`(1).abs()`, `(-2)."k"`: the printer
  parenthesises the literal, unlike the D3 shapes).

Every class also demands `validate a.root` (what `ast.New` checks: `@` only inside filters, `last`
only inside subscripts) — a tree that fails it is not accepted by `Parse` in the first place.

## Theorems

* `roundtrip_accessors`, `roundtrip_filters`, `roundtrip_stage3`, `roundtrip_stage4`, `roundtrip_stage5`:
  `RTi a → ∃ txt, toString a = some txt ∧ parse o (utf8 txt) = .ok a`;
* `roundtrip_of_accepted`: the same for a path `Parse` accepted (its validity then comes from
  `parse_ok_wf`), assuming only that the shape of the tree is in the class;
* `fixed_point`: `String` is a fixed point — printing the re-parsed tree gives the same text;
* `mode_pred_preserved`: mode, predicate flag and tree of the re-parsed path;
* `stage1_in_stage2`, `stage2_in_stage3`, `stage3_in_stage4`, `stage4_in_stage5`, `in_stage5`.

The heart of stages 2 and 4 is that the parentheses the printer derives from `priority` are
sufficient for the parser's precedence climbing:

* predicates — `RoundTrip.predOK_logic` with `and_left`, `and_right`, `or_left`, `paren_atom`: an
  operand of `&&`/`||` whose priority is not above the operator's is parenthesised, so at every
  level the token stream is `atom`, `atom && atom`, or `X || Y` with `X`, `Y` of the first two
  shapes, which is exactly what `predLoop` / `orLoop` rebuild;
* arithmetic — `RoundTrip.exprOK_add`, `exprOK_mul`, `exprOK_sign` with `espec_add`, `espec_mul`,
  `paren_opdSpec`: the stream is `unit`, `unit * unit`, or `T + T'` with `T`, `T'` of the first two
  shapes, rebuilt by `arithLoop` / `mulLoop`; a unit is an operand, a signed unit or a parenthesised
  expression.

## Excluded, with the reason

* numeric (non-integer) literals: D5 (`Props/C02`);
* accessors on a parenthesised expression or on a predicate: D3 (accessors on an integer literal are
  in `RT5`);
* a sign applied to a number literal (`unary minus (integer 1)`): the parser folds it into the
  literal (`ast.NewUnaryOrNumber`), so no accepted path has this shape and its text `(-1)` reads back
  as the literal `-1` — `sign_on_literal_is_folded` below; the literal `-2⁶³` (its text is rejected:
  the magnitude is read first) likewise never comes out of `Parse`;
* `.decimal(…)` with a scale but no precision (`.decimal(,2)`: the printer would write it, the
  parser cannot produce it), negative precisions of the `.time(…)` family: not accepted paths.
-/

namespace Sqljson
namespace C02b
open Parse Lex ParseLemmas RoundTrip

/-! ## The oracle hypotheses hold for the ASCII instance -/

theorem asciiOracles_ok : OrOK asciiOracles where
  nl := by decide
  punctS := by decide
  punctC := by decide
  digitS := by
    intro c hc
    simp only [isDecimal, Bool.and_eq_true, decide_eq_true_eq] at hc
    have h1 : 48 ≤ c.toNat := hc.1
    have h2 : c.toNat ≤ 57 := hc.2
    simp only [asciiOracles, Bool.or_eq_false_iff, Bool.and_eq_false_iff, decide_eq_false_iff_not]
    constructor
    · left
      intro h
      have h3 : 97 ≤ c.toNat := h
      omega
    · left
      intro h
      have h3 : 65 ≤ c.toNat := h
      omega
  lowS := by
    intro c hc
    simp only [isLow] at hc
    simp [asciiOracles, hc]
  lowC := by
    intro c hc
    simp only [isLow] at hc
    simp [asciiOracles, hc]
  lowL := by
    intro c hc
    rcases hc with hc | hc
    · simp only [isLow, Bool.and_eq_true, decide_eq_true_eq] at hc
      have h1 : 97 ≤ c.toNat := hc.1
      have : ¬ (c ≤ 'Z') := by
        intro h
        have h3 : c.toNat ≤ 90 := h
        omega
      simp [asciiOracles, this]
    · subst hc; decide
  lowP := by
    intro c hc
    simp only [isLow, Bool.and_eq_true, decide_eq_true_eq] at hc
    have h1 : 97 ≤ c.toNat := hc.1
    have h2 : c.toNat ≤ 122 := hc.2
    simp only [asciiOracles, Bool.and_eq_true, decide_eq_true_eq]
    omega

/-! ## The staged theorems -/

/-- stage 1 is contained in stage 2 -/
theorem stage1_in_stage2 (a : AST) (h : RT1 a = true) : RT2 a = true := RT1_RT2 a h
/-- stage 2 is contained in stage 3 -/
theorem stage2_in_stage3 (o : Oracles) (a : AST) (h : RT2 a = true) : RT3 o a = true := RT2_RT3 o a h
/-- stage 3 is contained in stage 4 -/
theorem stage3_in_stage4 (o : Oracles) (a : AST) (h : RT3 o a = true) : RT4 o a = true := RT3_RT4 o a h
/-- stage 4 is contained in stage 5 -/
theorem stage4_in_stage5 (o : Oracles) (a : AST) (h : RT4 o a = true) : RT5 o a = true := RT4_RT5 o a h

/-- every stage is contained in the last one -/
theorem in_stage5 (o : Oracles) (a : AST)
    (h : RT1 a = true ∨ RT2 a = true ∨ RT3 o a = true ∨ RT4 o a = true ∨ RT5 o a = true) : RT5 o a = true := by
  rcases h with h | h | h | h | h
  · exact RT4_RT5 o a (RT3_RT4 o a (RT2_RT3 o a (RT1_RT2 a h)))
  · exact RT4_RT5 o a (RT3_RT4 o a (RT2_RT3 o a h))
  · exact RT4_RT5 o a (RT3_RT4 o a h)
  · exact RT4_RT5 o a h
  · exact h

section
variable (o : Oracles) (ok : OrOK o)
include ok

/-- **Stage 1**: accessor paths round-trip. -/
theorem roundtrip_accessors (a : AST) (h : RT1 a = true) :
    ∃ txt, Print.toString o.isPrint a = some txt ∧ parse o (utf8 txt) = .ok a := by
  obtain ⟨txt, h1, h2⟩ := roundtrip_accessors' ok a h
  exact ⟨txt, h1, h2 _ (decodeAll_utf8 txt)⟩

/-- **Stage 2**: accessor paths with filters round-trip; the printer's parentheses suffice. -/
theorem roundtrip_filters (a : AST) (h : RT2 a = true) :
    ∃ txt, Print.toString o.isPrint a = some txt ∧ parse o (utf8 txt) = .ok a := by
  obtain ⟨txt, h1, h2⟩ := roundtrip_filters' ok a h
  exact ⟨txt, h1, h2 _ (decodeAll_utf8 txt)⟩

/-- **Stage 3**: variables, `like_regex`, any operand or a predicate at the top level. -/
theorem roundtrip_stage3 (a : AST) (h : RT3 o a = true) :
    ∃ txt, Print.toString o.isPrint a = some txt ∧ parse o (utf8 txt) = .ok a := by
  obtain ⟨txt, h1, h2⟩ := roundtrip_stage3' ok a h
  exact ⟨txt, h1, h2 _ (decodeAll_utf8 txt)⟩

/-- **Stage 4**: arithmetic. -/
theorem roundtrip_stage4 (a : AST) (h : RT4 o a = true) :
    ∃ txt, Print.toString o.isPrint a = some txt ∧ parse o (utf8 txt) = .ok a := by
  obtain ⟨txt, h1, h2⟩ := roundtrip_stage4' ok a h
  exact ⟨txt, h1, h2 _ (decodeAll_utf8 txt)⟩

/-- **Stage 5**: expressions as subscripts, `.time()` family, `.decimal()`. -/
theorem roundtrip_stage5 (a : AST) (h : RT5 o a = true) :
    ∃ txt, Print.toString o.isPrint a = some txt ∧ parse o (utf8 txt) = .ok a := by
  obtain ⟨txt, h1, h2⟩ := roundtrip_stage5' ok a h
  exact ⟨txt, h1, h2 _ (decodeAll_utf8 txt)⟩

/-- the same for a path that `Parse` accepted (whose validity `Parse` has checked): only the shape of
    the tree has to be in the class -/
theorem roundtrip_of_accepted (bytes0 : List UInt8) (a : AST) (h0 : parse o bytes0 = .ok a)
    (hshape : (if a.pred then okPred5 o a.root else okExpr5 o a.root) = true) :
    ∃ txt, Print.toString o.isPrint a = some txt ∧ parse o (utf8 txt) = .ok a := by
  have hv : validate a.root = true := parse_ok_wf o bytes0 a h0
  exact roundtrip_stage5 o ok a (by simp only [RT5, hv, hshape, Bool.and_self])

/-- `String` is a fixed point: `Parse(p.String()).String() = p.String()` on the class. -/
theorem fixed_point (a : AST) (h : RT5 o a = true) :
    ∃ txt b, Print.toString o.isPrint a = some txt ∧ parse o (utf8 txt) = .ok b ∧
      Print.toString o.isPrint b = some txt := by
  obtain ⟨txt, h1, h2⟩ := roundtrip_stage5 o ok a h
  exact ⟨txt, a, h1, h2, h1⟩

/-- the mode, the predicate flag and the tree are preserved -/
theorem mode_pred_preserved (a : AST) (h : RT5 o a = true) (txt : List Char) (b : AST)
    (h1 : Print.toString o.isPrint a = some txt) (h2 : parse o (utf8 txt) = .ok b) :
    b.lax = a.lax ∧ b.pred = a.pred ∧ b.root = a.root := by
  obtain ⟨txt', h1', h2'⟩ := roundtrip_stage5 o ok a h
  rw [h1] at h1'
  injection h1' with e
  subst e
  rw [h2] at h2'
  injection h2' with e
  subst e
  exact ⟨rfl, rfl, rfl⟩

end

/-! ## Concrete members of the classes (non-vacuity) -/

/-- `strict $."a b".**{1 to last}[0,2 to last].size()` -/
def ex1 : AST :=
  ⟨.const .root (some (.key "a b".toList (some (.any 1 maxU32 (some (.arrayIndex
      [.binary .subscript (some (.integer 0 none)) none none,
       .binary .subscript (some (.integer 2 none)) (some (.const .last none)) none]
      (some (.method .size none)))))))),
   false, false⟩

example : RT1 ex1 = true := by decide

example : Print.toString asciiOracles.isPrint ex1
    = some "strict $.\"a b\".**{1 to last}[0,2 to last].size()".toList := by decide +kernel

/-- keys spelled like keywords are quoted by the printer and round-trip: `$."null"."last"."to"` -/
def exKw : AST :=
  ⟨.const .root (some (.key "null".toList (some (.key "last".toList (some (.key "to".toList none)))))), true, false⟩

example : RT1 exKw = true := by decide
example : Print.toString asciiOracles.isPrint exKw = some "$.\"null\".\"last\".\"to\"".toList := by decide +kernel

/-- the theorem instantiated: a concrete `parse … = .ok …` obtained from it -/
example : parse asciiOracles (utf8 "$.\"null\".\"last\".\"to\"".toList) = .ok exKw := by
  obtain ⟨txt, h1, h2⟩ := roundtrip_accessors asciiOracles asciiOracles_ok exKw (by decide)
  have : txt = "$.\"null\".\"last\".\"to\"".toList := by
    have e : Print.toString asciiOracles.isPrint exKw = some "$.\"null\".\"last\".\"to\"".toList := by decide +kernel
    rw [e] at h1
    injection h1 with h1
    exact h1.symm
  rw [← this]; exact h2

/-- `strict $."a b".**{1 to last}[0,2 to last]?(@."x" == "q\"\n" && !(exists (@."y")))` -/
def ex2 : AST :=
  let atKey (k : String) : Node := .const .current (some (.key k.toList none))
  let pred : Node :=
    .binary .and
      (some (.binary .eq (some (atKey "x")) (some (.str "q\"\n".toList none)) none))
      (some (.unary .not (some (.unary .exists (some (atKey "y")) none)) none))
      none
  let subs : List Node :=
    [.binary .subscript (some (.integer 0 none)) none none,
     .binary .subscript (some (.integer 2 none)) (some (.const .last none)) none]
  ⟨.const .root (some (.key "a b".toList (some (.any 1 maxU32 (some (.arrayIndex subs
      (some (.unary .filter (some pred) none)))))))),
   false, false⟩

example : RT2 ex2 = true := by decide

example : Print.toString asciiOracles.isPrint ex2
    = some "strict $.\"a b\".**{1 to last}[0,2 to last]?(@.\"x\" == \"q\\\"\\n\" && !(exists (@.\"y\")))".toList := by
  decide +kernel

/-- nesting that needs the printer's parentheses:
    `$?((@ == 1 || @ == 2) && (@ == 3 && @ == 4 || (@ starts with "a") is unknown))` -/
def ex3 : AST :=
  let c (n : Int) : Node := .binary .eq (some (.const .current none)) (some (.integer n none)) none
  ⟨.const .root (some (.unary .filter (some
      (.binary .and
        (some (.binary .or (some (c 1)) (some (c 2)) none))
        (some (.binary .or
          (some (.binary .and (some (c 3)) (some (c 4)) none))
          (some (.unary .isUnknown (some (.binary .startsWith (some (.const .current none))
              (some (.str "a".toList none)) none)) none))
          none))
        none)) none)),
   true, false⟩

example : RT2 ex3 = true := by decide

example : Print.toString asciiOracles.isPrint ex3
    = some "$?((@ == 1 || @ == 2) && (@ == 3 && @ == 4 || (@ starts with \"a\") is unknown))".toList := by
  decide +kernel

/-- a predicate at the top level with a variable and a regular expression:
    `strict ($"v"."k" like_regex "^a" flag "iq" || !($ starts with $"p"))` -/
def ex4 : AST :=
  ⟨.binary .or
      (some (.regex (.var "v".toList (some (.key "k".toList none))) "^a".toList 17 none))
      (some (.unary .not (some (.binary .startsWith (some (.const .root none)) (some (.var "p".toList none)) none)) none))
      none,
   false, true⟩

example : RT3 asciiOracles ex4 = true := by decide

example : Print.toString asciiOracles.isPrint ex4
    = some "strict ($\"v\".\"k\" like_regex \"^a\" flag \"iq\" || !($ starts with $\"p\"))".toList := by
  decide +kernel

/-- arithmetic with every precedence level:
    `$?(-(@."a" + 2) * 3 - -4 % (5 - 6) == +$"v" / (@ * (7 + 8)))` -/
def ex5 : AST :=
  let i (n : Int) : Node := .integer n none
  let bin (op : BinOp) (l r : Node) : Node := .binary op (some l) (some r) none
  let at_ : Node := .const .current none
  let lhs : Node :=
    bin .sub
      (bin .mul (.unary .minus (some (bin .add (.const .current (some (.key "a".toList none))) (i 2))) none) (i 3))
      (bin .mod (i (-4)) (bin .sub (i 5) (i 6)))
  let rhs : Node :=
    bin .div (.unary .plus (some (.var "v".toList none)) none) (bin .mul at_ (bin .add (i 7) (i 8)))
  ⟨.const .root (some (.unary .filter (some (bin .eq lhs rhs)) none)), true, false⟩

example : RT4 asciiOracles ex5 = true := by decide

example : Print.toString asciiOracles.isPrint ex5
    = some "$?(-(@.\"a\" + 2) * 3 - -4 % (5 - 6) == +$\"v\" / (@ * (7 + 8)))".toList := by
  decide +kernel

/-- independent check of the same example by evaluating the model of `Parse` -/
example : (match parse asciiOracles (utf8 "$?(-(@.\"a\" + 2) * 3 - -4 % (5 - 6) == +$\"v\" / (@ * (7 + 8)))".toList) with
    | .ok b => Print.toString asciiOracles.isPrint b
    | _ => none)
    = some "$?(-(@.\"a\" + 2) * 3 - -4 % (5 - 6) == +$\"v\" / (@ * (7 + 8)))".toList := by
  decide +kernel

/-- an expression at the top level is printed in parentheses: `strict (1 + 2 * 3)` -/
def ex6 : AST :=
  ⟨.binary .add (some (.integer 1 none)) (some (.binary .mul (some (.integer 2 none)) (some (.integer 3 none)) none)) none,
   false, false⟩

example : RT4 asciiOracles ex6 = true := by decide
example : Print.toString asciiOracles.isPrint ex6 = some "strict (1 + 2 * 3)".toList := by decide +kernel

/-- subscripts with expressions, `last` arithmetic, `.time(p)`, `.decimal(p,s)`:
    `$[last - 1,@."i" * 2 to last].timestamp_tz(3).decimal(10,-2)` inside a filter so that `@` is valid -/
def ex7 : AST :=
  let i (n : Int) : Node := .integer n none
  let bin (op : BinOp) (l r : Node) : Node := .binary op (some l) (some r) none
  let subs : List Node :=
    [.binary .subscript (some (bin .sub (.const .last none) (i 1))) none none,
     .binary .subscript (some (bin .mul (.const .current (some (.key "i".toList none))) (i 2)))
       (some (.const .last none)) none]
  let chain : Node :=
    .arrayIndex subs (some (.unary .timestampTZ (some (i 3))
      (some (.binary .decimal (some (i 10)) (some (i (-2))) none))))
  ⟨.const .root (some (.unary .filter (some
      (.unary .exists (some (.const .root (some chain))) none)) none)), true, false⟩

example : RT5 asciiOracles ex7 = true := by decide

example : Print.toString asciiOracles.isPrint ex7
    = some "$?(exists ($[last - 1,@.\"i\" * 2 to last].timestamp_tz(3).decimal(10,-2)))".toList := by
  decide +kernel

/-- a literal with accessors: `strict (-2).abs() + (1).type()` is printed with the parentheses it needs -/
def ex8 : AST :=
  ⟨.binary .add (some (.integer (-2) (some (.method .abs none)))) (some (.integer 1 (some (.method .type none)))) none,
   false, false⟩

example : RT5 asciiOracles ex8 = true := by decide
example : Print.toString asciiOracles.isPrint ex8 = some "strict ((-2).abs() + (1).type())".toList := by
  decide +kernel

/-! ## Outside the classes -/

/-- an integer literal with an accessor is not an operand of stages 2–4, it is one of stage 5 -/
example : okOpd (.integer 1 (some (.method .abs none))) = false ∧
    okExpr5 asciiOracles (.integer 1 (some (.method .abs none))) = true := by decide

/-- D3: a binary node with an accessor is in no class -/
example : okExpr5 asciiOracles
    (.binary .mul (some (.integer 2 none)) (some (.integer 3 none)) (some (.method .abs none))) = false := by decide

/-- a sign on a number literal is not in the class … -/
example : okExpr4 asciiOracles (.unary .minus (some (.integer 1 none)) none) = false := by decide

/-- … because the parser folds it into the literal: the tree `unary minus (integer 1)` prints as
    `(-1)` at the top level, which reads back as the literal `-1` (no accepted path has the first
    shape) -/
theorem sign_on_literal_is_folded :
    Print.toString asciiOracles.isPrint ⟨.unary .minus (some (.integer 1 none)) none, true, false⟩
      = some "(-1)".toList ∧
    rootIs (fun n => match n with | .integer (-1) none => true | _ => false)
      (parse asciiOracles (ascii "(-1)")) = true := by
  decide +kernel

end C02b
end Sqljson
