import Sqljson.Lemmas.Rounding
import Sqljson.Props.C13
/-!
# C13 (third part) — "…otherwise it is the IEEE-754 double result": the model's `+ − * / %` ARE correctly rounded

Property C13 says that an arithmetic result which is not an exact int64 "is the IEEE-754 double result".  `Props/C13.lean`
shows that the executor returns `F64.add/sub/mul/div/fmod` of the operands; what those functions compute was so far only
their definition.  Here each of them is tied to the specification of `Lemmas/Rounding.lean`, which does not mention how
anything is computed:

* `num x / den x` is the exact value of a finite double as a fraction of integers;
* `Rounds n d x` — `x` is the IEEE-754 round-to-nearest-even of the rational `n/d`: `x = ±Inf` exactly when
  `|n/d| ≥ 2^1024 − 2^970` (MaxFloat64 plus half a unit in the last place), otherwise `x` is a finite well-formed double,
  no finite double is nearer to `n/d`, on a tie the mantissa of `x` is even (`Nearest`), and `x` has the sign of `n`.
  The relation determines `x` (`Rounding.rounds_functional`, `rounds_iff_ofQ`) and depends only on the rational
  (`rounds_congr`).

## Theorems (all finite operands — well-formedness of the operands is not even needed, except for `%`)

* `add_correctly_rounded`   `Rounds (val a + val b) (a + b)`         — the sum as the fraction `(na·db + nb·da)/(da·db)`
* `sub_correctly_rounded`   `Rounds (val a − val b) (a − b)`
* `mul_correctly_rounded`   `Rounds (val a · val b) (a * b)`
* `div_correctly_rounded`   `Rounds (val a / val b) (a / b)` for `b ≠ 0`; `quot_is_quotient` says that `quotNum/quotDen`
                            is that quotient (cross-multiplied)
* `mod_exact`               `a % b` (`math.Mod`) is the exact remainder with the sign of `a`: no rounding at all
* signed zeros, stated explicitly: `mul_zero_sign`, `div_zero_sign` (xor of the signs), `add_zeros`
  (`+0 + −0 = +0`, `−0 + −0 = −0`), `add_cancel_sign` (`x + (−x) = +0`), and a result that underflows to zero keeps the
  sign of the exact result (part of `Rounds`)
* when the result is infinite: `Rounding.rounds_inf_iff` — exactly from the threshold on (then the executor turns it
  into the suppressible error, `C13.finite_or_error`); `div_by_zero` for completeness
* `mathOp_add/sub/mul/div/mod`  the same through `execMathOp`; `mathOp_int_float`: an int64 next to a double is converted
  first (`float64(i)`, correctly rounded: `Rounding.ofInt_rounds`) — two roundings, exactly like Go
* **two integers** (`executeInt64Math`): `no_silent_wrap_binary` — for all int64 `l r` and `op ∈ {+ − * / %}` the result is
  the exact integer (`exactZ`) exactly when that lies in the int64 range, otherwise the *finite* double that is the
  correctly rounded operation (`FloatOp`) on `float64(l)`, `float64(r)` — never a wrapped integer; `%` is always exact,
  `/` leaves the range only for `MinInt64 / -1` (`tdiv_overflow_only`); `ofInt_int64_bound`, `sum_below_threshold`,
  `prod_below_threshold`, `int_int_result_finite`: the double fallback of two int64 values can never be ±Inf or NaN
* `Examples`: 0.1 + 0.2 (a tie broken to even!), 2^53 + 1, 5e-324 / 2, the overflow threshold, signed zeros, 1/3.

Not covered: operands that are already `±Inf`/`NaN` (they cannot be items: C05b/`finite_or_error`), `F64.floor/ceil/round`
(integer-valued, exact by construction; not part of C13's arithmetic).
-/

namespace Sqljson
namespace C13c
open Num Exec Rounding

/-! ### the four operations on finite operands are `ofQ` of the exact rational result -/

theorem mul_eq (na : Bool) (ma : Nat) (ea : Int) (nb : Bool) (mb : Nat) (eb : Int) :
    F64.mul (.fin na ma ea) (.fin nb mb eb) =
      F64.ofQ (num (.fin na ma ea) * num (.fin nb mb eb)) (den (.fin na ma ea) * den (.fin nb mb eb)) (na != nb) := by
  simp only [F64.mul, toQ_eq]

theorem add_eq (na : Bool) (ma : Nat) (ea : Int) (nb : Bool) (mb : Nat) (eb : Int) :
    F64.add (.fin na ma ea) (.fin nb mb eb) =
      if ma = 0 ∧ mb = 0 then .fin (na && nb) 0 F64.minExp
      else F64.ofQ (num (.fin na ma ea) * (den (.fin nb mb eb) : Int) + num (.fin nb mb eb) * (den (.fin na ma ea) : Int))
        (den (.fin na ma ea) * den (.fin nb mb eb)) := by
  simp only [F64.add, toQ_eq]

theorem div_eq (na : Bool) (ma : Nat) (ea : Int) (nb : Bool) (mb : Nat) (eb : Int) (hb : mb ≠ 0) :
    F64.div (.fin na ma ea) (.fin nb mb eb) =
      F64.ofQ (if (den (.fin na ma ea) : Int) * num (.fin nb mb eb) < 0
                then -(num (.fin na ma ea) * (den (.fin nb mb eb) : Int))
                else num (.fin na ma ea) * (den (.fin nb mb eb) : Int))
        ((den (.fin na ma ea) : Int) * num (.fin nb mb eb)).natAbs (na != nb) := by
  simp only [F64.div, toQ_eq, if_neg hb]

theorem den_mul_pos (a b : F64) : 0 < den a * den b := Nat.mul_pos (den_pos a) (den_pos b)

/-! ### multiplication -/

/-- **`x * y` is the exact product, correctly rounded** (nearest, ties to even; ±Inf from `2^1024 − 2^970` on) -/
theorem mul_correctly_rounded (a b : F64) (ha : a.isFinite = true) (hb : b.isFinite = true) :
    Rounds (num a * num b) (den a * den b) (F64.mul a b) := by
  cases a with
  | nan => cases ha
  | inf _ => cases ha
  | fin na ma ea =>
    cases b with
    | nan => cases hb
    | inf _ => cases hb
    | fin nb mb eb =>
      rw [mul_eq]
      exact ofQ_rounds _ (den_mul_pos _ _) _

/-- a zero factor: the product is a zero whose sign is the exclusive or of the signs -/
theorem mul_zero_sign (na : Bool) (ma : Nat) (ea : Int) (nb : Bool) (mb : Nat) (eb : Int) (h : ma = 0 ∨ mb = 0) :
    F64.mul (.fin na ma ea) (.fin nb mb eb) = .fin (na != nb) 0 F64.minExp := by
  rw [mul_eq]
  have : num (.fin na ma ea) * num (.fin nb mb eb) = 0 := by
    rcases h with h | h
    · subst h; rw [num_zero, Int.zero_mul]
    · subst h; rw [num_zero, Int.mul_zero]
  rw [this, ofQ_zero]

/-! ### addition and subtraction -/

/-- **`x + y` is the exact sum, correctly rounded** -/
theorem add_correctly_rounded (a b : F64) (ha : a.isFinite = true) (hb : b.isFinite = true) :
    Rounds (num a * (den b : Int) + num b * (den a : Int)) (den a * den b) (F64.add a b) := by
  cases a with
  | nan => cases ha
  | inf _ => cases ha
  | fin na ma ea =>
    cases b with
    | nan => cases hb
    | inf _ => cases hb
    | fin nb mb eb =>
      rw [add_eq]
      by_cases h0 : ma = 0 ∧ mb = 0
      · rw [if_pos h0]
        obtain ⟨rfl, rfl⟩ := h0
        rw [num_zero, num_zero, Int.zero_mul, Int.zero_mul, Int.add_zero]
        exact rounds_zero (den_mul_pos _ _) _
      · rw [if_neg h0]
        exact ofQ_rounds _ (den_mul_pos _ _) _

/-- both operands zero: `(+0) + (−0) = +0`, `(−0) + (−0) = −0` -/
theorem add_zeros (na nb : Bool) (ea eb : Int) :
    F64.add (.fin na 0 ea) (.fin nb 0 eb) = .fin (na && nb) 0 F64.minExp := by
  rw [add_eq, if_pos ⟨rfl, rfl⟩]

/-- an exact sum of zero from operands that are not both zero (`x + (−x)`) is `+0` -/
theorem add_cancel_sign (na : Bool) (ma : Nat) (ea : Int) (nb : Bool) (mb : Nat) (eb : Int)
    (hne : ¬ (ma = 0 ∧ mb = 0))
    (h : num (.fin na ma ea) * (den (.fin nb mb eb) : Int) + num (.fin nb mb eb) * (den (.fin na ma ea) : Int) = 0) :
    F64.add (.fin na ma ea) (.fin nb mb eb) = .fin false 0 F64.minExp := by
  rw [add_eq, if_neg hne, h, ofQ_zero]

/-- **`x − y` is the exact difference, correctly rounded** -/
theorem sub_correctly_rounded (a b : F64) (ha : a.isFinite = true) (hb : b.isFinite = true) :
    Rounds (num a * (den b : Int) - num b * (den a : Int)) (den a * den b) (F64.sub a b) := by
  have hnb : (F64.neg b).isFinite = true := by
    cases b with
    | nan => cases hb
    | inf _ => cases hb
    | fin _ _ _ => rfl
  have := add_correctly_rounded a (F64.neg b) ha hnb
  rw [num_neg, den_neg] at this
  have e : num a * (den b : Int) - num b * (den a : Int) = num a * (den b : Int) + -num b * (den a : Int) := by
    rw [Int.neg_mul, Int.sub_eq_add_neg]
  rw [e]
  exact this

/-! ### division -/

/-- numerator of the exact quotient `val a / val b` over the positive denominator `quotDen a b` -/
def quotNum (a b : F64) : Int :=
  if num b < 0 then -(num a * (den b : Int)) else num a * (den b : Int)

def quotDen (a b : F64) : Nat := den a * (num b).natAbs

/-- `quotNum a b / quotDen a b` is the quotient of the two values: cross-multiplied,
    `quotNum/quotDen = (num a / den a) / (num b / den b) = (num a * den b) / (den a * num b)` -/
theorem quot_is_quotient (a b : F64) :
    quotNum a b * ((den a : Int) * num b) = (num a * (den b : Int)) * (quotDen a b : Int) := by
  unfold quotNum quotDen
  by_cases h : num b < 0
  · rw [if_pos h]
    have : ((den a * (num b).natAbs : Nat) : Int) = (den a : Int) * (-(num b)) := by
      rw [Int.natCast_mul]; congr 1; omega
    rw [this]; grind
  · rw [if_neg h]
    have : ((den a * (num b).natAbs : Nat) : Int) = (den a : Int) * (num b) := by
      rw [Int.natCast_mul]; congr 1; omega
    rw [this]

theorem quotDen_pos (a : F64) {nb : Bool} {mb : Nat} {eb : Int} (hb : mb ≠ 0) : 0 < quotDen a (.fin nb mb eb) := by
  have := num_ne_zero (n := nb) (e := eb) hb
  exact Nat.mul_pos (den_pos a) (by omega)

/-- **`x / y` (finite, `y ≠ 0`) is the exact quotient, correctly rounded** -/
theorem div_correctly_rounded (a : F64) (ha : a.isFinite = true) (nb : Bool) (mb : Nat) (eb : Int) (hb : mb ≠ 0) :
    Rounds (quotNum a (.fin nb mb eb)) (quotDen a (.fin nb mb eb)) (F64.div a (.fin nb mb eb)) := by
  cases a with
  | nan => cases ha
  | inf _ => cases ha
  | fin na ma ea =>
    rw [div_eq _ _ _ _ _ _ hb]
    have hd := den_pos (.fin na ma ea)
    have hlt : ((den (.fin na ma ea) : Int) * num (.fin nb mb eb) < 0) ↔ num (.fin nb mb eb) < 0 := by
      constructor
      · intro h
        apply Classical.byContradiction
        intro hge
        have : 0 ≤ (den (.fin na ma ea) : Int) * num (.fin nb mb eb) := Int.mul_nonneg (by omega) (by omega)
        omega
      · intro h
        exact Int.mul_neg_of_pos_of_neg (by omega) h
    have hden : ((den (.fin na ma ea) : Int) * num (.fin nb mb eb)).natAbs = quotDen (.fin na ma ea) (.fin nb mb eb) := by
      unfold quotDen
      rw [Int.natAbs_mul, Int.natAbs_natCast]
    have hnum : (if (den (.fin na ma ea) : Int) * num (.fin nb mb eb) < 0
                then -(num (.fin na ma ea) * (den (.fin nb mb eb) : Int))
                else num (.fin na ma ea) * (den (.fin nb mb eb) : Int)) = quotNum (.fin na ma ea) (.fin nb mb eb) := by
      unfold quotNum
      by_cases h : num (.fin nb mb eb) < 0
      · rw [if_pos h, if_pos (hlt.mpr h)]
      · rw [if_neg h, if_neg (fun h' => h (hlt.mp h'))]
    rw [hden, hnum]
    exact ofQ_rounds _ (quotDen_pos _ hb) _

/-- zero divided by a non-zero finite value: a zero with the exclusive or of the signs -/
theorem div_zero_sign (na : Bool) (ea : Int) (nb : Bool) (mb : Nat) (eb : Int) (hb : mb ≠ 0) :
    F64.div (.fin na 0 ea) (.fin nb mb eb) = .fin (na != nb) 0 F64.minExp := by
  rw [div_eq _ _ _ _ _ _ hb, num_zero]
  simp only [Int.zero_mul, Int.neg_zero, ite_self]
  rw [ofQ_zero]

/-- division by a zero (either sign): ±Inf, or NaN for `0/0` — the executor never gets here (`div_zero_float`) -/
theorem div_by_zero (na : Bool) (ma : Nat) (ea : Int) (nb : Bool) (eb : Int) :
    F64.div (.fin na ma ea) (.fin nb 0 eb) = if ma = 0 then .nan else .inf (na != nb) := by
  simp [F64.div]

/-! ### remainder -/

/-- **`a % b` on doubles (`math.Mod`) is exact**: for finite well-formed `a`, `b ≠ 0` the result `x` is a finite
    well-formed double with the sign of `a`, and `|a| = k·|b| + |x|` with `|x| < |b|` for a natural `k` — as rationals,
    cross-multiplied; nothing is rounded -/
theorem mod_exact (na : Bool) (ma : Nat) (ea : Int) (nb : Bool) (mb : Nat) (eb : Int)
    (hwa : F64.WF (.fin na ma ea)) (hwb : F64.WF (.fin nb mb eb)) (hb : mb ≠ 0) :
    ∃ (k : Nat) (x : F64), F64.fmod (.fin na ma ea) (.fin nb mb eb) = x ∧ x.isFinite = true ∧ F64.WF x ∧
      x.signBit = na ∧
      (num (.fin na ma ea)).natAbs * den (.fin nb mb eb) * den x =
        k * ((num (.fin nb mb eb)).natAbs * den (.fin na ma ea) * den x) +
          (num x).natAbs * den (.fin na ma ea) * den (.fin nb mb eb) ∧
      (num x).natAbs * den (.fin nb mb eb) < (num (.fin nb mb eb)).natAbs * den x :=
  fmod_exact na ma ea nb mb eb hwa hwb hb

/-! ### through `execMathOp` (`Num.mathOp`) -/

theorem feq_zero_false (nb : Bool) (mb : Nat) (eb : Int) (hb : mb ≠ 0) :
    F64.feq (.fin nb mb eb) F64.zero = false := by
  have hne := num_ne_zero (n := nb) (e := eb) hb
  unfold F64.feq F64.cmp
  simp only [toQ_eq, F64.zero]
  rw [num_zero, Int.zero_mul]
  have hT : ((den (.fin false 0 F64.minExp) : Nat) : Int) ≠ 0 := by
    have := den_pos (.fin false 0 F64.minExp); omega
  have hl : num (.fin nb mb eb) * ((den (.fin false 0 F64.minExp) : Nat) : Int) ≠ 0 := Int.mul_ne_zero hne hT
  generalize num (.fin nb mb eb) * ((den (.fin false 0 F64.minExp) : Nat) : Int) = l at *
  by_cases h1 : l < 0
  · simp [h1]
  · have h2 : l > 0 := by omega
    simp [h1, h2]

/-- **C13, "…otherwise it is the IEEE-754 double result"**: on two finite doubles `execMathOp` returns the exact sum /
    difference / product, rounded to nearest-even (an infinite result is then turned into the error of
    `C13.finite_or_error`) -/
theorem mathOp_add (a b : F64) (ha : a.isFinite = true) (hb : b.isFinite = true) :
    ∃ x, mathOp (.flt a) (.flt b) .add = .ok (.flt x) ∧
      Rounds (num a * (den b : Int) + num b * (den a : Int)) (den a * den b) x :=
  ⟨_, rfl, add_correctly_rounded a b ha hb⟩

theorem mathOp_sub (a b : F64) (ha : a.isFinite = true) (hb : b.isFinite = true) :
    ∃ x, mathOp (.flt a) (.flt b) .sub = .ok (.flt x) ∧
      Rounds (num a * (den b : Int) - num b * (den a : Int)) (den a * den b) x :=
  ⟨_, rfl, sub_correctly_rounded a b ha hb⟩

theorem mathOp_mul (a b : F64) (ha : a.isFinite = true) (hb : b.isFinite = true) :
    ∃ x, mathOp (.flt a) (.flt b) .mul = .ok (.flt x) ∧ Rounds (num a * num b) (den a * den b) x :=
  ⟨_, rfl, mul_correctly_rounded a b ha hb⟩

theorem mathOp_div (a : F64) (ha : a.isFinite = true) (nb : Bool) (mb : Nat) (eb : Int) (hb : mb ≠ 0) :
    ∃ x, mathOp (.flt a) (.flt (.fin nb mb eb)) .div = .ok (.flt x) ∧
      Rounds (quotNum a (.fin nb mb eb)) (quotDen a (.fin nb mb eb)) x := by
  refine ⟨F64.div a (.fin nb mb eb), ?_, div_correctly_rounded a ha nb mb eb hb⟩
  show liftF (floatMath a (.fin nb mb eb) .div) = _
  unfold floatMath
  simp only [feq_zero_false nb mb eb hb, Bool.false_eq_true, if_false]
  rfl

theorem mathOp_mod (a : F64) (nb : Bool) (mb : Nat) (eb : Int) (hb : mb ≠ 0) :
    mathOp (.flt a) (.flt (.fin nb mb eb)) .mod = .ok (.flt (F64.fmod a (.fin nb mb eb))) := by
  show liftF (floatMath a (.fin nb mb eb) .mod) = _
  unfold floatMath
  simp only [feq_zero_false nb mb eb hb, Bool.false_eq_true, if_false]
  rfl

/-- an int64 operand next to a double is first converted (`float64(i)`, itself correctly rounded: `ofInt_rounds`), then the
    double operation above applies — two roundings, as in Go -/
theorem mathOp_int_float (i : Int) (b : F64) (op : BinOp) :
    mathOp (.int i) (.flt b) op = liftF (floatMath (F64.ofInt i) b op) ∧
    mathOp (.flt b) (.int i) op = liftF (floatMath b (F64.ofInt i) op) ∧
    Rounds i 1 (F64.ofInt i) :=
  ⟨rfl, rfl, ofInt_rounds i⟩

/-! ### two integers: the exact integer, or — when that leaves the int64 range — the correctly rounded, finite double
(`executeInt64Math`; the binary part of D12, repaired in the code) -/

theorem ofInt_two63 : F64.ofInt 9223372036854775808 = .fin false (2 ^ 52) 11 := by decide +kernel
theorem ofInt_neg_two63 : F64.ofInt (-9223372036854775808) = .fin true (2 ^ 52) 11 := by decide +kernel

/-- `float64(i)` of an int64 is finite, the nearest double, and its value lies in `[−2^63, 2^63]` -/
theorem ofInt_int64_bound (i : Int) (h : Item.inInt64 i = true) :
    Nearest i 1 (F64.ofInt i) ∧
    -(9223372036854775808 * (den (F64.ofInt i) : Int)) ≤ num (F64.ofInt i) ∧
    num (F64.ofInt i) ≤ 9223372036854775808 * (den (F64.ofInt i) : Int) := by
  obtain ⟨h1, h2⟩ := (C13.inInt64_iff i).1 h
  have hn := ofInt_nearest i (by omega)
  have hf := hn.finite
  have hi := ofInt_rounds i
  have hu := rounds_mono (by decide) (show i ≤ 9223372036854775808 by omega) hi (ofInt_rounds 9223372036854775808) hf
    (by rw [ofInt_two63]; rfl)
  have hl := rounds_mono (by decide) (show -9223372036854775808 ≤ i by omega) (ofInt_rounds (-9223372036854775808)) hi
    (by rw [ofInt_neg_two63]; rfl) hf
  rw [ofInt_two63] at hu
  rw [ofInt_neg_two63] at hl
  have e1 : num (.fin false (2 ^ 52) 11) = 9223372036854775808 := by decide +kernel
  have e2 : num (.fin true (2 ^ 52) 11) = -9223372036854775808 := by decide +kernel
  have e3 : den (.fin false (2 ^ 52) 11) = 1 := by decide +kernel
  have e4 : den (.fin true (2 ^ 52) 11) = 1 := by decide +kernel
  rw [e1, e3] at hu
  rw [e2, e4] at hl
  refine ⟨hn, ?_, ?_⟩ <;> omega

theorem sum_below_threshold {nA nB : Int} {dA dB : Nat} (pA : 0 < dA) (pB : 0 < dB)
    (a1 : -(9223372036854775808 * (dA : Int)) ≤ nA) (a2 : nA ≤ 9223372036854775808 * (dA : Int))
    (b1 : -(9223372036854775808 * (dB : Int)) ≤ nB) (b2 : nB ≤ 9223372036854775808 * (dB : Int)) :
    (nA * (dB : Int) + nB * (dA : Int)).natAbs < (2 ^ 1024 - 2 ^ 970) * (dA * dB) ∧
    (nA * (dB : Int) - nB * (dA : Int)).natAbs < (2 ^ 1024 - 2 ^ 970) * (dA * dB) := by
  have qA : (0 : Int) ≤ (dA : Int) := by omega
  have qB : (0 : Int) ≤ (dB : Int) := by omega
  have x2 := Int.mul_le_mul_of_nonneg_right a2 qB
  have x1 := Int.mul_le_mul_of_nonneg_right a1 qB
  have y2 := Int.mul_le_mul_of_nonneg_right b2 qA
  have y1 := Int.mul_le_mul_of_nonneg_right b1 qA
  rw [Int.neg_mul, Int.mul_assoc] at x1 y1
  rw [Int.mul_assoc] at x2 y2
  rw [Int.mul_comm (dB : Int) (dA : Int)] at y1 y2
  have hP : (0 : Int) < (dA : Int) * (dB : Int) := Int.mul_pos (by omega) (by omega)
  have hc : ((dA * dB : Nat) : Int) = (dA : Int) * (dB : Int) := Int.natCast_mul dA dB
  generalize nA * (dB : Int) = X at *
  generalize nB * (dA : Int) = Y at *
  generalize (dA : Int) * (dB : Int) = P at *
  generalize dA * dB = Pn at *
  constructor <;> omega

theorem prod_below_threshold {nA nB : Int} {dA dB : Nat} (pA : 0 < dA) (pB : 0 < dB)
    (a1 : -(9223372036854775808 * (dA : Int)) ≤ nA) (a2 : nA ≤ 9223372036854775808 * (dA : Int))
    (b1 : -(9223372036854775808 * (dB : Int)) ≤ nB) (b2 : nB ≤ 9223372036854775808 * (dB : Int)) :
    (nA * nB).natAbs < (2 ^ 1024 - 2 ^ 970) * (dA * dB) := by
  have hA : nA.natAbs ≤ 9223372036854775808 * dA := by omega
  have hB : nB.natAbs ≤ 9223372036854775808 * dB := by omega
  have hm := Nat.mul_le_mul hA hB
  rw [Nat.mul_mul_mul_comm] at hm
  rw [Int.natAbs_mul]
  have hP : 0 < dA * dB := Nat.mul_pos pA pB
  generalize nA.natAbs * nB.natAbs = M at *
  generalize dA * dB = P at *
  omega

/-- the exact integer result of `l op r`: `/` truncates toward zero, `%` takes the sign of the dividend -/
def exactZ : BinOp → Int → Int → Int
  | .add, l, r => l + r
  | .sub, l, r => l - r
  | .mul, l, r => l * r
  | .div, l, r => Int.tdiv l r
  | .mod, l, r => Int.tmod l r
  | _, _, _ => 0

/-- `x` is the IEEE-754 double operation `a op b` (`+ − * /`) on finite doubles: the exact rational result, correctly
    rounded (`Rounds`: nearest, ties to even) -/
def FloatOp : BinOp → F64 → F64 → F64 → Prop
  | .add, a, b, x => Rounds (num a * (den b : Int) + num b * (den a : Int)) (den a * den b) x
  | .sub, a, b, x => Rounds (num a * (den b : Int) - num b * (den a : Int)) (den a * den b) x
  | .mul, a, b, x => Rounds (num a * num b) (den a * den b) x
  | .div, a, b, x => Rounds (quotNum a b) (quotDen a b) x
  | _, _, _, _ => False

/-- `float64(MinInt64) / float64(-1)` is the double `2^63` -/
theorem minInt64_div_neg_one :
    F64.div (F64.ofInt (-9223372036854775808)) (F64.ofInt (-1)) = .fin false (2 ^ 52) 11 := by decide +kernel

/-- a truncated quotient of two int64 values leaves the int64 range only for `MinInt64 / -1` -/
theorem tdiv_overflow_only (l r : Int) (hl : Item.inInt64 l = true) (hr : Item.inInt64 r = true)
    (h : Item.inInt64 (Int.tdiv l r) = false) : l = -9223372036854775808 ∧ r = -1 := by
  obtain ⟨l1, l2⟩ := (C13.inInt64_iff l).1 hl
  obtain ⟨r1, r2⟩ := (C13.inInt64_iff r).1 hr
  have hq : ¬ (-9223372036854775808 ≤ Int.tdiv l r ∧ Int.tdiv l r ≤ 9223372036854775807) := by
    intro hc; rw [(C13.inInt64_iff _).2 hc] at h; cases h
  have hab := Int.natAbs_tdiv l r
  have hge : 9223372036854775808 ≤ (Int.tdiv l r).natAbs := by omega
  rw [hab] at hge
  have hdiv : 9223372036854775808 ≤ l.natAbs / r.natAbs := hge
  have hr0 : 0 < r.natAbs := by
    apply Nat.pos_of_ne_zero
    intro h0
    rw [h0, Nat.div_zero] at hdiv
    omega
  have hmul := (Nat.le_div_iff_mul_le hr0).1 hdiv
  have hr1 : r.natAbs = 1 := by
    apply Classical.byContradiction
    intro hne
    have : 2 ≤ r.natAbs := by omega
    have := Nat.mul_le_mul_left 9223372036854775808 this
    omega
  rw [hr1] at hmul
  have hlv : l = -9223372036854775808 := by omega
  refine ⟨hlv, ?_⟩
  rcases Int.natAbs_eq r with e | e
  · rw [hr1] at e
    have : r = 1 := e
    subst this
    rw [Int.tdiv_one] at hq
    omega
  · rw [hr1] at e; exact e

set_option exponentiation.threshold 2000 in
/-- **C13 for two integers — no silent wrap in binary arithmetic.**  For all int64 operands and `op ∈ {+ − * / %}`
    (`r ≠ 0` for `/ %`) `execMathOp` returns either the exact integer result — exactly when that lies in the int64
    range — or, when it does not, the *finite* double that is the correctly rounded operation on `float64(l)`,
    `float64(r)` (themselves the nearest doubles): never a wrapped integer, never an error.  `%` is always exact. -/
theorem no_silent_wrap_binary (l r : Int) (hl : Item.inInt64 l = true) (hr : Item.inInt64 r = true) (op : BinOp)
    (hop : op = .add ∨ op = .sub ∨ op = .mul ∨ op = .div ∨ op = .mod)
    (hr0 : op = .div ∨ op = .mod → r ≠ 0) :
    (Item.inInt64 (exactZ op l r) = true ∧ mathOp (.int l) (.int r) op = .ok (.int (exactZ op l r))) ∨
    (Item.inInt64 (exactZ op l r) = false ∧ op ≠ .mod ∧
      ∃ x, mathOp (.int l) (.int r) op = .ok (.flt x) ∧ x.isFinite = true ∧
        Nearest l 1 (F64.ofInt l) ∧ Nearest r 1 (F64.ofInt r) ∧ FloatOp op (F64.ofInt l) (F64.ofInt r) x) := by
  obtain ⟨nl, l1, l2⟩ := ofInt_int64_bound l hl
  obtain ⟨nr, r1, r2⟩ := ofInt_int64_bound r hr
  have fl := nl.finite
  have fr := nr.finite
  have dl := den_pos (F64.ofInt l)
  have dr := den_pos (F64.ofInt r)
  rcases hop with rfl | rfl | rfl | rfl | rfl
  · cases hfit : Item.inInt64 (exactZ .add l r) with
    | true => exact Or.inl ⟨rfl, C13.mathOp_int_exact_add l r hfit⟩
    | false =>
      refine Or.inr ⟨rfl, by decide, F64.add (F64.ofInt l) (F64.ofInt r), ?_, ?_, nl, nr, ?_⟩
      · rw [C13.int_int, C13.int64Math_overflows l r .add hfit]; rfl
      · exact (rounds_nearest (add_correctly_rounded _ _ fl fr) (sum_below_threshold dl dr l1 l2 r1 r2).1).finite
      · exact add_correctly_rounded _ _ fl fr
  · cases hfit : Item.inInt64 (exactZ .sub l r) with
    | true => exact Or.inl ⟨rfl, C13.mathOp_int_exact_sub l r hfit⟩
    | false =>
      refine Or.inr ⟨rfl, by decide, F64.sub (F64.ofInt l) (F64.ofInt r), ?_, ?_, nl, nr, ?_⟩
      · rw [C13.int_int, C13.int64Math_overflows l r .sub hfit]; rfl
      · exact (rounds_nearest (sub_correctly_rounded _ _ fl fr) (sum_below_threshold dl dr l1 l2 r1 r2).2).finite
      · exact sub_correctly_rounded _ _ fl fr
  · cases hfit : Item.inInt64 (exactZ .mul l r) with
    | true => exact Or.inl ⟨rfl, C13.mathOp_int_exact_mul l r hfit⟩
    | false =>
      refine Or.inr ⟨rfl, by decide, F64.mul (F64.ofInt l) (F64.ofInt r), ?_, ?_, nl, nr, ?_⟩
      · rw [C13.int_int, C13.int64Math_overflows l r .mul hfit]; rfl
      · exact (rounds_nearest (mul_correctly_rounded _ _ fl fr) (prod_below_threshold dl dr l1 l2 r1 r2)).finite
      · exact mul_correctly_rounded _ _ fl fr
  · have hr' : r ≠ 0 := hr0 (Or.inl rfl)
    cases hfit : Item.inInt64 (exactZ .div l r) with
    | true => exact Or.inl ⟨rfl, C13.mathOp_div_trunc l r hr' hfit⟩
    | false =>
      obtain ⟨rfl, rfl⟩ := tdiv_overflow_only l r hl hr hfit
      have hB : F64.ofInt (-1) = .fin true (2 ^ 52) (-52) := by decide +kernel
      refine Or.inr ⟨rfl, by decide, F64.div (F64.ofInt (-9223372036854775808)) (F64.ofInt (-1)), ?_,
        by rw [minInt64_div_neg_one]; rfl, nl, nr, ?_⟩
      · rw [C13.int_int, C13.int64Math_overflows _ _ .div hfit, hB]
        unfold floatMath
        simp only [feq_zero_false true (2 ^ 52) (-52) (by decide), Bool.false_eq_true, if_false]
        rfl
      · show Rounds _ _ _
        rw [hB]
        exact div_correctly_rounded _ fl true (2 ^ 52) (-52) (by decide)
  · have hr' : r ≠ 0 := hr0 (Or.inr rfl)
    have hfit : Item.inInt64 (Int.tmod l r) = true := by
      obtain ⟨a1, a2⟩ := (C13.inInt64_iff l).1 hl
      obtain ⟨b1, b2⟩ := (C13.inInt64_iff r).1 hr
      have e1 := Int.natAbs_tmod l r
      have e2 := Nat.mod_le l.natAbs r.natAbs
      have e3 := Nat.mod_lt l.natAbs (show 0 < r.natAbs by omega)
      apply (C13.inInt64_iff _).2
      omega
    exact Or.inl ⟨hfit, C13.mathOp_mod_trunc l r hr' hfit⟩

/-- the double fallback can never be ±Inf or NaN: whatever `execMathOp` returns for two int64 operands (any operator,
    any divisor) passes the finiteness check of `execBinaryMathExpr` — an integer overflow is never turned into the
    "numeric value out of range" error either -/
theorem int_int_result_finite (l r : Int) (hl : Item.inInt64 l = true) (hr : Item.inInt64 r = true) (op : BinOp)
    (v : Item) (h : mathOp (.int l) (.int r) op = .ok v) : nonFiniteItem v = false := by
  by_cases hop : op = .add ∨ op = .sub ∨ op = .mul ∨ op = .div ∨ op = .mod
  · by_cases hr0 : op = .div ∨ op = .mod → r ≠ 0
    · rcases no_silent_wrap_binary l r hl hr op hop hr0 with ⟨_, e⟩ | ⟨_, _, x, e, hx, _⟩
      · rw [e] at h; cases h; rfl
      · rw [e] at h; cases h
        cases x <;> simp [F64.isFinite] at hx
        simp [nonFiniteItem, F64.isInf, F64.isNaN]
    · have hz : (op = .div ∨ op = .mod) ∧ r = 0 := by
        refine ⟨Classical.byContradiction fun hn => hr0 fun hd => absurd hd hn, Classical.byContradiction fun hn => hr0 fun _ => hn⟩
      obtain ⟨hd, rfl⟩ := hz
      rcases hd with rfl | rfl <;>
        (rw [C13.int_int, C13.int64Math_fits _ _ _ (by simp [exactInt]; rfl)] at h
         simp [integerMath, liftI, Except.map] at h)
  · rw [C13.int_int] at h
    cases op <;> simp at hop <;>
      (rw [C13.int64Math_fits _ _ _ rfl] at h; simp [integerMath, liftI, Except.map] at h)

/-! ### non-vacuity (kernel evaluation) -/

namespace Examples

def b (x : Nat) : F64 := F64.ofBits x

instance (n : Int) (d : Nat) (x y : F64) : Decidable (DistLe n d x y) := by unfold DistLe; infer_instance

/-- 0.1 + 0.2 = 0.30000000000000004 -/
example : F64.add (b 0x3FB999999999999A) (b 0x3FC999999999999A) = b 0x3FD3333333333334 := by decide +kernel

/-- … and that is a **tie broken to even**: the exact sum of the doubles 0.1 and 0.2 lies exactly half way between
    0.3 = `…333` (odd mantissa) and 0.30000000000000004 = `…334` (even mantissa) -/
example :
    let n := num (b 0x3FB999999999999A) * (den (b 0x3FC999999999999A) : Int) +
               num (b 0x3FC999999999999A) * (den (b 0x3FB999999999999A) : Int)
    let d := den (b 0x3FB999999999999A) * den (b 0x3FC999999999999A)
    DistLe n d (b 0x3FD3333333333333) (b 0x3FD3333333333334) ∧ DistLe n d (b 0x3FD3333333333334) (b 0x3FD3333333333333) ∧
      mant (b 0x3FD3333333333334) % 2 = 0 ∧ mant (b 0x3FD3333333333333) % 2 = 1 := by decide +kernel

/-- the theorem instantiated: the result is `Nearest` to the exact sum -/
example : Nearest (num (b 0x3FB999999999999A) * (den (b 0x3FC999999999999A) : Int) +
      num (b 0x3FC999999999999A) * (den (b 0x3FB999999999999A) : Int))
    (den (b 0x3FB999999999999A) * den (b 0x3FC999999999999A)) (b 0x3FD3333333333334) := by
  have h := add_correctly_rounded (b 0x3FB999999999999A) (b 0x3FC999999999999A) (by decide +kernel) (by decide +kernel)
  have e : F64.add (b 0x3FB999999999999A) (b 0x3FC999999999999A) = b 0x3FD3333333333334 := by decide +kernel
  rw [e] at h
  exact (rounds_finite h (by decide +kernel)).1

/-- 2^53 + 1 = 2^53 (tie, down to even); (2^53 + 2) + 1 = 2^53 + 4 (tie, up to even) -/
example : F64.add (b 0x4340000000000000) (b 0x3FF0000000000000) = b 0x4340000000000000 := by decide +kernel
example : F64.add (b 0x4340000000000001) (b 0x3FF0000000000000) = b 0x4340000000000002 := by decide +kernel

/-- 5e-324 / 2 = 0 (tie at 2^-1075 goes to the even neighbour 0); 1.5e-323 / 2 = 1e-323 (1.5 units → 2 units) -/
example : F64.div (b 1) (b 0x4000000000000000) = b 0 := by decide +kernel
example : F64.div (b 3) (b 0x4000000000000000) = b 2 := by decide +kernel
example : F64.mul (b 0x8000000000000001) (b 0x3FE0000000000000) = b 0x8000000000000000 := by decide +kernel  -- −5e-324 * 0.5 = −0

/-- the overflow threshold: MaxFloat64 + 2^970 = +Inf, MaxFloat64 + (the double just below 2^970) = MaxFloat64 -/
example : F64.add (b 0x7FEFFFFFFFFFFFFF) (b 0x7C90000000000000) = .inf false := by decide +kernel
example : F64.add (b 0x7FEFFFFFFFFFFFFF) (b 0x7C8FFFFFFFFFFFFF) = b 0x7FEFFFFFFFFFFFFF := by decide +kernel
example : F64.mul (b 0x7FE1CCF385EBC8A0) (b 0x4024000000000000) = .inf false := by decide +kernel  -- 1e308 * 10

/-- signed zeros: (+0) + (−0) = +0, (−0) + (−0) = −0, 1 − 1 = +0, (−0) * 5 = −0 -/
example : F64.add (b 0) (b 0x8000000000000000) = b 0 := by decide +kernel
example : F64.add (b 0x8000000000000000) (b 0x8000000000000000) = b 0x8000000000000000 := by decide +kernel
example : F64.sub (b 0x3FF0000000000000) (b 0x3FF0000000000000) = b 0 := by decide +kernel
example : F64.mul (b 0x8000000000000000) (b 0x4014000000000000) = b 0x8000000000000000 := by decide +kernel

/-- 1/3 -/
example : F64.div (b 0x3FF0000000000000) (b 0x4008000000000000) = b 0x3FD5555555555555 := by decide +kernel

/-- a decidable reading of "the result is the double `x`" (`Item` has no `DecidableEq`) -/
def fltIs (r : Except MathErr Item) (x : F64) : Bool :=
  match r with
  | .ok (.flt y) => decide (y = x)
  | _ => false

theorem fltIs_sound {r : Except MathErr Item} {x : F64} (h : fltIs r x = true) : r = .ok (.flt x) := by
  unfold fltIs at h
  split at h
  · rw [of_decide_eq_true h]
  · cases h

/-- two integers whose exact result leaves int64: MaxInt64 + 1 = 2^63, MinInt64 − 1 = −2^63, MinInt64 / −1 = 2^63,
    MaxInt64 * MaxInt64 = 2^126 (all as doubles; the operands are converted first), MinInt64 % −1 = 0 (an integer) -/
example : mathOp (.int 9223372036854775807) (.int 1) .add = .ok (.flt (b 0x43E0000000000000)) := by rfl
example : mathOp (.int (-9223372036854775808)) (.int 1) .sub = .ok (.flt (b 0xC3E0000000000000)) := by rfl
example : mathOp (.int (-9223372036854775808)) (.int (-1)) .div = .ok (.flt (b 0x43E0000000000000)) :=
  fltIs_sound (by decide +kernel)
example : mathOp (.int 9223372036854775807) (.int 9223372036854775807) .mul = .ok (.flt (b 0x47D0000000000000)) := by rfl
example : mathOp (.int (-9223372036854775808)) (.int (-1)) .mod = .ok (.int 0) := by rfl
example : mathOp (.int 9223372036854775807) (.int (-1)) .mul = .ok (.int (-9223372036854775807)) := by rfl

end Examples

end C13c
end Sqljson
