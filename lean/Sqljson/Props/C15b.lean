import Sqljson.Props.C09b
import Sqljson.Props.C15
/-!
# C15 (second part) — `.**{a to b}` with a following step

"`.**` and `.**{a to b}` return, for each node of the subtree in document pre-order whose depth lies in the
bounds, … each exactly once …; **with a following step the step is applied to each of those nodes in that order;
structural errors of following steps are skipped in both modes.**"

`Props/C15.lean` proves the part without a following step (`descend_preorder`).  Here, with the composition law
(`Lemmas/Compose.lean`, `Props/C09b.lean`):

* `Aux.xItem_any_ign` — a `.**` step evaluates the same whatever `ignoreStructuralErrors` was when it started: it
  switches the flag on for everything it runs and restores it at the end.  (This is what makes the composition
  law applicable in strict mode: `C09b.compose_collect` needs the flag on *at the start* when the prefix contains
  `.**`; we start the prefix `.**{a to b}` from `ignOn s` and put the flag back.)
* `descend_then_step_exec` (executor level, any state, both modes): the run of `.**{a to b} S` on `v` **is** the
  feed (`C09b.feed`: the runs of `S` in order, each started where the previous one ended, first failure wins) of
  the node list `nodesOf … v a b` to `S`, started from the state with the flag **on**; `nodes_preorder`:
  that list is `v` itself if `a = 0`, then `C15.specL` — the document pre-order of the nodes below `v` filtered
  by depth (`C15.selects`), each node once.
* `descend_then_step` (`exec.Query`): `Query($.**{lo to hi} S, doc)` = `resultOf` that feed (error of the first
  failing run, else the concatenated items).  Side conditions: `S` without `.keyvalue()` and without `last`
  outside a subscript (`sufFlags`; `$`, `@`… allowed), context never done, enough fuel (`depth doc < k`, query
  not `outOfFuel`).
* `descend_then_step_items` / `descend_then_step_fails`: the same in terms of **separate runs** of `S` on each
  node (`stepRun`: the run of `S` inside `Query($ S, node)` but with `ignoreStructuralErrors` on), for closed `S`
  (`C09b.rootIndependent`): all succeed → concatenation; first failing node → its error.
  `stepRun_lax`: in lax mode `stepRun` is literally the run inside `Query($ S, node)`
  (`descend_then_step_lax`: concatenation of the `Query($ S, nodeᵢ)`); in strict mode it is not — the structural
  errors `strict $ S` would raise are skipped — see the examples (`strict $.**.b` on `{"x":{"b":1},"y":2}` = `[1]`
  although `strict $.y.b` errs) and `C09b.counterexample_anyStrict`.  Non-structural errors of the following step
  are *not* skipped (example with `.double()`).
-/

namespace Sqljson
namespace C15b
open Exec Api Exec.Compose

namespace Aux

/-! ### `.**` does not look at the `ignoreStructuralErrors` flag it is started with -/

/-- the state with `ignoreStructuralErrors` on -/
def ignOn (s : St) : St := { s with ignoreSE := true }

/-- the result with the flag of `s` put back -/
def ignBack (s : St) (r : Res) : Res := { r with st := { r.st with ignoreSE := s.ignoreSE } }

@[simp] theorem ignBack_found (s : St) (r : Res) : (ignBack s r).found = r.found := rfl
@[simp] theorem ignBack_status (s : St) (r : Res) : (ignBack s r).status = r.status := rfl
@[simp] theorem ignBack_err (s : St) (r : Res) : (ignBack s r).err = r.err := rfl
@[simp] theorem ignBack_st (s : St) (r : Res) : (ignBack s r).st = { r.st with ignoreSE := s.ignoreSE } := rfl

theorem ignOn_idem (s : St) : ignOn (ignOn s) = ignOn s := rfl

theorem setIgn_of_ignOn {a b : St} (h : ignOn a = ignOn b) (x : Bool) :
    ({ a with ignoreSE := x } : St) = { b with ignoreSE := x } := by
  cases a; cases b; simp [ignOn] at *; simp [h]

theorem ignBack_ignOn_mk (s : St) (f : Found) (st : Status) (e : Option Err) :
    ignBack s ⟨ignOn s, f, st, e⟩ = ⟨s, f, st, e⟩ := by cases s; rfl

/-- two results that differ at most in the flag -/
structure SimRes (r r' : Res) : Prop where
  st : ignOn r.st = ignOn r'.st
  found : r.found = r'.found
  status : r.status = r'.status
  err : r.err = r'.err

def SimRet : Option Res → Option Res → Prop
  | none, none => True
  | some r, some r' => SimRes r r'
  | _, _ => False

/-- two loop states of `executeAnyItem` that differ at most in the flag -/
structure SimAcc (a a' : AAcc) : Prop where
  st : ignOn a.st = ignOn a'.st
  found : a.found = a'.found
  res : a.res = a'.res
  err : a.err = a'.err
  ret : SimRet a.ret a'.ret

theorem SimAcc.rfl' (a : AAcc) : SimAcc a a := by
  refine ⟨rfl, rfl, rfl, rfl, ?_⟩
  cases h : a.ret with
  | none => simp [SimRet]
  | some r => exact ⟨rfl, rfl, rfl, rfl⟩

/-- a descent with `ignore = true` behaves the same whatever the flag was -/
def IgnA (any : AnyK) : Prop :=
  ∀ s node vs f lv a b un, any s node vs f lv a b true un = ignBack s (any (ignOn s) node vs f lv a b true un)

theorem IgnA.sim {any : AnyK} (h : IgnA any) {s s' : St} (hs : ignOn s = ignOn s') (node : Option Node)
    (vs : List Item) (f : Found) (lv a b : Nat) (un : Bool) :
    SimRes (any s node vs f lv a b true un) (any s' node vs f lv a b true un) := by
  rw [h s, h s', hs]
  exact ⟨rfl, rfl, rfl, rfl⟩

theorem anyVisit_sim (item : ItemK) (node : Option Node) (level first last : Nat) (un : Bool)
    (a a' : AAcc) (v : Item) (h : SimAcc a a') (hr : a.ret = none) (hr' : a'.ret = none) :
    SimAcc (anyVisit item node level first last true un a v) (anyVisit item node level first last true un a' v) := by
  obtain ⟨h1, h2, h3, h4, h5⟩ := h
  unfold anyVisit
  by_cases hc : (level ≥ first || (first = maxU32 && last = maxU32 && (collection v).isNone)) = true
  · simp only [hc, if_true]
    cases node with
    | some n =>
      have e : ({ a.st with ignoreSE := true } : St) = { a'.st with ignoreSE := true } := h1
      simp only
      rw [e, h2]
      exact SimAcc.rfl' _
    | none =>
      simp only
      rw [h2]
      cases hf : a'.found with
      | some l => exact ⟨h1, rfl, rfl, h4, by simp [hr, hr', SimRet]⟩
      | none => exact ⟨h1, rfl, h3, h4, by simp only [SimRet]; exact ⟨h1, rfl, rfl, rfl⟩⟩
  · simp only [hc]
    exact ⟨h1, h2, h3, h4, h5⟩

theorem anyDescend_sim {any : AnyK} (hA : IgnA any) (node : Option Node) (level first last : Nat) (un : Bool)
    (a a' : AAcc) (v : Item) (h : SimAcc a a') :
    SimAcc (anyDescend any node level first last true un a v) (anyDescend any node level first last true un a' v) := by
  unfold anyDescend
  by_cases hc : level < last
  · simp only [hc, if_true]
    have hs := hA.sim h.st node ((collection v).getD []) a.found (level + 1) first last un
    rw [h.found] at hs ⊢
    obtain ⟨s1, s2, s3, s4⟩ := hs
    rw [s3]
    split
    · exact ⟨s1, s2, rfl, s4, by simp only [SimRet]; exact ⟨s1, s2, s3, s4⟩⟩
    · exact ⟨s1, s2, rfl, s4, by simp [SimRet]⟩
  · simp only [hc, if_false]
    exact h

theorem anyStep_sim (item : ItemK) {any : AnyK} (hA : IgnA any) (node : Option Node) (level first last : Nat)
    (un : Bool) (a a' : AAcc) (v : Item) (h : SimAcc a a') :
    SimAcc (anyStep item any node level first last true un a v) (anyStep item any node level first last true un a' v) := by
  unfold anyStep
  cases hr : a.ret with
  | some r =>
    cases hr' : a'.ret with
    | none => have := h.ret; simp [hr, hr', SimRet] at this
    | some r' => simpa [hr, hr'] using h
  | none =>
    cases hr' : a'.ret with
    | some r' => have := h.ret; simp [hr, hr', SimRet] at this
    | none =>
      simp only
      have hv := anyVisit_sim item node level first last un a a' v h hr hr'
      cases hr1 : (anyVisit item node level first last true un a v).ret with
      | some r =>
        cases hr1' : (anyVisit item node level first last true un a' v).ret with
        | none => have := hv.ret; simp [hr1, hr1', SimRet] at this
        | some r' => exact hv
      | none =>
        cases hr1' : (anyVisit item node level first last true un a' v).ret with
        | some r' => have := hv.ret; simp [hr1, hr1', SimRet] at this
        | none => exact anyDescend_sim hA node level first last un _ _ v hv

theorem fold_sim (item : ItemK) {any : AnyK} (hA : IgnA any) (node : Option Node) (level first last : Nat)
    (un : Bool) (vs : List Item) : ∀ (a a' : AAcc), SimAcc a a' →
    SimAcc (vs.foldl (anyStep item any node level first last true un) a)
      (vs.foldl (anyStep item any node level first last true un) a') := by
  induction vs with
  | nil => intro a a' h; exact h
  | cons v vs ih =>
    intro a a' h
    simp only [List.foldl_cons]
    exact ih _ _ (anyStep_sim item hA node level first last un a a' v h)

theorem executeAnyItem_ign (item : ItemK) {any : AnyK} (hA : IgnA any) (s : St) (node : Option Node)
    (vs : List Item) (f : Found) (level first last : Nat) (un : Bool) :
    executeAnyItem item any s node vs f level first last true un =
      ignBack s (executeAnyItem item any (ignOn s) node vs f level first last true un) := by
  unfold executeAnyItem
  by_cases hl : level > last
  · simp only [hl, if_true]
    exact (ignBack_ignOn_mk s f .notFound none).symm
  · simp only [hl, if_false]
    have h0 : SimAcc ⟨s, f, .notFound, none, none⟩ ⟨ignOn s, f, .notFound, none, none⟩ :=
      ⟨rfl, rfl, rfl, rfl, by simp [SimRet]⟩
    have h := fold_sim item hA node level first last un vs _ _ h0
    generalize vs.foldl (anyStep item any node level first last true un) ⟨s, f, .notFound, none, none⟩ = A at h
    generalize vs.foldl (anyStep item any node level first last true un) ⟨ignOn s, f, .notFound, none, none⟩ = A' at h
    obtain ⟨h1, h2, h3, h4, h5⟩ := h
    cases hr : A.ret with
    | some r =>
      cases hr' : A'.ret with
      | none => simp [hr, hr', SimRet] at h5
      | some r' =>
        simp only [hr, hr', SimRet] at h5
        obtain ⟨r1, r2, r3, r4⟩ := h5
        simp only [ignBack]
        cases r; cases r'
        simp only at r1 r2 r3 r4
        subst r2; subst r3; subst r4
        simp only [Res.mk.injEq, and_true]
        exact setIgn_of_ignOn r1 _
    | none =>
      cases hr' : A'.ret with
      | some r' => simp [hr, hr', SimRet] at h5
      | none =>
        simp only [ignBack, h2, h3, h4, Res.mk.injEq, and_true]
        exact setIgn_of_ignOn h1 _

theorem xAny_ign (c : Ctx) : ∀ fuel, IgnA (xAny c fuel) := by
  intro fuel
  induction fuel with
  | zero =>
    intro s node vs f lv a b un
    simp only [xAny]
    cases s; rfl
  | succ k ih =>
    intro s node vs f lv a b un
    simp only [xAny]
    exact executeAnyItem_ign _ ih s node vs f lv a b un

theorem anyInto_ign (c : Ctx) {any : AnyK} (hA : IgnA any) (s : St) (first last : Nat) (nx : Option Node)
    (v : Item) (f : Found) :
    anyInto c any s first last nx v f = ignBack s (anyInto c any (ignOn s) first last nx v f) := by
  unfold anyInto
  cases v <;> first | exact hA _ _ _ _ _ _ _ _ | exact (ignBack_ignOn_mk s f .notFound none).symm

theorem execAnyNode_ign (c : Ctx) (item : ItemK) {any : AnyK} (hA : IgnA any) (s : St) (first last : Nat)
    (nx : Option Node) (v : Item) (f : Found) :
    execAnyNode c item any s first last nx v f = ignBack s (execAnyNode c item any (ignOn s) first last nx v f) := by
  unfold execAnyNode
  by_cases h0 : first = 0
  · simp only [h0, if_true]
    have e : ({ ignOn s with ignoreSE := true } : St) = { s with ignoreSE := true } := rfl
    rw [e]
    split <;> rfl
  · simp only [h0, if_false]
    exact anyInto_ign c hA s first last nx v f

theorem poll_ignOn (s : St) : poll (ignOn s) = (poll s).map ignOn := by
  unfold poll
  cases hb : s.budget with
  | none => simp [ignOn, hb]
  | some k => cases k <;> simp [ignOn, hb]

/-- **a `.**` step evaluates the same whatever `ignoreStructuralErrors` was when it started** (it switches the
    flag on for everything it runs and puts the old value back at the end) -/
theorem xItem_any_ign (c : Ctx) (fuel : Nat) (s : St) (a b : Nat) (nx : Option Node) (v : Item) (f : Found) (u : Bool) :
    xItem c fuel s (.any a b nx) v f u = ignBack s (xItem c fuel (ignOn s) (.any a b nx) v f u) := by
  cases fuel with
  | zero => simp only [xItem]; cases s; rfl
  | succ k =>
    simp only [xItem]
    rw [poll_ignOn]
    cases hp : poll s with
    | none => simp only [Option.map_none]; cases s; rfl
    | some s' =>
      simp only [Option.map_some, dispatch]
      have hs : s'.ignoreSE = s.ignoreSE := by
        unfold poll at hp
        cases hb : s.budget with
        | none => simp [hb] at hp; rw [← hp]
        | some n => cases n <;> simp [hb] at hp; rw [← hp]
      rw [execAnyNode_ign c _ (xAny_ign c k) s' a b nx v f]
      simp only [ignBack, hs]

/-! ### the run of `.**{a to b}` alone -/

/-- the nodes `.**{a to b}` selects below (and, for `a = 0`, including) `v`: the item itself at depth 0, then
    what `C15.descendList` lists — by `C15.descendList_spec` the document pre-order filtered by depth -/
def nodesOf (k : Nat) (v : Item) (a b : Nat) : List Item :=
  (if a = 0 then [v] else []) ++ C15.descendList k (C15.kids v) 1 a b

theorem anyInto_collect (c : Ctx) (k : Nat) (s1 : St) (a b : Nat) (v : Item) (l : List Item)
    (hd : C15.depthL (C15.kids v) < k) :
    let r := anyInto c (xAny c k) s1 a b none v (some l)
    r.st = s1 ∧ r.found = some (l ++ C15.descendList k (C15.kids v) 1 a b) ∧ r.err = none ∧ r.status ≠ .failed := by
  have hk : ∀ vs, C15.depthL vs < k → C15.kids v = vs →
      let r := xAny c k s1 none vs (some l) 1 a b true c.lax
      r.st = s1 ∧ r.found = some (l ++ C15.descendList k (C15.kids v) 1 a b) ∧ r.err = none ∧ r.status ≠ .failed := by
    intro vs h1 h2
    rw [h2]
    exact C15.descend_collect c k s1 vs l 1 a b true c.lax h1
  unfold anyInto
  cases v with
  | obj kvs => exact hk _ hd rfl
  | arr xs => exact hk _ hd rfl
  | _ =>
    cases k with
    | zero => omega
    | succ k => simp [C15.kids, collection, C15.descendList]

theorem anyNode_collect (c : Ctx) (k : Nat) (s1 : St) (hb : s1.budget = none) (hi : s1.ignoreSE = true) (a b : Nat)
    (v : Item) (u : Bool) (hd : C15.depthL (C15.kids v) < k) :
    let r := xItem c (k + 1) s1 (.any a b none) v (some []) u
    r.st = s1 ∧ r.found = some (nodesOf k v a b) ∧ r.err = none ∧ r.status ≠ .failed := by
  have hs1 : ({ s1 with ignoreSE := true } : St) = s1 := by cases s1; simp at hi; simp [hi]
  have hs2 : ({ s1 with ignoreSE := s1.ignoreSE } : St) = s1 := by cases s1; rfl
  simp only [xItem]
  rw [poll_of_budget_none hb]
  simp only [dispatch, execAnyNode, nodesOf]
  by_cases h0 : a = 0
  · subst h0
    simp only [if_true, executeNextItem, Found.append, Option.map_some, List.nil_append, hs1]
    simp only [Option.isNone_some, Bool.and_false, Bool.or_false, decide_eq_true_eq]
    rw [if_neg (by simp)]
    obtain ⟨h1, h2, h3, h4⟩ := anyInto_collect c k s1 0 b v [v] hd
    refine ⟨?_, h2, h3, h4⟩
    simp only [h1]
  · simp only [h0, if_false, List.nil_append]
    exact anyInto_collect c k s1 a b v [] hd

theorem feed_ok_of_not_failed (c : Ctx) (S : Node) (fuel : Nat) (xs : List Item) : ∀ (t : St) (l : List Item),
    (C09b.feed c S fuel t l xs).status ≠ .failed →
      (C09b.feed c S fuel t l xs).err = none ∧ (C09b.feed c S fuel t l xs).status = .ok := by
  induction xs with
  | nil => intro t l _; exact ⟨rfl, rfl⟩
  | cons x xs ih =>
    intro t l h
    rw [C09b.feed_cons] at h ⊢
    split
    · rename_i hf; rw [if_pos hf] at h; exact absurd hf h
    · rename_i hf; rw [if_neg hf] at h; exact ih _ _ h

theorem flags_eq {A F B : St} (h1 : StkLe F A) (h2 : StkLe A (mix F B)) (h3 : StkLe B F) :
    A.panicked = F.panicked ∧ A.oof = F.oof ∧ A.sawCancel = F.sawCancel := by
  obtain ⟨a1, a2, a3⟩ := h1
  obtain ⟨b1, b2, b3⟩ := h2
  obtain ⟨c1, c2, c3⟩ := h3
  simp only [mix_panicked, mix_oof, mix_sawCancel, Bool.or_eq_true] at b1 b2 b3
  refine ⟨?_, ?_, ?_⟩
  · cases hA : A.panicked <;> cases hF : F.panicked <;> simp_all
  · cases hA : A.oof <;> cases hF : F.oof <;> simp_all
  · cases hA : A.sawCancel <;> cases hF : F.sawCancel <;> simp_all

end Aux

open Aux

/-! ## the executor-level statement -/

/-- **`.**{a to b} S`, executor level.**  The run `A` of the node `.**{a to b}` followed by the steps `S` on `v`
    (collecting into `l`, from any state `s` whose context is never done, in either mode) is the feed `F`
    of the nodes `nodesOf … v a b` — the item itself if `a = 0`, then the pre-order of the nodes below it
    with depth in the bounds — in that order, to `S`, **started from the state with
    `ignoreStructuralErrors` on** (`ignOn s`): same result list, same error, failed iff a run of `S`
    failed (then with that run's error, at the first such node), same sticky flags; and at the end the
    flag is what it was in `s`. -/
theorem descend_then_step_exec (c : Ctx) (S : Node) (hS : Indep sufFlags S = true) (fuel : Nat) (s : St)
    (hb : s.budget = none) (a b : Nat) (v : Item) (l : List Item) (u : Bool) (hd : C15.depth v < fuel)
    (hfuel : (xItem c fuel s (.any a b (some S)) v (some l) u).st.oof = false) :
    let A := xItem c fuel s (.any a b (some S)) v (some l) u
    let F := C09b.feed c S fuel (ignOn s) l (nodesOf (fuel - 1) v a b)
    A.found = F.found ∧ A.err = F.err ∧ (A.status = .failed ↔ F.status = .failed) ∧
      A.st.panicked = F.st.panicked ∧ F.st.oof = false ∧ A.st.ignoreSE = s.ignoreSE := by
  intro A F
  cases fuel with
  | zero => omega
  | succ k =>
    have hdk : C15.depthL (C15.kids v) < k := by have := C15.depth_kids v; omega
    have hA : A = ignBack s (xItem c (k + 1) (ignOn s) (append (.any a b none) S) v (some l) u) := by
      show xItem c (k + 1) s (.any a b (some S)) v (some l) u = _
      rw [xItem_any_ign]
      simp [append]
    have hfuel' : (xItem c (k + 1) (ignOn s) (append (.any a b none) S) v (some l) u).st.oof = false := by
      have : A.st.oof = false := hfuel
      rw [hA] at this
      exact this
    have hcomp := C09b.compose_collect c S hS (k + 1) (ignOn s) hb (.any a b none) (Or.inl rfl) l v u hfuel'
    obtain ⟨b1, b2, b3, b4⟩ := anyNode_collect c k (ignOn s) hb rfl a b v u hdk
    simp only [b2, Option.getD_some] at hcomp
    have hF : F = C09b.feed c S (k + 1) (ignOn s) l (nodesOf k v a b) := rfl
    rw [← hF] at hcomp
    obtain ⟨c1, c2⟩ := hcomp
    have hle : StkLe (ignOn s) F.st := C09b.feed_stkLe S c (k + 1) (ignOn s) l _
    by_cases hf : F.status = .failed
    · obtain ⟨d1, d2, d3, d4, d5⟩ := c1 hf
      rw [b1] at d5
      obtain ⟨e1, e2, _⟩ := flags_eq d4 d5 hle
      rw [hA]
      refine ⟨d3, d2, by simp [d1, hf], by simpa using e1, ?_, rfl⟩
      rw [← e2]; exact hfuel'
    · obtain ⟨d1, d2, d3, d4⟩ := c2 hf
      obtain ⟨g1, g2⟩ := feed_ok_of_not_failed c S (k + 1) _ _ _ hf
      rw [b1] at d4
      have e1 : (mix F.st (ignOn s)).panicked = F.st.panicked := by
        simp only [mix_panicked]
        cases hp : (ignOn s).panicked with
        | false => simp
        | true => simp [hle.1 hp]
      have e2 : (mix F.st (ignOn s)).oof = F.st.oof := by
        simp only [mix_oof]
        cases hp : (ignOn s).oof with
        | false => simp
        | true => simp [hle.2.1 hp]
      rw [hA]
      refine ⟨d1, by rw [g1]; simpa [b3] using d2, ?_, ?_, ?_, rfl⟩
      · simp only [ignBack_status]
        constructor
        · intro h; exact absurd (d3.1 h) b4
        · intro h; exact absurd h hf
      · simp only [ignBack_st]; rw [d4]; exact e1
      · rw [← e2, ← d4]; exact hfuel'

/-! ## the level of `exec.Query` -/

/-- what `Query` reports for a run: the sticky flags first, then the error, else the items -/
def resultOf (r : Res) : Outcome :=
  if r.st.oof then .outOfFuel else if r.st.panicked then .panic else
  match r.err with
  | some e => .error e
  | none => .items (r.found.getD [])

theorem queryWith_eq_resultOf (fuel : Nat) (a : AST) (doc : Item) (o : Opts) :
    queryWith fuel a doc o = resultOf (execute fuel a doc o) := by
  unfold queryWith resultOf guarded
  dsimp only
  cases h : (execute fuel a doc o).err <;> rfl

theorem resultOf_congr {r r' : Res} (h1 : r.st.oof = r'.st.oof) (h2 : r.st.panicked = r'.st.panicked)
    (h3 : r.err = r'.err) (h4 : r.found = r'.found) : resultOf r = resultOf r' := by
  unfold resultOf; rw [h1, h2, h3, h4]

/-- the state in which the steps after `$.**` run: that of `Query($ S, ·)` on the document, with the flag on -/
def onSt (a : AST) (doc : Item) (o : Opts) : St := ignOn (C09b.sepSt a doc o)

/-- **C15, with a following step.**  `Query($.**{lo to hi} S, doc)`, lax or strict, is what feeding the nodes
    of the subtree — the document itself if `lo = 0`, then the nodes below it in document pre-order whose
    depth lies in the bounds (`nodesOf`, `nodes_preorder`) — in that order to the steps `S` reports, each
    run of `S` made with `ignoreStructuralErrors` **on** (`onSt`): the concatenation of the runs' results,
    or the error of the first run that fails. -/
theorem descend_then_step (k : Nat) (a : AST) (S : Node) (lo hi : Nat) (doc : Item) (o : Opts)
    (hS : Indep sufFlags S = true) (ho : o.budget = none) (hd : C15.depth doc < k)
    (hfuel : queryWith (k + 1) (C09b.withRoot a (C09b.dollar (.any lo hi (some S)))) doc o ≠ .outOfFuel) :
    queryWith (k + 1) (C09b.withRoot a (C09b.dollar (.any lo hi (some S)))) doc o =
      resultOf (C09b.feed (mkCtx a doc o) S k (onSt a doc o) [] (nodesOf (k - 1) doc lo hi)) := by
  rw [queryWith_eq_resultOf] at hfuel ⊢
  rw [C09b.execute_dollar k a _ doc o ho] at hfuel ⊢
  have ho' : (C09b.sepRun a (.any lo hi (some S)) doc o k).st.oof = false := by
    cases h : (C09b.sepRun a (.any lo hi (some S)) doc o k).st.oof with
    | false => rfl
    | true => exact absurd (by unfold resultOf; simp [h]) hfuel
  have hb : (C09b.sepSt a doc o).budget = none := by simpa [C09b.sepSt, initSt] using ho
  obtain ⟨h1, h2, _, h4, h5, _⟩ := descend_then_step_exec (mkCtx a doc o) S hS k (C09b.sepSt a doc o) hb lo hi doc []
    a.lax hd ho'
  apply resultOf_congr
  · show (C09b.sepRun a (.any lo hi (some S)) doc o k).st.oof = _
    rw [ho']; exact h5.symm
  · exact h4
  · exact h2
  · exact h1

/-- the nodes are the pre-order of the document filtered by depth (`C15.specL`, `C15.selects`) -/
theorem nodes_preorder (k : Nat) (doc : Item) (lo hi : Nat) (hdepth : 1 + C15.depthL (C15.kids doc) ≤ maxU32) :
    nodesOf k doc lo hi = (if lo = 0 then [doc] else []) ++ C15.specL k (C15.kids doc) 1 lo hi := by
  unfold nodesOf
  rw [C15.descendList_spec k _ 1 lo hi (by omega) hdepth]

/-! ### in terms of separate runs of the steps on each node -/

/-- the run of the steps `S` on the node `x` as inside `Query($ S, x)`, but with `ignoreStructuralErrors` on -/
def stepRun (a : AST) (S : Node) (x : Item) (o : Opts) (k : Nat) : Res :=
  xItem (mkCtx a x o) k (onSt a x o) S x (some []) a.lax

/-- in lax mode the flag is on anyway: the run is the one inside `Query($ S, x)` -/
theorem stepRun_lax (a : AST) (S : Node) (x : Item) (o : Opts) (k : Nat) (h : a.lax = true) :
    stepRun a S x o k = C09b.sepRun a S x o k := by
  have : onSt a x o = C09b.sepSt a x o := by simp [onSt, ignOn, C09b.sepSt, initSt, h]
  simp [stepRun, C09b.sepRun, this]

namespace Aux

section on
variable (a : AST) (S : Node) (doc : Item) (o : Opts)

/-- a feed state after `.**`: the flags of the query, `ignoreStructuralErrors` on -/
def CompatOn (t : St) : Prop := t.verbose = (!o.silent) ∧ t.ignoreSE = true ∧ t.budget = none

theorem compatOn_onSt (ho : o.budget = none) : CompatOn o (onSt a doc o) :=
  ⟨rfl, rfl, by simpa [onSt, ignOn, C09b.sepSt, initSt] using ho⟩

theorem feedRun_on (hS : C09b.rootIndependent S = true) (ho : o.budget = none) (fuel k : Nat) (t : St)
    (hc : CompatOn o t) (x : Item) (l : List Item)
    (h1 : (xItem (mkCtx a doc o) fuel t S x (some l) a.lax).st.oof = false)
    (h2 : (stepRun a S x o k).st.oof = false) :
    xItem (mkCtx a doc o) fuel t S x (some l) a.lax =
      ⟨mix (stepRun a S x o k).st t, some (l ++ (stepRun a S x o k).found.getD []), (stepRun a S x o k).status,
        (stepRun a S x o k).err⟩ := by
  have hto : t.oof = false := C09b.oof_of_stkLe (xItem_stkLe _ fuel t S x (some l) a.lax) h1
  have htr := transfer (mkCtx a x o) doc S hS k (onSt a x o) t x l a.lax hc.1.symm hc.2.1.symm
    (by simpa [onSt, ignOn, C09b.sepSt, initSt] using ho) hc.2.2
  have hm : mix (onSt a x o) t = t :=
    mix_of_stkLe ⟨by simp [onSt, ignOn, C09b.sepSt, initSt], by simp [onSt, ignOn, C09b.sepSt, initSt],
      by simp [onSt, ignOn, C09b.sepSt, initSt]⟩
  rw [hm] at htr
  have hctx : setRoot (some doc) (mkCtx a x o) = mkCtx a doc o := rfl
  rw [hctx] at htr
  have hk : xItem (mkCtx a doc o) k t S x (some l) a.lax = _ := htr
  have hko : (xItem (mkCtx a doc o) k t S x (some l) a.lax).st.oof = false := by
    rw [hk]; simp [hto]; exact h2
  rcases Nat.le_total k fuel with hle | hle
  · rw [Exec.Fuel.xItem_mono _ k fuel hle t S x (some l) a.lax hko, hk]; rfl
  · rw [← Exec.Fuel.xItem_mono _ fuel k hle t S x (some l) a.lax h1, hk]; rfl

theorem feed_all_on (hS : C09b.rootIndependent S = true) (ho : o.budget = none) (fuel : Nat) {xs : List Item}
    {yss : List (List Item)} (h : C09b.Each (fun x ys => ∃ k, C09b.Ran (stepRun a S x o k) ys) xs yss) :
    ∀ (t : St) (l : List Item), CompatOn o t → t.panicked = false →
      (C09b.feed (mkCtx a doc o) S fuel t l xs).st.oof = false →
      (C09b.feed (mkCtx a doc o) S fuel t l xs).err = none ∧
      (C09b.feed (mkCtx a doc o) S fuel t l xs).found = some (l ++ yss.flatten) ∧
      (C09b.feed (mkCtx a doc o) S fuel t l xs).st.panicked = false := by
  induction h with
  | nil => intro t l _ hp _; simp [C09b.feed_nil, hp]
  | @cons x ys xs yss hx _ ih =>
    obtain ⟨k, hr⟩ := hx
    intro t l hc hp hfo
    have h1 := C09b.feed_head_oof S (mkCtx a doc o) fuel t l x xs hfo
    have e := feedRun_on a S doc o hS ho fuel k t hc x l h1 hr.oof
    have e' : xItem (mkCtx a doc o) fuel t S x (some l) (mkCtx a doc o).lax = _ := e
    rw [C09b.feed_cons, e'] at hfo ⊢
    simp only [hr.found, Option.getD_some] at hfo ⊢
    rw [if_neg hr.ok] at hfo ⊢
    have := ih (mix (stepRun a S x o k).st t) (l ++ ys) hc (by simp [hp, hr.panicked]) hfo
    simpa [List.append_assoc] using this

theorem feed_fail_on (hS : C09b.rootIndependent S = true) (ho : o.budget = none) (fuel : Nat) {xs1 : List Item}
    {yss1 : List (List Item)} (h : C09b.Each (fun x ys => ∃ k, C09b.Ran (stepRun a S x o k) ys) xs1 yss1)
    (x : Item) (xs2 : List Item) (k : Nat)
    (hxo : (stepRun a S x o k).st.oof = false) (hxp : (stepRun a S x o k).st.panicked = false)
    (hxf : (stepRun a S x o k).status = .failed) :
    ∀ (t : St) (l : List Item), CompatOn o t → t.panicked = false →
      (C09b.feed (mkCtx a doc o) S fuel t l (xs1 ++ x :: xs2)).st.oof = false →
      (C09b.feed (mkCtx a doc o) S fuel t l (xs1 ++ x :: xs2)).err = (stepRun a S x o k).err ∧
      (C09b.feed (mkCtx a doc o) S fuel t l (xs1 ++ x :: xs2)).found =
        some (l ++ yss1.flatten ++ (stepRun a S x o k).found.getD []) ∧
      (C09b.feed (mkCtx a doc o) S fuel t l (xs1 ++ x :: xs2)).st.panicked = false := by
  induction h with
  | nil =>
    intro t l hc hp hfo
    simp only [List.nil_append] at hfo ⊢
    have h1 := C09b.feed_head_oof S (mkCtx a doc o) fuel t l x xs2 hfo
    have e := feedRun_on a S doc o hS ho fuel k t hc x l h1 hxo
    have e' : xItem (mkCtx a doc o) fuel t S x (some l) (mkCtx a doc o).lax = _ := e
    rw [C09b.feed_cons, e']
    simp only [hxf, if_true, List.flatten_nil, List.append_nil, mix_panicked, hp, hxp]
    exact ⟨trivial, trivial, rfl⟩
  | @cons x' ys xs yss hx _ ih =>
    obtain ⟨k', hr⟩ := hx
    intro t l hc hp hfo
    simp only [List.cons_append] at hfo ⊢
    have h1 := C09b.feed_head_oof S (mkCtx a doc o) fuel t l x' (xs ++ x :: xs2) hfo
    have e := feedRun_on a S doc o hS ho fuel k' t hc x' l h1 hr.oof
    have e' : xItem (mkCtx a doc o) fuel t S x' (some l) (mkCtx a doc o).lax = _ := e
    rw [C09b.feed_cons, e'] at hfo ⊢
    simp only [hr.found, Option.getD_some] at hfo ⊢
    rw [if_neg hr.ok] at hfo ⊢
    have := ih (mix (stepRun a S x' o k').st t) (l ++ ys) hc (by simp [hp, hr.panicked]) hfo
    simpa [List.append_assoc] using this

end on

theorem oof_of_resultOf {r : Res} (h : resultOf r ≠ .outOfFuel) : r.st.oof = false := by
  cases h' : r.st.oof with
  | false => rfl
  | true => exact absurd (by unfold resultOf; simp [h']) h

end Aux

/-- **every node's run of the steps succeeds**: `Query($.**{lo to hi} S, doc)` is the concatenation, over the
    selected nodes in pre-order, of what the steps `S` return on each node when run with
    `ignoreStructuralErrors` on (`stepRun`; `S` closed: no `$`, free `@`, free `last`, `.keyvalue()`) -/
theorem descend_then_step_items (k : Nat) (a : AST) (S : Node) (lo hi : Nat) (doc : Item) (o : Opts)
    (yss : List (List Item)) (hS : C09b.rootIndependent S = true) (ho : o.budget = none) (hd : C15.depth doc < k)
    (hfuel : queryWith (k + 1) (C09b.withRoot a (C09b.dollar (.any lo hi (some S)))) doc o ≠ .outOfFuel)
    (hSs : C09b.Each (fun x ys => ∃ k', C09b.Ran (stepRun a S x o k') ys) (nodesOf (k - 1) doc lo hi) yss) :
    queryWith (k + 1) (C09b.withRoot a (C09b.dollar (.any lo hi (some S)))) doc o = .items yss.flatten := by
  have hq := descend_then_step k a S lo hi doc o (C09b.rootIndependent_suf hS) ho hd hfuel
  rw [hq] at hfuel ⊢
  have hFo := Aux.oof_of_resultOf hfuel
  obtain ⟨f1, f2, f3⟩ := Aux.feed_all_on a S doc o hS ho k hSs (onSt a doc o) [] (Aux.compatOn_onSt a doc o ho)
    (by simp [onSt, Aux.ignOn, C09b.sepSt, initSt]) hFo
  unfold resultOf
  simp [hFo, f3, f1, f2]

/-- **the first node whose run of the steps fails** (non-structural error, or any error of a step that is
    not suppressed by the flag) decides: `Query` returns that error -/
theorem descend_then_step_fails (k : Nat) (a : AST) (S : Node) (lo hi : Nat) (doc : Item) (o : Opts)
    (xs1 xs2 : List Item) (x : Item) (yss1 : List (List Item)) (k' : Nat) (e : Err)
    (hS : C09b.rootIndependent S = true) (ho : o.budget = none) (hd : C15.depth doc < k)
    (hfuel : queryWith (k + 1) (C09b.withRoot a (C09b.dollar (.any lo hi (some S)))) doc o ≠ .outOfFuel)
    (hnodes : nodesOf (k - 1) doc lo hi = xs1 ++ x :: xs2)
    (hSs : C09b.Each (fun x ys => ∃ k', C09b.Ran (stepRun a S x o k') ys) xs1 yss1)
    (hxo : (stepRun a S x o k').st.oof = false) (hxp : (stepRun a S x o k').st.panicked = false)
    (hxe : (stepRun a S x o k').err = some e) :
    queryWith (k + 1) (C09b.withRoot a (C09b.dollar (.any lo hi (some S)))) doc o = .error e := by
  have hq := descend_then_step k a S lo hi doc o (C09b.rootIndependent_suf hS) ho hd hfuel
  rw [hq] at hfuel ⊢
  have hFo := Aux.oof_of_resultOf hfuel
  rw [hnodes] at hFo ⊢
  have hxf : (stepRun a S x o k').status = .failed :=
    (xItem_good _ _ _ _ _ _ _).errFailed (by show (stepRun a S x o k').err ≠ none; rw [hxe]; simp)
  obtain ⟨f1, _, f3⟩ := Aux.feed_fail_on a S doc o hS ho k hSs x xs2 k' hxo hxp hxf (onSt a doc o) []
    (Aux.compatOn_onSt a doc o ho) (by simp [onSt, Aux.ignOn, C09b.sepSt, initSt]) hFo
  unfold resultOf
  simp [hFo, f3, f1, hxe]


theorem each_mono {R R' : Item → List Item → Prop} {xs : List Item} {yss : List (List Item)}
    (h : C09b.Each R xs yss) (hR : ∀ x ys, R x ys → R' x ys) : C09b.Each R' xs yss := by
  induction h with
  | nil => exact C09b.Each.nil
  | cons hx _ ih => exact C09b.Each.cons (hR _ _ hx) ih

/-- **lax mode**: `Query($.**{lo to hi} S, doc)` is the concatenation of the `Query($ S, nodeᵢ)` over the selected
    nodes in pre-order -/
theorem descend_then_step_lax (k : Nat) (a : AST) (S : Node) (lo hi : Nat) (doc : Item) (o : Opts)
    (yss : List (List Item)) (hl : a.lax = true) (hS : C09b.rootIndependent S = true) (ho : o.budget = none)
    (hd : C15.depth doc < k)
    (hfuel : queryWith (k + 1) (C09b.withRoot a (C09b.dollar (.any lo hi (some S)))) doc o ≠ .outOfFuel)
    (hSs : C09b.Each (fun x ys => ∃ k', C09b.Ran (execute k' (C09b.withRoot a (C09b.dollar S)) x o) ys)
      (nodesOf (k - 1) doc lo hi) yss) :
    queryWith (k + 1) (C09b.withRoot a (C09b.dollar (.any lo hi (some S)))) doc o = .items yss.flatten :=
  descend_then_step_items k a S lo hi doc o yss hS ho hd hfuel
    (each_mono hSs (fun x ys ⟨k', hk'⟩ => by
      obtain ⟨k2, hk2⟩ := C09b.ran_dollar ho hk'
      exact ⟨k2, by rw [stepRun_lax a S x o k2 hl]; exact hk2⟩))

/-! ## non-vacuity (by evaluation) -/

section examples

def kB : List Char := ['b']
/-- `{"x":{"b":1},"y":2}` -/
def exDoc : Item := .obj [(['x'], .obj [(kB, .int 1)]), (['y'], .int 2)]
/-- `.b` -/
def exS : Node := .key kB none
/-- `$.**.b` -/
def exPath : Node := C09b.dollar (.any 0 maxU32 (some exS))

/-- strict `$.**.b` returns `[1]`, no error … -/
example : queryWith 20 ⟨exPath, false, false⟩ exDoc {} = .items [.int 1] := rfl
/-- … although strict `$.y.b` and strict `$.b` raise the structural error -/
example : queryWith 20 ⟨.const .root (some (.key ['y'] (some exS))), false, false⟩ exDoc {} = .error .verbose := rfl
example : queryWith 20 ⟨C09b.dollar exS, false, false⟩ exDoc {} = .error .verbose := rfl
/-- the nodes, in pre-order -/
example : nodesOf 19 exDoc 0 maxU32 = [exDoc, .obj [(kB, .int 1)], .int 1, .int 2] := rfl
/-- the runs of `.b` on the nodes with the flag on: nothing, `[1]`, nothing, nothing -/
example : (stepRun ⟨exPath, false, false⟩ exS exDoc {} 10).found = some [] := rfl
example : (stepRun ⟨exPath, false, false⟩ exS (.obj [(kB, .int 1)]) {} 10).found = some [.int 1] := rfl
example : (stepRun ⟨exPath, false, false⟩ exS (.int 1) {} 10).status = .notFound := rfl
theorem ne_failed_of_nf {r : Res} (h : r.status = .notFound) : r.status ≠ .failed := by rw [h]; simp

/-- the theorem applied to the concrete data -/
example : queryWith 20 (C09b.withRoot ⟨exPath, false, false⟩ exPath) exDoc {} = .items [[], [Item.int 1], [], []].flatten :=
  descend_then_step_items 19 ⟨exPath, false, false⟩ exS 0 maxU32 exDoc {} [[], [.int 1], [], []] rfl rfl (by decide)
    (by intro h
        have h2 : queryWith 20 ⟨exPath, false, false⟩ exDoc {} = .items [.int 1] := rfl
        exact absurd (h2.symm.trans h) (by intro h3; cases h3))
    (C09b.Each.cons ⟨10, rfl, rfl, ne_failed_of_nf rfl, rfl⟩
      (C09b.Each.cons ⟨10, rfl, rfl, C09b.ne_failed_of_ok rfl, rfl⟩
        (C09b.Each.cons ⟨10, rfl, rfl, ne_failed_of_nf rfl, rfl⟩
          (C09b.Each.cons ⟨10, rfl, rfl, ne_failed_of_nf rfl, rfl⟩ C09b.Each.nil))))
/-- a non-structural error of the following step is not skipped: strict `$.**.double()` on `{"x":"a"}` -/
example : queryWith 20 ⟨C09b.dollar (.any 0 maxU32 (some (.method .double none))), false, false⟩
    (.obj [(['x'], .str ['a'])]) {} = .error .verbose := rfl
/-- bounds, lax: `$.**{1 to 1}.b` -/
example : queryWith 20 ⟨C09b.dollar (.any 1 1 (some exS)), true, false⟩ exDoc {} = .items [.int 1] := rfl

end examples

end C15b
end Sqljson
