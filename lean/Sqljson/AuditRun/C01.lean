import Sqljson.Audit
import Sqljson.Props.C16b
import Sqljson.Props.C01c
import Sqljson.Props.Fuel
import Sqljson.Props.C09b
import Sqljson.Props.C06b
import Sqljson.Props.C07b
import Sqljson.Props.C08b
import Sqljson.Props.C12b
import Sqljson.Props.C14b
import Sqljson.Props.C01b
import Sqljson.Props.C05b
import Sqljson.Props.C10b
import Sqljson.Props.C15b
import Sqljson.Props.C01
open Sqljson
#audit_ns C01 Sqljson.C01
#audit C01 [Sqljson.Exec.good_all, Sqljson.Exec.xItem_good, Sqljson.Exec.xBool_good, Sqljson.Api.runRes_good]
#audit_ns C01 Sqljson.C07
#audit_ns C01 Sqljson.C09
#audit_ns C01 Sqljson.C10
#audit_ns C01 Sqljson.C11
#audit_ns C01 Sqljson.C12
#audit_ns C01 Sqljson.C13
#audit_ns C01 Sqljson.C14
#audit_ns C01 Sqljson.C15
#audit_ns C01 Sqljson.C16
#audit_ns C01 Sqljson.FuelProps
#audit C01 [Sqljson.Exec.Fuel.sim_all, Sqljson.Exec.Fuel.adequate_all]
#audit_ns C01 Sqljson.C09b
#audit_ns C01 Sqljson.C06b
#audit_ns C01 Sqljson.C07b
#audit_ns C01 Sqljson.C08b
#audit_ns C01 Sqljson.C12b
#audit_ns C01 Sqljson.C14b
#audit_ns C01 Sqljson.C10b
#audit_ns C01 Sqljson.C15b
#audit_ns C01 Sqljson.C01b
#audit C01 [Sqljson.Exec.Refine.refine_run]
#audit_ns C01 Sqljson.C05b
#audit_ns C01 Sqljson.C01c
#audit C01 [Sqljson.SemLink.parse_ok_Shape, Sqljson.SemLink.shape_sem, Sqljson.SemLink.ofNode_toNode]
#audit_ns C01 Sqljson.C16b
