import Sqljson.Audit
import Sqljson.Props.C13
#audit_ns C13 Sqljson.C13
