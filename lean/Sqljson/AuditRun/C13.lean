import Sqljson.Audit
import Sqljson.Props.C13
import Sqljson.Props.C13c
#audit_ns C13 Sqljson.C13
#audit_ns C13 Sqljson.C13c
