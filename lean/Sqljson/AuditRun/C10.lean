import Sqljson.Audit
import Sqljson.Props.C10
import Sqljson.Props.C10b
#audit_ns C10 Sqljson.C10
#audit_ns C10 Sqljson.C10b
