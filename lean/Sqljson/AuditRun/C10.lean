import Sqljson.Audit
import Sqljson.Props.C10
#audit_ns C10 Sqljson.C10
