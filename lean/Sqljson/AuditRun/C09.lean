import Sqljson.Audit
import Sqljson.Props.C09
import Sqljson.Props.C09b
#audit_ns C09 Sqljson.C09
#audit_ns C09 Sqljson.C09b
#audit C09 [Sqljson.Exec.Compose.comp_all, Sqljson.Exec.Compose.compP_all, Sqljson.Exec.Compose.compose_rel, Sqljson.Exec.Compose.compose_relP, Sqljson.Exec.Compose.frame_all, Sqljson.Exec.Compose.bud_all]
