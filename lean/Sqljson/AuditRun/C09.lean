import Sqljson.Audit
import Sqljson.Props.C09
#audit_ns C09 Sqljson.C09
