import Sqljson.Audit
import Sqljson.Props.C16b
import Sqljson.Props.C16
import Sqljson.Props.C16c
import Sqljson.Props.C16d
#audit_ns C16 Sqljson.C16
#audit_ns C16 Sqljson.C16b
#audit C16 [Sqljson.FloatText.shortest_roundtrips, Sqljson.FloatText.found_wf, Sqljson.FloatText.parse_layoutF]
#audit_ns C16 Sqljson.C16c
#audit_ns C16 Sqljson.C16d
