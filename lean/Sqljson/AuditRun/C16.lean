import Sqljson.Audit
import Sqljson.Props.C16
#audit_ns C16 Sqljson.C16
