import Sqljson.Audit
import Sqljson.Props.C17b
import Sqljson.Props.GenFacts
import Sqljson.Props.GenLinksTime
import Sqljson.Props.C17
open Sqljson
#audit_ns C17 Sqljson.C17
#audit C17 [Sqljson.Time.castTo_diag, Sqljson.Time.castTo_tzRequired_iff, Sqljson.Time.castTo_notRecognized_iff, Sqljson.Time.castTo_ok_of_useTZ, Sqljson.Time.castTo_kind, Sqljson.Time.compareDatetime_tzRequired_iff, Sqljson.Time.compareDatetime_error, Sqljson.Time.compareDatetime_incomparable_iff, Sqljson.Time.compareDatetime_range, Sqljson.Time.compareDatetime_swap, Sqljson.Time.compareDatetime_antisymm, Sqljson.Time.compareDatetime_refl, Sqljson.Time.compareDatetime_sameKind, Sqljson.Time.compareDatetime_trans_sameKind, Sqljson.Time.timestampToTimestampTZ_eq, Sqljson.Time.dateToTimestampTZ_eq, Sqljson.Time.compare_equals_cast, Sqljson.Time.compare_cast_commute, Sqljson.Time.compare_cast_commute_utc, Sqljson.Time.castTo_timestamptz_fixed, Sqljson.Time.compare_direct_fixed, Sqljson.Time.compare_after_cast_fixed, Sqljson.Time.Zone.strictMono_fixed, Sqljson.Time.compareDatetime_instant, Sqljson.Time.compareDatetime_trans_instant, Sqljson.Time.compareDatetime_trans_instant_fixed, Sqljson.Time.compare_not_transitive_in_gap, Sqljson.Time.envNY_not_strictMono, Sqljson.Time.compare_not_transitive_on_gap_day]
#audit C17 [Sqljson.GenLinks.parse_cascade_link, Sqljson.GenLinks.format_consts_link, Sqljson.GenLinks.out_layouts_are_consts, Sqljson.GenFacts.layouts_unchanged]
#audit_ns C17 Sqljson.C17b
