import Sqljson.Audit
import Sqljson.Props.C17
open Sqljson
#audit_ns C17 Sqljson.C17
#audit C17 [Sqljson.Time.castTo_tzRequired_iff, Sqljson.Time.castTo_notRecognized_iff, Sqljson.Time.castTo_ok_of_useTZ, Sqljson.Time.castTo_kind, Sqljson.Time.compareDatetime_tzRequired_iff, Sqljson.Time.compareDatetime_error, Sqljson.Time.compareDatetime_incomparable_iff, Sqljson.Time.compareDatetime_range, Sqljson.Time.compareDatetime_swap, Sqljson.Time.compareDatetime_antisymm, Sqljson.Time.compareDatetime_refl, Sqljson.Time.compareDatetime_instant, Sqljson.Time.compareDatetime_sameKind, Sqljson.Time.compareDatetime_trans_instant, Sqljson.Time.compareDatetime_trans_sameKind, Sqljson.Time.compare_cast_commute_utc, Sqljson.Time.compare_after_cast_fixed, Sqljson.Time.compare_direct_fixed, Sqljson.Time.compare_direct_ignores_zone, Sqljson.Time.compare_after_cast_differs, Sqljson.Time.compare_not_transitive_on_gap_day]
