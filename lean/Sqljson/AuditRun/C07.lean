import Sqljson.Audit
import Sqljson.Props.C07
import Sqljson.Props.C07b
#audit_ns C07 Sqljson.C07
#audit_ns C07 Sqljson.C07b
#audit C07 [Sqljson.Exec.Lax.lt_all, Sqljson.Exec.Lax.xItem_lt]
