import Sqljson.Audit
import Sqljson.Props.C07
#audit_ns C07 Sqljson.C07
