import Sqljson.Audit
import Sqljson.Props.C06
import Sqljson.Props.C06b
#audit_ns C06 Sqljson.C06
#audit_ns C06 Sqljson.C06b
#audit C06 [Sqljson.Exec.Probe.sim_all, Sqljson.Exec.Probe.xItem_pc, Sqljson.Exec.Probe.xItem_pc_strong, Sqljson.Exec.Probe.fe_all]
