import Sqljson.Audit
import Sqljson.Props.C06
#audit_ns C06 Sqljson.C06
