import Sqljson.Audit
import Sqljson.Props.C08
import Sqljson.Props.C08b
import Sqljson.Props.GenFacts
#audit_ns C08 Sqljson.C08
#audit_ns C08 Sqljson.C08b
#audit C08 [Sqljson.Exec.sim_all, Sqljson.Exec.xItem_sim, Sqljson.Exec.xBool_sim, Sqljson.Exec.xAny_sim]
#audit C08 [Sqljson.GenFacts.raise_unchanged]
