import Sqljson.Audit
import Sqljson.Props.C08
import Sqljson.Props.GenFacts
#audit_ns C08 Sqljson.C08
#audit C08 [Sqljson.GenFacts.raise_unchanged]
