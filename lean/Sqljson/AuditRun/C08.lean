import Sqljson.Audit
import Sqljson.Props.C08
#audit_ns C08 Sqljson.C08
