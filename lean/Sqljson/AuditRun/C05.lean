import Sqljson.Audit
import Sqljson.Props.C05
#audit_ns C05 Sqljson.C05
