import Sqljson.Audit
import Sqljson.Props.Fuel
import Sqljson.Props.C05
import Sqljson.Props.C05b
import Sqljson.Props.GenFacts
#audit_ns C05 Sqljson.C05
#audit C05 [Sqljson.GenFacts.raise_unchanged]
#audit_ns C05 Sqljson.FuelProps
#audit C05 [Sqljson.Exec.Fuel.sim_all, Sqljson.Exec.Fuel.adequate_all]
#audit_ns C05 Sqljson.C05b
#audit C05 [Sqljson.Exec.Total.tot_all, Sqljson.IntFloat.intTextIsFloat]
