import Sqljson.Audit
import Sqljson.Props.C15
import Sqljson.Props.C15b
#audit_ns C15 Sqljson.C15
#audit_ns C15 Sqljson.C15b
