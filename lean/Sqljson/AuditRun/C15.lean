import Sqljson.Audit
import Sqljson.Props.C15
#audit_ns C15 Sqljson.C15
