import Sqljson.Audit
import Sqljson.Props.C12
#audit_ns C12 Sqljson.C12
