import Sqljson.Audit
import Sqljson.Props.C12
import Sqljson.Props.C12b
#audit_ns C12 Sqljson.C12
#audit_ns C12 Sqljson.C12b
