import Sqljson.Audit
import Sqljson.Props.C04
import Sqljson.Props.GenFacts
import Sqljson.Props.GenLinks
import Sqljson.Props.C04b
import Sqljson.Props.C04c
open Sqljson
#audit_ns C04 Sqljson.C04
#audit C04 [Sqljson.GenLinks.keywords_link, Sqljson.GenLinks.keywords_complete, Sqljson.GenLinks.priorities_link, Sqljson.GenLinks.enums_link, Sqljson.GenFacts.enums_unchanged, Sqljson.GenFacts.priorities_unchanged, Sqljson.GenFacts.keywords_unchanged, Sqljson.GenFacts.parser_writes_are_per_call, Sqljson.GenFacts.ast_writes_are_construction, Sqljson.GenFacts.path_writes_are_receivers, Sqljson.GenFacts.no_package_var_writes, Sqljson.GenFacts.no_package_var_uses, Sqljson.GenFacts.in_place_calls_are_local, Sqljson.GenFacts.no_unsafe_or_sync, Sqljson.GenFacts.no_goroutines]
#audit_ns C04 Sqljson.C04b
#audit_ns C04 Sqljson.C04c
