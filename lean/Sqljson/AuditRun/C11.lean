import Sqljson.Audit
import Sqljson.Props.C11
#audit_ns C11 Sqljson.C11
