import Sqljson.Audit
import Sqljson.Props.C11
open Sqljson
#audit C11 [C11.and_table, C11.or_table, C11.not_table, C11.is_unknown_two_valued, C11.is_unknown_cancelled,
  C11.kand_comm, C11.kor_comm, C11.knot_knot, C11.de_morgan_and, C11.de_morgan_or,
  C11.and_comm_value, C11.or_comm_value, C11.and_left_error, C11.or_left_error,
  C11.exists_lax, C11.exists_strict, C11.top_level]
