import Sqljson.Audit
import Sqljson.Props.C19
open Sqljson
#audit_ns C19 Sqljson.C19
#audit C19 [Sqljson.GenFacts.no_goroutines, Sqljson.GenFacts.no_unsafe_or_sync, Sqljson.GenFacts.no_package_var_writes, Sqljson.GenFacts.no_package_var_uses, Sqljson.GenFacts.in_place_calls_are_local,
  Sqljson.GenFacts.exec_writes_are_per_call, Sqljson.GenFacts.ast_writes_are_construction,
  Sqljson.GenFacts.types_writes_are_receivers, Sqljson.GenFacts.path_writes_are_receivers,
  Sqljson.GenFacts.parser_writes_are_per_call]
