import Sqljson.Audit
import Sqljson.Props.C18
open Sqljson
#audit_ns C18 Sqljson.C18
#audit C18 [Sqljson.Time.civilFromDays_daysFromCivil, Sqljson.Time.civilFromDays_spec, Sqljson.Time.newDate_eq, Sqljson.Time.newTime_eq, Sqljson.Time.newTimeTZ_eq, Sqljson.Time.newTimestamp_eq, Sqljson.Time.newTimestampTZ_eq, Sqljson.Time.date_roundtrip, Sqljson.Time.timestamp_roundtrip, Sqljson.Time.date_roundtrip_fixed, Sqljson.Time.timestamp_roundtrip_fixed, Sqljson.Time.Zone.resolves_fixed, Sqljson.Time.Zone.resolves_of_first, Sqljson.Time.Zone.lookup_off, Sqljson.Time.unmarshalJSON_never_panics, Sqljson.Time.unmarshalJSON_short, Sqljson.Time.layout_date, Sqljson.Time.layout_timeFormat, Sqljson.Time.layout_timeTZOutput, Sqljson.Time.layout_timestampFormat, Sqljson.Time.layout_timestampTZOutput]
