import Sqljson.Audit
import Sqljson.Props.C14
import Sqljson.Props.C14b
#audit_ns C14 Sqljson.C14
#audit_ns C14 Sqljson.C14b
