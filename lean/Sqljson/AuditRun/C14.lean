import Sqljson.Audit
import Sqljson.Props.C14
#audit_ns C14 Sqljson.C14
