import Sqljson.Audit
import Sqljson.Props.C20
#audit_ns C20 Sqljson.C20
