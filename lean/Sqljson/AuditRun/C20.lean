import Sqljson.Audit
import Sqljson.Props.C20
import Sqljson.Props.C20b
import Sqljson.Props.GenFacts
#audit_ns C20 Sqljson.C20
#audit_ns C20 Sqljson.C20b
#audit C20 [Sqljson.Exec.Cancel.sim_all, Sqljson.Exec.Cancel.mono_all, Sqljson.Api.Cancel.run_sim]
#audit C20 [Sqljson.GenFacts.cancel_site_class, Sqljson.GenFacts.raise_unchanged]
