import Sqljson.Audit
import Sqljson.Props.C20
import Sqljson.Props.GenFacts
#audit_ns C20 Sqljson.C20
#audit C20 [Sqljson.GenFacts.cancel_site_class, Sqljson.GenFacts.raise_unchanged]
