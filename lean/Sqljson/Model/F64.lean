/-!
# Soft IEEE-754 binary64 (`float64`) over `Nat`/`Int`

Value of `fin neg m e` is `(-1)^neg * m * 2^e`.  Canonical form (`F64.WF`):
`m = 0 → e = minExp`, `m < 2^52 → e = minExp` (subnormal), otherwise
`2^52 ≤ m < 2^53` and `minExp ≤ e ≤ maxExp`.

Everything here is core Lean only (the driver is a `lean_exe`).  Rounding is done from a
pair of naturals `num / den` (`roundPos`), never from `Rat`.
-/

namespace Sqljson

inductive F64 where
  | nan
  | inf (neg : Bool)
  | fin (neg : Bool) (m : Nat) (e : Int)
deriving Repr, DecidableEq, Inhabited

namespace F64

def minExp : Int := -1074
def maxExp : Int := 971

def zero (neg : Bool := false) : F64 := .fin neg 0 minExp

/-- quotient, remainder and divisor of num/den scaled by 2^(-e) -/
def qr (num den : Nat) (e : Int) : Nat × Nat × Nat :=
  if e ≥ 0 then (num / (den * 2 ^ e.toNat), num % (den * 2 ^ e.toNat), den * 2 ^ e.toNat)
  else (num * 2 ^ (-e).toNat / den, num * 2 ^ (-e).toNat % den, den)

/-- exponent at which the quotient has 53 significant bits, clamped at the subnormal exponent -/
def pickExp (num den : Nat) : Int :=
  let e0 : Int := (Nat.log2 num : Int) - (Nat.log2 den : Int) - 52
  let e1 := if (qr num den e0).1 ≥ 2 ^ 53 then e0 + 1 else if (qr num den e0).1 < 2 ^ 52 then e0 - 1 else e0
  if e1 < minExp then minExp else e1

def halfEven (q r d : Nat) : Nat :=
  if 2 * r > d then q + 1 else if 2 * r < d then q else (if q % 2 = 1 then q + 1 else q)

def finish (neg : Bool) (m : Nat) (e : Int) : F64 := if e > maxExp then .inf neg else .fin neg m e

/-- round `num/den` (`den > 0`) to nearest-even binary64 with sign `neg` -/
def roundPos (neg : Bool) (num den : Nat) : F64 :=
  if num = 0 then .fin neg 0 minExp else
  let e := pickExp num den
  let t := qr num den e
  let q' := halfEven t.1 t.2.1 t.2.2
  if q' = 2 ^ 53 then finish neg (2 ^ 52) (e + 1) else finish neg q' e

/-- exact value as a fraction `n / d` with `d` a power of two (finite values only) -/
def toQ : F64 → Int × Nat
  | .fin neg m e =>
    let n : Int := if e ≥ 0 then (m * 2 ^ e.toNat : Nat) else (m : Int)
    let d : Nat := if e ≥ 0 then 1 else 2 ^ (-e).toNat
    (if neg then -n else n, d)
  | _ => (0, 1)

/-- round the signed fraction `n / d`; a zero result takes sign `zneg` -/
def ofQ (n : Int) (d : Nat) (zneg : Bool := false) : F64 :=
  if n = 0 then .fin zneg 0 minExp else roundPos (n < 0) n.natAbs d

def ofInt (i : Int) : F64 := ofQ i 1

def ofNat (n : Nat) : F64 := ofQ n 1

def isNaN : F64 → Bool | .nan => true | _ => false
def isInf : F64 → Bool | .inf _ => true | _ => false
def isFinite : F64 → Bool | .fin .. => true | _ => false
def isZero : F64 → Bool | .fin _ 0 _ => true | _ => false
def signBit : F64 → Bool | .nan => false | .inf n => n | .fin n _ _ => n

def neg : F64 → F64
  | .nan => .nan
  | .inf n => .inf (!n)
  | .fin n m e => .fin (!n) m e

def abs : F64 → F64
  | .nan => .nan
  | .inf _ => .inf false
  | .fin _ m e => .fin false m e

def add (a b : F64) : F64 :=
  match a, b with
  | .nan, _ | _, .nan => .nan
  | .inf x, .inf y => if x = y then .inf x else .nan
  | .inf x, _ => .inf x
  | _, .inf y => .inf y
  | .fin na ma _, .fin nb mb _ =>
    if ma = 0 ∧ mb = 0 then .fin (na && nb) 0 minExp
    else
      let qa := toQ a
      let qb := toQ b
      ofQ (qa.1 * qb.2 + qb.1 * qa.2) (qa.2 * qb.2)

def sub (a b : F64) : F64 := add a (neg b)

def mul (a b : F64) : F64 :=
  match a, b with
  | .nan, _ | _, .nan => .nan
  | .inf x, .inf y => .inf (x != y)
  | .inf x, .fin ny my _ => if my = 0 then .nan else .inf (x != ny)
  | .fin nx mx _, .inf y => if mx = 0 then .nan else .inf (nx != y)
  | .fin na _ _, .fin nb _ _ =>
    let qa := toQ a
    let qb := toQ b
    ofQ (qa.1 * qb.1) (qa.2 * qb.2) (na != nb)

def div (a b : F64) : F64 :=
  match a, b with
  | .nan, _ | _, .nan => .nan
  | .inf _, .inf _ => .nan
  | .inf x, .fin ny _ _ => .inf (x != ny)
  | .fin nx _ _, .inf y => .fin (nx != y) 0 minExp
  | .fin na ma _, .fin nb mb _ =>
    if mb = 0 then (if ma = 0 then .nan else .inf (na != nb))
    else
      let qa := toQ a
      let qb := toQ b
      -- (na/da) / (nb/db) = (na*db) / (da*nb); keep the denominator positive
      let num : Int := qa.1 * qb.2
      let den : Int := qa.2 * qb.1
      ofQ (if den < 0 then -num else num) den.natAbs (na != nb)

/-- Go `math.Mod(x, y)`: sign of `x`, magnitude less than `|y|`, exact. -/
def fmod (a b : F64) : F64 :=
  match a, b with
  | .nan, _ | _, .nan => .nan
  | .inf _, _ => .nan
  | .fin n m e, .inf _ => .fin n m e
  | .fin na ma ea, .fin _ mb eb =>
    if mb = 0 then .nan
    else if ma = 0 then .fin na 0 minExp
    else
      -- both magnitudes as integers over the common denominator 2^k
      let lo := if ea < eb then ea else eb
      let x : Nat := ma * 2 ^ (ea - lo).toNat
      let y : Nat := mb * 2 ^ (eb - lo).toNat
      let r : Nat := x % y
      if r = 0 then .fin na 0 minExp
      else if lo ≥ 0 then roundPos na (r * 2 ^ lo.toNat) 1 else roundPos na r (2 ^ (-lo).toNat)

/-- integer part toward zero of a finite value, as a signed integer -/
def truncInt : F64 → Int
  | .fin neg m e =>
    let n : Nat := if e ≥ 0 then m * 2 ^ e.toNat else m / 2 ^ (-e).toNat
    if neg then -(n : Int) else n
  | _ => 0

/-- does the finite value have a fractional part? -/
def hasFrac : F64 → Bool
  | .fin _ m e => if e ≥ 0 then false else m % 2 ^ (-e).toNat != 0
  | _ => false

/-- `2 * frac ≥ 1`?  (for `math.Round`, half away from zero) -/
def fracGeHalf : F64 → Bool
  | .fin _ m e => if e ≥ 0 then false else 2 * (m % 2 ^ (-e).toNat) ≥ 2 ^ (-e).toNat
  | _ => false

/-- an integer-valued result with the sign of the argument preserved for zero -/
def ofIntSigned (neg : Bool) (i : Int) : F64 := ofQ i 1 neg

def trunc : F64 → F64
  | .fin neg m e => if e ≥ 0 then .fin neg m e else ofIntSigned neg (truncInt (.fin neg m e))
  | x => x

def floor : F64 → F64
  | .fin neg m e =>
    if e ≥ 0 then .fin neg m e
    else
      let t := truncInt (.fin neg m e)
      if neg && hasFrac (.fin neg m e) then ofIntSigned neg (t - 1) else ofIntSigned neg t
  | x => x

def ceil : F64 → F64
  | .fin neg m e =>
    if e ≥ 0 then .fin neg m e
    else
      let t := truncInt (.fin neg m e)
      if !neg && hasFrac (.fin neg m e) then ofIntSigned neg (t + 1) else ofIntSigned neg t
  | x => x

/-- Go `math.Round`: nearest integer, halves away from zero. -/
def round : F64 → F64
  | .fin neg m e =>
    if e ≥ 0 then .fin neg m e
    else
      let t := truncInt (.fin neg m e)
      if fracGeHalf (.fin neg m e) then ofIntSigned neg (if neg then t - 1 else t + 1)
      else ofIntSigned neg t
  | x => x

/-- three-way comparison of finite/infinite values; `none` when unordered (NaN) -/
def cmp (a b : F64) : Option Ordering :=
  match a, b with
  | .nan, _ | _, .nan => none
  | .inf x, .inf y => some (if x = y then .eq else if x then .lt else .gt)
  | .inf x, .fin .. => some (if x then .lt else .gt)
  | .fin .., .inf y => some (if y then .gt else .lt)
  | .fin .., .fin .. =>
    let qa := toQ a
    let qb := toQ b
    let l : Int := qa.1 * qb.2
    let r : Int := qb.1 * qa.2
    some (if l < r then .lt else if l > r then .gt else .eq)

def lt (a b : F64) : Bool := cmp a b == some .lt
def gt (a b : F64) : Bool := cmp a b == some .gt
def feq (a b : F64) : Bool := cmp a b == some .eq

def two63 : Int := 9223372036854775808

/-- Go `int64(f)` on amd64 (`CVTTSD2SQ`): truncation; NaN and out-of-range give `-2^63`. -/
def toInt64 : F64 → Int
  | .fin neg m e =>
    let t := truncInt (.fin neg m e)
    if t ≥ two63 ∨ t < -two63 then -two63 else t
  | _ => -two63

/-- `math.Pow10(n)` as go1.23.5 writes it (`math/pow10.go`): the rounded product
    `pow10postab32[n/32] * pow10tab[n%32]` for `0 ≤ n ≤ 308`, the rounded quotient
    `pow10negtab32[-n/32] / pow10tab[-n%32]` for `-323 ≤ n ≤ 0` — the table entries are the literals
    `1e<k>`, `1e-<k>`, which the compiler rounds correctly. It is *not* the double nearest to `10^n` at
    169 of these scales (the nearest to zero are 33 and −23). -/
def pow10 (n : Int) : F64 :=
  if 0 ≤ n ∧ n ≤ 308 then
    mul (roundPos false (10 ^ (32 * (n.toNat / 32))) 1) (roundPos false (10 ^ (n.toNat % 32)) 1)
  else if -323 ≤ n ∧ n ≤ 0 then
    div (roundPos false 1 (10 ^ (32 * ((-n).toNat / 32)))) (roundPos false (10 ^ ((-n).toNat % 32)) 1)
  else if n > 0 then .inf false else .fin false 0 minExp

def maxInt64F : F64 := ofInt (two63 - 1)   -- float64(math.MaxInt64) = 2^63
def minInt64F : F64 := ofInt (-two63)

/-! ## bit pattern -/

def toBits : F64 → Nat
  | .nan => 0x7FF8000000000001
  | .inf neg => if neg then 0xFFF0000000000000 else 0x7FF0000000000000
  | .fin neg m e =>
    let s : Nat := if neg then 0x8000000000000000 else 0
    if m < 2 ^ 52 then s + m
    else s + (e + 1075).toNat * 2 ^ 52 + (m - 2 ^ 52)

def ofBits (b : Nat) : F64 :=
  let neg : Bool := b / 2 ^ 63 % 2 = 1
  let ex : Nat := b / 2 ^ 52 % 2048
  let fr : Nat := b % 2 ^ 52
  if ex = 2047 then (if fr = 0 then .inf neg else .nan)
  else if ex = 0 then .fin neg fr minExp
  else .fin neg (2 ^ 52 + fr) ((ex : Int) - 1075)

/-- canonical form -/
def WF : F64 → Prop
  | .fin _ m e => (m < 2 ^ 52 → e = minExp) ∧ (2 ^ 52 ≤ m → m < 2 ^ 53 ∧ minExp ≤ e ∧ e ≤ maxExp)
  | _ => True

end F64
end Sqljson
