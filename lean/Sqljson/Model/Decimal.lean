import Sqljson.Model.F64
/-!
# Text ↔ number conversions of Go's `strconv` that the package relies on

* `parseInt10 bits s`   — `strconv.ParseInt(s, 10, bits)`
* `parseFloat s`        — `strconv.ParseFloat(s, 64)` (decimal, hex-float, inf/nan forms)
* `formatInt i`         — `strconv.FormatInt(i, 10)`
* `formatF x`           — `strconv.FormatFloat(x, 'f', -1, 64)`
* `jsonFloat x`         — `json.Marshal(float64)` text
* `jnumInt64`, `jnumFloat64` — `json.Number.Int64()`, `.Float64()`

All over `List Char`.  `parseFloat` is exact-rational-then-round (Go's is correctly rounded);
`formatF` is the shortest digit string that parses back, closest to the value (Go's contract).
-/

namespace Sqljson
namespace Decimal

def isDigit (c : Char) : Bool := '0' ≤ c && c ≤ '9'
def digitVal (c : Char) : Nat := c.toNat - '0'.toNat

def lowerC (c : Char) : Char := if 'A' ≤ c && c ≤ 'Z' then Char.ofNat (c.toNat + 32) else c

/-- leading run of decimal digits: value, count, rest -/
def takeDigits : List Char → Nat → Nat → Nat × Nat × List Char
  | c :: cs, acc, n => if isDigit c then takeDigits cs (acc * 10 + digitVal c) (n + 1) else (acc, n, c :: cs)
  | [], acc, n => (acc, n, [])

inductive IntErr | syntax | range
deriving Repr, DecidableEq

/-- `strconv.ParseInt(s, 10, bits)`: optional sign, decimal digits only. -/
def parseInt10 (bits : Nat) (s : List Char) : Except IntErr Int :=
  let (neg, body) := match s with
    | '+' :: r => (false, r)
    | '-' :: r => (true, r)
    | r => (false, r)
  match takeDigits body 0 0 with
  | (v, n, []) =>
    if n = 0 then .error .syntax
    else
      let lim : Nat := 2 ^ (bits - 1)
      if neg then (if v > lim then .error .range else .ok (-(v : Int)))
      else (if v ≥ lim then .error .range else .ok (v : Int))
  | _ => .error .syntax

inductive FloatErr | syntax | range
deriving Repr, DecidableEq

def eqFold (s : List Char) (t : String) : Bool := s.map lowerC == t.toList

/-- mantissa digits `[0-9]*[.][0-9]*` : (mantissa, digits seen, fractional digits, rest) -/
def takeMant : List Char → Nat → Nat → Nat → Bool → Nat × Nat × Nat × Bool × List Char
  | c :: cs, acc, nd, nf, dot =>
    if isDigit c then takeMant cs (acc * 10 + digitVal c) (nd + 1) (if dot then nf + 1 else nf) dot
    else if c = '.' && !dot then takeMant cs acc nd nf true
    else (acc, nd, nf, dot, c :: cs)
  | [], acc, nd, nf, dot => (acc, nd, nf, dot, [])

def isHexDigit (c : Char) : Bool :=
  isDigit c || ('a' ≤ c && c ≤ 'f') || ('A' ≤ c && c ≤ 'F')
def hexVal (c : Char) : Nat :=
  if isDigit c then digitVal c else if 'a' ≤ c && c ≤ 'f' then c.toNat - 'a'.toNat + 10 else c.toNat - 'A'.toNat + 10

def takeHexMant : List Char → Nat → Nat → Nat → Bool → Nat × Nat × Nat × Bool × List Char
  | c :: cs, acc, nd, nf, dot =>
    if isHexDigit c then takeHexMant cs (acc * 16 + hexVal c) (nd + 1) (if dot then nf + 1 else nf) dot
    else if c = '.' && !dot then takeHexMant cs acc nd nf true
    else (acc, nd, nf, dot, c :: cs)
  | [], acc, nd, nf, dot => (acc, nd, nf, dot, [])

/-- optional exponent `[eE][+-]?[0-9]+` (or `p` for hex): `none` = malformed, `some (exp, rest)` -/
def takeExp (marker : Char) : List Char → Option (Int × List Char)
  | c :: cs =>
    if lowerC c = marker then
      let (eneg, body) := match cs with
        | '+' :: r => (false, r)
        | '-' :: r => (true, r)
        | r => (false, r)
      match takeDigits body 0 0 with
      | (v, n, rest) =>
        if n = 0 then none
        else
          -- Go caps the exponent so that it cannot overflow an int; any cap ≥ 10000 is equivalent
          let v := if v > 100000 then 100000 else v
          some (if eneg then -(v : Int) else v, rest)
    else some (0, c :: cs)
  | [] => some (0, [])

def digitCount (n : Nat) : Nat := (Nat.toDigits 10 n).length

/-- value `m * 10^e10` rounded to binary64 -/
def scale10 (neg : Bool) (m : Nat) (e10 : Int) : F64 :=
  if m = 0 then .fin neg 0 F64.minExp
  else
    let d : Int := digitCount m
    if d + e10 > 310 then .inf neg
    else if d + e10 < -330 then .fin neg 0 F64.minExp
    else if e10 ≥ 0 then F64.roundPos neg (m * 10 ^ e10.toNat) 1
    else F64.roundPos neg m (10 ^ (-e10).toNat)

/-- value `m * 2^e2` rounded to binary64 -/
def scale2 (neg : Bool) (m : Nat) (e2 : Int) : F64 :=
  if m = 0 then .fin neg 0 F64.minExp
  else
    let d : Int := Nat.log2 m
    if d + e2 > 1030 then .inf neg
    else if d + e2 < -1080 then .fin neg 0 F64.minExp
    else if e2 ≥ 0 then F64.roundPos neg (m * 2 ^ e2.toNat) 1
    else F64.roundPos neg m (2 ^ (-e2).toNat)

/-- `strconv.underscoreOK`: underscores only between digits (a base prefix counts as a digit) -/
def underscoreOK (s : List Char) : Bool :=
  let s1 := match s with | '-' :: r => r | '+' :: r => r | r => r
  let (hex, saw0, body) : Bool × Char × List Char :=
    match s1 with
    | '0' :: x :: rest =>
      if lowerC x = 'b' || lowerC x = 'o' || lowerC x = 'x' then (lowerC x = 'x', '0', rest) else (false, '^', s1)
    | _ => (false, '^', s1)
  let rec go (hex : Bool) : List Char → Char → Bool
    | [], saw => saw != '_'
    | c :: cs, saw =>
      if isDigit c || (hex && 'a' ≤ lowerC c && lowerC c ≤ 'f') then go hex cs '0'
      else if c = '_' then (if saw != '0' then false else go hex cs '_')
      else if saw = '_' then false
      else go hex cs '!'
  go hex body saw0

/-- `strconv.ParseFloat(s, 64)`: the text without underscores, which must be placed as
    `underscoreOK` allows -/
def parseFloatNoUnderscore (s : List Char) : Except FloatErr F64 :=
  let (neg, body) := match s with
    | '+' :: r => (false, r)
    | '-' :: r => (true, r)
    | r => (false, r)
  if eqFold body "inf" || eqFold body "infinity" then .ok (.inf neg)
  else if eqFold s "nan" then .ok .nan
  else
    match body with
    | '0' :: x :: rest =>
      if lowerC x = 'x' then
        match takeHexMant rest 0 0 0 false with
        | (m, nd, nf, _, rest') =>
          if nd = 0 then .error .syntax
          else match rest' with
            | c :: _ =>
              if lowerC c = 'p' then
                match takeExp 'p' rest' with
                | some (e, []) =>
                  let r := scale2 neg m (e - 4 * (nf : Int))
                  if r.isInf then .error .range else .ok r
                | _ => .error .syntax
              else .error .syntax
            | [] => .error .syntax   -- hexadecimal mantissa requires a 'p' exponent
      else dec neg body
    | _ => dec neg body
where
  dec (neg : Bool) (body : List Char) : Except FloatErr F64 :=
    match takeMant body 0 0 0 false with
    | (m, nd, nf, _, rest) =>
      if nd = 0 then .error .syntax
      else match takeExp 'e' rest with
        | some (e, []) =>
          let r := scale10 neg m (e - (nf : Int))
          if r.isInf then .error .range else .ok r
        | _ => .error .syntax

/-- `strconv.ParseFloat(s, 64)` -/
def parseFloat (s : List Char) : Except FloatErr F64 :=
  if s.contains '_' then
    (if underscoreOK s then parseFloatNoUnderscore (s.filter (· != '_')) else .error .syntax)
  else parseFloatNoUnderscore s

def formatNat (n : Nat) : List Char := Nat.toDigits 10 n

def formatInt (i : Int) : List Char :=
  if i < 0 then '-' :: formatNat i.natAbs else formatNat i.natAbs

/-! ## shortest round-trip digits -/

/-- `10^k ≤ num/den < 10^(k+1)` : find k (num, den > 0) by search from an estimate -/
def log10Floor (num den : Nat) : Int :=
  -- estimate from digit counts, then correct by at most a few steps
  let est : Int := (digitCount num : Int) - (digitCount den : Int)
  let ge (k : Int) : Bool :=   -- num/den ≥ 10^k
    if k ≥ 0 then num ≥ den * 10 ^ k.toNat else num * 10 ^ (-k).toNat ≥ den
  let k := if ge (est + 1) then est + 1 else if ge est then est else if ge (est - 1) then est - 1 else est - 2
  k

/-- digits (as a natural with `n` digits, possibly `10^n` after carry) nearest-below of
    `num/den / 10^(k+1-n)`: quotient and whether exact, plus remainder comparison with half -/
def scaledQuot (num den : Nat) (p : Int) : Nat × Nat × Nat :=
  -- num/den / 10^p  = (q, r, d)
  if p ≥ 0 then (num / (den * 10 ^ p.toNat), num % (den * 10 ^ p.toNat), den * 10 ^ p.toNat)
  else (num * 10 ^ (-p).toNat / den, num * 10 ^ (-p).toNat % den, den)

/-- does the decimal `c * 10^p` parse back to `(m, e)`? -/
def roundTrips (m : Nat) (e : Int) (c : Nat) (p : Int) : Bool :=
  scale10 false c p == .fin false m e

/-- search digit counts `n = i, i+1, …` (fuel bounded) for the shortest representation -/
def shortestFrom (m : Nat) (e : Int) (num den : Nat) (k : Int) : Nat → Nat → Nat × Int
  | 0, _ => (m, e)   -- unreachable: 17 digits always round-trip
  | fuel + 1, n =>
    let p : Int := k + 1 - (n : Int)
    let (q, r, d) := scaledQuot num den p
    let okdown := q ≠ 0 && roundTrips m e q p
    let okup := roundTrips m e (q + 1) p
    if r = 0 && okdown then (q, p)
    else if okdown && okup then
      -- nearest; tie → even last digit
      if 2 * r < d then (q, p) else if 2 * r > d then (q + 1, p) else (if q % 2 = 0 then (q, p) else (q + 1, p))
    else if okdown then (q, p)
    else if okup then (q + 1, p)
    else shortestFrom m e num den k fuel (n + 1)

/-- shortest decimal `(digits, exp10)` with `digits * 10^exp10` parsing back to `fin _ m e`, `m ≠ 0` -/
def shortest (m : Nat) (e : Int) : Nat × Int :=
  let num : Nat := if e ≥ 0 then m * 2 ^ e.toNat else m
  let den : Nat := if e ≥ 0 then 1 else 2 ^ (-e).toNat
  let k := log10Floor num den
  let (c, p) := shortestFrom m e num den k 18 1
  -- strip trailing zeros of c (carry case 99→100)
  strip c p 20
where
  strip (c : Nat) (p : Int) : Nat → Nat × Int
    | 0 => (c, p)
    | f + 1 => if c ≠ 0 && c % 10 = 0 then strip (c / 10) (p + 1) f else (c, p)

def zeros (n : Nat) : List Char := List.replicate n '0'

/-- `%f`-style layout of `digits * 10^p` (digits without trailing zeros) -/
def layoutF (digs : List Char) (p : Int) : List Char :=
  if p ≥ 0 then digs ++ zeros p.toNat
  else
    let nfrac := (-p).toNat
    if digs.length > nfrac then
      digs.take (digs.length - nfrac) ++ '.' :: digs.drop (digs.length - nfrac)
    else '0' :: '.' :: zeros (nfrac - digs.length) ++ digs

/-- `strconv.FormatFloat(x, 'f', -1, 64)` -/
def formatF : F64 → List Char
  | .nan => "NaN".toList
  | .inf neg => if neg then "-Inf".toList else "+Inf".toList
  | .fin neg m e =>
    let sign := if neg then ['-'] else []
    if m = 0 then sign ++ ['0']
    else
      let (c, p) := shortest m e
      sign ++ layoutF (formatNat c) p

/-- `%e`-style layout as cleaned by `encoding/json`: `d.ddde±x` with at least one exponent digit
    (`e-07` → `e-7`; Go prints at least two exponent digits, json strips the zero of `e-0x` only). -/
def layoutE (digs : List Char) (p : Int) : List Char :=
  let x : Int := p + (digs.length : Int) - 1
  let mant := match digs with
    | [d] => [d]
    | d :: ds => d :: '.' :: ds
    | [] => ['0']
  let ax := x.natAbs
  let exdig := if ax < 10 then (if x < 0 then formatNat ax else '0' :: formatNat ax) else formatNat ax
  mant ++ 'e' :: (if x < 0 then '-' else '+') :: exdig

/-- `json.Marshal(float64)` text (finite values; the encoder rejects NaN/Inf) -/
def jsonFloat : F64 → Option (List Char)
  | .fin neg m e =>
    let sign := if neg then ['-'] else []
    if m = 0 then some (sign ++ ['0'])
    else
      let (c, p) := shortest m e
      let digs := formatNat c
      let x : Int := p + (digs.length : Int) - 1   -- decimal exponent of the leading digit
      -- 'e' format when |x| < 1e-6 or ≥ 1e21
      if x < -6 ∨ x ≥ 21 then some (sign ++ layoutE digs p) else some (sign ++ layoutF digs p)
  | _ => none

/-! ## json.Number -/

def jnumInt64 (s : List Char) : Except IntErr Int := parseInt10 64 s
def jnumFloat64 (s : List Char) : Except FloatErr F64 := parseFloat s

end Decimal
end Sqljson
