import Sqljson.Model.Json
import Sqljson.Model.Ast
/-!
# Numeric helpers — mirror of `exec/compare.go` (numbers), `exec/math.go`, `exec/util.go`,
and the callbacks of `exec/method.go`

`int64` arithmetic is `Int` arithmetic followed by `wrap64`, so overflow is visible.  Binary `+ - * /` on two
integers whose exact result leaves the int64 range is carried out on doubles instead (`int64Math`); unary minus and
`.abs()` still wrap (`applyI`).
-/

namespace Sqljson
namespace Num

def two64 : Int := 18446744073709551616
def two63 : Int := 9223372036854775808

/-- two's-complement wrap into the int64 range -/
def wrap64 (i : Int) : Int := (i + two63) % two64 - two63

def maxInt32 : Int := 2147483647
def minInt32 : Int := -2147483648

/-- the two ways a `json.Number` is read by the executor -/
inductive JCast | int (i : Int) | flt (f : F64) | bad
deriving Repr, DecidableEq

/-- `num.Int64()` first, then `num.Float64()` (the pattern of `castJSONNumber`) -/
def jcast (s : List Char) : JCast :=
  match Decimal.jnumInt64 s with
  | .ok i => .int i
  | .error _ =>
    match Decimal.jnumFloat64 s with
    | .ok f => .flt f
    | .error _ => .bad

/-- `compareNumbers` on float64: NaN compares "equal" to everything (both `<` and `>` are false) -/
def cmpF (a b : F64) : Int := if F64.lt a b then -1 else if F64.gt a b then 1 else 0

def cmpI (a b : Int) : Int := if a < b then -1 else if a > b then 1 else 0

/-- a numeric item after the json.Number normalisation step of `compareNumeric` / `execMathOp` -/
inductive N | int (i : Int) | flt (f : F64)
deriving Repr, DecidableEq

/-- `compareNumeric(left, right)`; `none` = the Go code panics (json.Number that parses as neither). -/
def compareNumeric (l r : Item) : Option Int :=
  match l with
  | .int a =>
    match r with
    | .int b => some (cmpI a b)
    | .flt b => some (cmpF (F64.ofInt a) b)
    | .jnum s =>
      match Decimal.jnumInt64 s with
      | .ok b => some (cmpI a b)
      | .error _ =>
        match Decimal.jnumFloat64 s with
        | .ok b => some (cmpF (F64.ofInt a) b)
        | .error _ => none
    | _ => none
  | .flt a =>
    match r with
    | .flt b => some (cmpF a b)
    | .int b => some (cmpF a (F64.ofInt b))
    | .jnum s =>
      match Decimal.jnumFloat64 s with
      | .ok b => some (cmpF a b)
      | .error _ => none
    | _ => none
  | .jnum s =>
    match Decimal.jnumInt64 s with
    | .ok a => compareNumericI a r
    | .error _ =>
      match Decimal.jnumFloat64 s with
      | .ok a => compareNumericF a r
      | .error _ => none
  | _ => none
where
  compareNumericI (a : Int) (r : Item) : Option Int :=
    match r with
    | .int b => some (cmpI a b)
    | .flt b => some (cmpF (F64.ofInt a) b)
    | .jnum s =>
      match Decimal.jnumInt64 s with
      | .ok b => some (cmpI a b)
      | .error _ =>
        match Decimal.jnumFloat64 s with
        | .ok b => some (cmpF (F64.ofInt a) b)
        | .error _ => none
    | _ => none
  compareNumericF (a : F64) (r : Item) : Option Int :=
    match r with
    | .flt b => some (cmpF a b)
    | .int b => some (cmpF a (F64.ofInt b))
    | .jnum s =>
      match Decimal.jnumFloat64 s with
      | .ok b => some (cmpF a b)
      | .error _ => none
    | _ => none

inductive MathErr | divZero | leftOperand | rightOperand | notMath
deriving Repr, DecidableEq

/-- `executeIntegerMath` -/
def integerMath (l r : Int) (op : BinOp) : Except MathErr Int :=
  match op with
  | .add => .ok (wrap64 (l + r))
  | .sub => .ok (wrap64 (l - r))
  | .mul => .ok (wrap64 (l * r))
  | .div => if r = 0 then .error .divZero else .ok (wrap64 (Int.tdiv l r))
  | .mod => if r = 0 then .error .divZero else .ok (wrap64 (Int.tmod l r))
  | _ => .error .notMath

/-- `executeFloatMath` -/
def floatMath (l r : F64) (op : BinOp) : Except MathErr F64 :=
  match op with
  | .add => .ok (F64.add l r)
  | .sub => .ok (F64.sub l r)
  | .mul => .ok (F64.mul l r)
  | .div => if F64.feq r (F64.zero) then .error .divZero else .ok (F64.div l r)
  | .mod => if F64.feq r (F64.zero) then .error .divZero else .ok (F64.fmod l r)
  | _ => .error .notMath

def liftI (r : Except MathErr Int) : Except MathErr Item := r.map Item.int
def liftF (r : Except MathErr F64) : Except MathErr Item := r.map Item.flt

/-- the exact (unbounded) integer result of the four operators whose result can leave the int64 range -/
def exactInt (l r : Int) (op : BinOp) : Int :=
  match op with
  | .add => l + r
  | .sub => l - r
  | .mul => l * r
  | .div => Int.tdiv l r
  | _ => 0

/-- `int64MathOverflows(lhs, rhs, op)`: the exact result of `+ - * /` is outside the int64 range (for `/` that is
    only `MinInt64 / -1`; a zero divisor gives `tdiv l 0 = 0`, i.e. no overflow; `%` and non-math operators never) -/
def int64MathOverflows (l r : Int) (op : BinOp) : Bool := !(Item.inInt64 (exactInt l r op))

/-- `executeInt64Math`: in float64 when the exact result does not fit, else `executeIntegerMath` -/
def int64Math (l r : Int) (op : BinOp) : Except MathErr Item :=
  if int64MathOverflows l r op then liftF (floatMath (F64.ofInt l) (F64.ofInt r) op)
  else liftI (integerMath l r op)

/-- `execMathOp` with the left operand already an int64 -/
def mathOpI (a : Int) (r : Item) (op : BinOp) : Except MathErr Item :=
  match r with
  | .int b => int64Math a b op
  | .flt b => liftF (floatMath (F64.ofInt a) b op)
  | .jnum s =>
    match Decimal.jnumInt64 s with
    | .ok b => int64Math a b op
    | .error _ =>
      match Decimal.jnumFloat64 s with
      | .ok b => liftF (floatMath (F64.ofInt a) b op)
      | .error _ => .error .rightOperand
  | _ => .error .rightOperand

/-- `execMathOp` with the left operand already a float64 -/
def mathOpF (a : F64) (r : Item) (op : BinOp) : Except MathErr Item :=
  match r with
  | .flt b => liftF (floatMath a b op)
  | .int b => liftF (floatMath a (F64.ofInt b) op)
  | .jnum s =>
    match Decimal.jnumFloat64 s with
    | .ok b => liftF (floatMath a b op)
    | .error _ => .error .rightOperand
  | _ => .error .rightOperand

/-- `execMathOp(left, right, op)` -/
def mathOp (l r : Item) (op : BinOp) : Except MathErr Item :=
  match l with
  | .int a => mathOpI a r op
  | .flt a => mathOpF a r op
  | .jnum s =>
    match Decimal.jnumInt64 s with
    | .ok a => mathOpI a r op
    | .error _ =>
      match Decimal.jnumFloat64 s with
      | .ok a => mathOpF a r op
      | .error _ => .error .leftOperand
  | _ => .error .leftOperand

/-! ## int32 extraction -/

inductive I32Err | verbose | invalid
deriving Repr, DecidableEq

def inInt32 (i : Int) : Bool := minInt32 ≤ i && i ≤ maxInt32

/-- `getJSONInt32(val, op)` -/
def getJSONInt32 (v : Item) : Except I32Err Int :=
  let range (n : Int) : Except I32Err Int := if inInt32 n then .ok n else .error .verbose
  match v with
  | .int i => range i
  | .flt f => if f.isInf || f.isNaN then .error .verbose else range (F64.toInt64 f)
  | .jnum s =>
    match Decimal.jnumInt64 s with
    | .ok i => range i
    | .error _ =>
      match Decimal.jnumFloat64 s with
      | .ok f => if f.isInf || f.isNaN then .error .verbose else range (F64.toInt64 f)
      | .error .range => .error .verbose
      | .error .syntax => .error .invalid
  | _ => .error .verbose

/-! ## unary callbacks -/

inductive UCallback | self | uminus | abs | floor | ceil
deriving Repr, DecidableEq

def applyI (cb : UCallback) (x : Int) : Int :=
  match cb with
  | .uminus => wrap64 (-x)
  | .abs => if x < 0 then wrap64 (-x) else x
  | _ => x   -- intSelf for +, floor, ceiling

def applyF (cb : UCallback) (x : F64) : F64 :=
  match cb with
  | .self => x
  | .uminus => F64.neg x
  | .abs => F64.abs x
  | .floor => F64.floor x
  | .ceil => F64.ceil x

/-- `castJSONNumber(num, intCallback, floatCallback)` -/
def castJSONNumber (s : List Char) (cb : UCallback) : Option Item :=
  match jcast s with
  | .int i => some (.int (applyI cb i))
  | .flt f => some (.flt (applyF cb f))
  | .bad => none

end Num
end Sqljson
