import Sqljson.Model.Ast
import Sqljson.Model.Decimal
import Sqljson.Model.Lex
/-!
# Parser — the language of `path/parser/grammar.y` with the trees its actions build

`Parse.parse o bytes` mirrors `parser.Parse(string(bytes))`:

* `ok a`   — `Parse` returns the AST `a` and no error,
* `err`    — `Parse` returns an error (`lexer.errors` is non-empty),
* `panic`  — `Parse` panics.  The only panic sites the grammar actions can still reach are
             `ast.NewInteger` / `ast.NewNumeric` inside `ast.NewUnaryOrNumber` (which re-parses
             the negated literal text); `Props/C04` proves they are never taken.

The parser is hand written (recursive descent with precedence climbing), one decision per
non-simple state of the LALR(1) automaton goyacc generates from `grammar.y` (state numbers in the
comments are those of `goyacc -v`).  Two features of the generated parser are reproduced:

1. **Semantic actions run eagerly.**  A reduction that does not depend on the look-ahead (goyacc's
   default reductions) is performed before the next token is examined.
2. **`stopTok` is `-1`, and so is the parser's "no look-ahead" marker.**  `Lex` returns `-1` both at
   the end of the input and after a lexing error; the parser treats it as `$end` for *one* decision
   and then calls `Lex` again, which continues after the offending text.  So the token stream after
   a lexing error is still parsed although the result is discarded.  `peek` below never caches a
   `stop` token, which is exactly that behaviour; every function performs exactly one `peek` per
   automaton state it stands for.

A parser action that records an error (an integer / numeric literal out of range, a level of `.**`
out of range, `.decimal()` with more than two arguments, a regular expression that does not
compile, bad flags) does not stop the parse either; it puts a placeholder node on the value stack
(`parser.go`: `newInteger`, `newNumeric`, `newRegex`, `anyLevel`) and the parse goes on, its result
being discarded at the end because `lexer.errors` is non-empty.
-/

namespace Sqljson
namespace Parse

open Lex (Tok LState)

inductive ParseOutcome
  | ok (a : AST)
  | err
  | panic
deriving Repr, Inhabited

/-! ## `strconv` entry points used by the constructors -/

/-- digit value in `ParseUint` (`0-9`, `a-z`, `A-Z`), `none` for any other byte -/
def digitVal36 (c : Char) : Option Nat :=
  if '0' ≤ c && c ≤ '9' then some (c.toNat - 48)
  else if c.toNat < 128 && 'a' ≤ Lex.lowerBit c && Lex.lowerBit c ≤ 'z' then some ((Lex.lowerBit c).toNat - 87)
  else none

/-- the digit loop of `ParseUint` with `base0`: `none` = syntax error; range is checked by the caller -/
def uintLoop (base : Nat) : List Char → Nat → Option Nat
  | [], n => some n
  | c :: cs, n =>
    if c = '_' then uintLoop base cs n
    else match digitVal36 c with
      | none => none
      | some d => if d ≥ base then none else uintLoop base cs (n * base + d)

/-- base-prefix detection of `ParseUint(s, 0, …)` on `c0 :: r0`: the base and the digits -/
def basePrefix (c0 : Char) (r0 : List Char) : Nat × List Char :=
  if c0 = '0' then
    match r0 with
    | c1 :: r1 =>
      let lc := Lex.lowerBit c1
      if r1 ≠ [] && lc = 'b' then (2, r1)
      else if r1 ≠ [] && lc = 'o' then (8, r1)
      else if r1 ≠ [] && lc = 'x' then (16, r1)
      else (8, r0)
    | [] => (8, r0)
  else (10, c0 :: r0)

/-- the range check of `ParseInt` on the magnitude `n` -/
def intRange (bits : Nat) (neg : Bool) (n : Nat) : Option Int :=
  if neg then (if n > 2 ^ (bits - 1) then none else some (-(n : Int)))
  else (if n ≥ 2 ^ (bits - 1) then none else some (n : Int))

/-- `strconv.ParseInt(s, 0, bits)` after the sign has been taken off: `ParseUint(body, 0, bits)`
    with base prefix detection, then the range check of `ParseInt` -/
def parseIntCore (bits : Nat) (neg : Bool) (body : List Char) : Option Int :=
  match body with
  | [] => none
  | c0 :: r0 =>
    match uintLoop (basePrefix c0 r0).1 (basePrefix c0 r0).2 0 with
    | none => none
    | some n =>
      if body.contains '_' && !Decimal.underscoreOK body then none
      else intRange bits neg n

/-- `strconv.ParseInt(s, 0, bits)`; `none` = any error (syntax or range) -/
def parseIntBase0 (bits : Nat) (s : List Char) : Option Int :=
  match s with
  | '+' :: r => parseIntCore bits false r
  | '-' :: r => parseIntCore bits true r
  | r => parseIntCore bits false r

/-- `strconv.ParseInt(s, 0, 64)` -/
def parseInt0 (s : List Char) : Option Int := parseIntBase0 64 s

/-- `strconv.ParseFloat(s, 64)` succeeding (a range error — ±Inf — is an error); the value is then
    finite, so `json.Marshal` in `NewNumeric` cannot fail either.  `none` = error. -/
def parseFloatFinite (s : List Char) : Option F64 :=
  match Decimal.parseFloat s with
  | .ok f => if (Decimal.jsonFloat f).isSome then some f else none
  | .error _ => none

/-! ## `ast` constructors -/

/-- value of an `expr` / `predicate` nonterminal: the node and, when it is a number, its literal
    text (`numberNode.literal`, re-parsed by `NewUnaryOrNumber`). -/
structure EV where
  node : Node
  lit : List Char := []
deriving Inhabited

/-- `ast.NewAny` on a 64-bit platform; `none` = `-1` (`last`) -/
def newAny (first last : Option Nat) : Node :=
  let clamp : Option Nat → Nat
    | some n => if n < maxU32 then n else maxU32
    | none => maxU32
  .any (clamp first) (clamp last) none

/-- `newRegexFlags`: the bit mask, `none` = error -/
def regexFlags (fl : List Char) : Option Nat :=
  let bits := fl.foldl (fun acc c =>
    match acc with
    | none => none
    | some b =>
      if c = 'i' then some (b ||| flagI) else if c = 's' then some (b ||| flagS)
      else if c = 'm' then some (b ||| flagM) else if c = 'x' then some (b ||| flagX)
      else if c = 'q' then some (b ||| flagQ) else none) (some 0)
  match bits with
  | none => none
  | some b => if b &&& flagQ = 0 && b &&& flagX ≠ 0 then none else some b

/-- append `t` at the end of the `next` chain of `n` -/
def appendEnd : Node → Option Node → Node
  | .const k none, t => .const k t
  | .const k (some m), t => .const k (some (appendEnd m t))
  | .method k none, t => .method k t
  | .method k (some m), t => .method k (some (appendEnd m t))
  | .str k none, t => .str k t
  | .str k (some m), t => .str k (some (appendEnd m t))
  | .var k none, t => .var k t
  | .var k (some m), t => .var k (some (appendEnd m t))
  | .key k none, t => .key k t
  | .key k (some m), t => .key k (some (appendEnd m t))
  | .numeric k none, t => .numeric k t
  | .numeric k (some m), t => .numeric k (some (appendEnd m t))
  | .integer k none, t => .integer k t
  | .integer k (some m), t => .integer k (some (appendEnd m t))
  | .any a b none, t => .any a b t
  | .any a b (some m), t => .any a b (some (appendEnd m t))
  | .binary op l r none, t => .binary op l r t
  | .binary op l r (some m), t => .binary op l r (some (appendEnd m t))
  | .unary op x none, t => .unary op x t
  | .unary op x (some m), t => .unary op x (some (appendEnd m t))
  | .regex x p f none, t => .regex x p f t
  | .regex x p f (some m), t => .regex x p f (some (appendEnd m t))
  | .arrayIndex s none, t => .arrayIndex s t
  | .arrayIndex s (some m), t => .arrayIndex s (some (appendEnd m t))

/-- the chain `LinkNodes` builds from `nodes[1:]` (the accessors are fresh nodes without `next`) -/
def chainOf : List Node → Option Node
  | [] => none
  | n :: rest => some (n.setNext (chainOf rest))

/-! ## Validation (`ast.New` / `validateNode`) -/

mutual
  /-- `validateNode(node, depth, inSubscript) == nil` -/
  def validNode : Node → Nat → Bool → Bool
    | .const k nx, depth, inSub =>
      (match k with
        | .current => depth > 0
        | .last => inSub
        | _ => true) && validOpt nx depth inSub
    | .method _ nx, depth, inSub => validOpt nx depth inSub
    | .str _ nx, depth, inSub => validOpt nx depth inSub
    | .var _ nx, depth, inSub => validOpt nx depth inSub
    | .key _ nx, depth, inSub => validOpt nx depth inSub
    | .numeric _ nx, depth, inSub => validOpt nx depth inSub
    | .integer _ nx, depth, inSub => validOpt nx depth inSub
    | .any _ _ nx, depth, inSub => validOpt nx depth inSub
    | .binary _ l r nx, depth, inSub =>
      validOpt l depth inSub && validOpt r depth inSub && validOpt nx depth inSub
    | .unary op x nx, depth, inSub =>
      validOpt x (if op = .filter then depth + 1 else depth) inSub && validOpt nx depth inSub
    | .regex x _ _ nx, depth, inSub => validNode x depth inSub && validOpt nx depth inSub
    | .arrayIndex subs nx, depth, inSub => validList subs depth && validOpt nx depth inSub
  def validOpt : Option Node → Nat → Bool → Bool
    | none, _, _ => true
    | some n, depth, inSub => validNode n depth inSub
  def validList : List Node → Nat → Bool
    | [], _ => true
    | n :: ns, depth => validNode n depth true && validList ns depth
end

/-- `ast.New` succeeds -/
def validate (root : Node) : Bool := validNode root 0 false

/-! ## Parser monad -/

/-- parser state: the lexer (whose `err` flag is `len(lexer.errors) > 0`, shared with the
    parser's own `Error` calls) and the cached look-ahead token (`pathrcvr.char ≥ 0`) -/
structure PS where
  lx : LState
  la : Option (Tok × List Char)
deriving Inhabited

inductive R (α : Type)
  | ok (a : α) (s : PS)
  /-- "syntax error": `pathParse` gives up (there are no `error` productions) -/
  | syn
  | panic
  /-- the fuel of the model ran out (never happens: see `Props/ParseLemmas`) -/
  | fuel

def P (α : Type) := PS → R α

instance : Monad P where
  pure a := fun s => .ok a s
  bind m f := fun s =>
    match m s with
    | .ok a s' => f a s'
    | .syn => .syn
    | .panic => .panic
    | .fuel => .fuel

def syn {α : Type} : P α := fun _ => .syn
def panic {α : Type} : P α := fun _ => .panic
def outOfFuel {α : Type} : P α := fun _ => .fuel

/-- `pathlex.Error(…)` from a parser action -/
def recordError : P Unit := fun s => .ok () { s with lx := Lex.setErr s.lx }

def hasError : P Bool := fun s => .ok s.lx.err s

section
variable (o : Oracles)

/-- the look-ahead token for the decision of the current state: the cached one, else a fresh call
    of `Lex`; `stop` is returned but not cached -/
def peek : P (Tok × List Char) := fun s =>
  match s.la with
  | some t => .ok t s
  | none =>
    let (tok, txt, lx') := Lex.lex o s.lx
    if lx'.oof then .fuel
    else if tok = .stop then .ok (.stop, []) { s with lx := lx' }
    else .ok (tok, txt) { lx := lx', la := some (tok, txt) }

/-- shift: the look-ahead is used up -/
def consume : P Unit := fun s => .ok () { s with la := none }

/-- a state whose only action is to shift `t` -/
def expect (t : Tok) : P Unit := do
  let (k, _) ← peek o
  if k = t then consume else syn

/-! ## Constructors

`astNewInteger` / `astNewNumeric` are the panicking constructors of package `ast`; the grammar
actions reach them only through `NewUnaryOrNumber`.  `newInteger` / `newNumeric` / `mkRegex` /
`anyLevelOf` are the guarded helpers of `parser.go`, which record an error and return a
placeholder instead. -/

/-- `ast.NewInteger`: panics if `strconv.ParseInt(lit, 0, 64)` fails -/
def astNewInteger (lit : List Char) : P EV :=
  match parseInt0 lit with
  | some v => pure { node := .integer v none, lit := lit }
  | none => panic

/-- `ast.NewNumeric`: panics if `strconv.ParseFloat(lit, 64)` fails -/
def astNewNumeric (lit : List Char) : P EV :=
  match parseFloatFinite lit with
  | some f => pure { node := .numeric f none, lit := lit }
  | none => panic

/-- `parser.newInteger`: an out-of-range literal is a parse error; the placeholder is `null` -/
def newInteger (lit : List Char) : P EV :=
  match parseInt0 lit with
  | some v => pure { node := .integer v none, lit := lit }
  | none => do
    recordError
    pure { node := .const .null none }

/-- `parser.newNumeric`: an out-of-range literal is a parse error; the placeholder is `null` -/
def newNumeric (lit : List Char) : P EV :=
  match parseFloatFinite lit with
  | some f => pure { node := .numeric f none, lit := lit }
  | none => do
    recordError
    pure { node := .const .null none }

/-- the literal of the negated number: `strings.CutPrefix(literal, "-")`, else `"-" + literal` -/
def negLit : List Char → List Char
  | '-' :: r => r
  | l => '-' :: l

/-- `ast.NewUnaryOrNumber` (`op` is `plus` or `minus`) -/
def newUnaryOrNumber (op : UnOp) (v : EV) : P EV :=
  if v.node.next.isNone then
    match v.node with
    | .numeric _ _ => if op = .plus then pure v else astNewNumeric (negLit v.lit)
    | .integer _ _ => if op = .plus then pure v else astNewInteger (negLit v.lit)
    | _ => pure { node := .unary op (some v.node) none }
  else pure { node := .unary op (some v.node) none }

/-- `ast.LinkNodes(head :: ops)`: `ops` are appended at the end of the chain `head` already has.
    (No node is nil any more, so nothing here can panic.) -/
def linkNodes (head : EV) (ops : List Node) : EV :=
  match ops with
  | [] => head
  | _ => { head with node := appendEnd head.node (chainOf ops) }

/-- `parser.newRegex`: `ast.NewRegex`; when the flags or the pattern are invalid the error is
    recorded and the operand itself is the placeholder -/
def mkRegex (operand : EV) (pat fl : List Char) : P EV :=
  let good := match regexFlags fl with
    | some b => if o.regexAccepts pat b then some b else none
    | none => none
  match good with
  | some b => pure { node := .regex operand.node pat b none }
  | none => do
    recordError
    pure operand

/-- `parser.anyLevel`: `strconv.ParseInt(lit, 0, 32)`; out of range is a parse error, level 0 -/
def anyLevelOf (lit : List Char) : P Nat :=
  match parseIntBase0 32 lit with
  | some v => pure v.toNat
  | none => do
    recordError
    pure 0

def binary (op : BinOp) (l r : EV) : EV := { node := .binary op (some l.node) (some r.node) none }
def unary (op : UnOp) (x : EV) : EV := { node := .unary op (some x.node) none }

/-! ## Token classes -/

def isAccessorStart (t : Tok) : Bool := t = .dot || t = .lbrack || t = .question

def compOp : Tok → Option BinOp
  | .equal => some .eq | .notEq => some .ne | .less => some .lt | .greater => some .gt
  | .lessEq => some .le | .greaterEq => some .ge | _ => none

def addOp : Tok → Option BinOp
  | .plus => some .add | .minus => some .sub | _ => none

def mulOp : Tok → Option BinOp
  | .star => some .mul | .slash => some .div | .percent => some .mod | _ => none

def methodOf : Tok → Option Method
  | .abs => some .abs | .size => some .size | .type => some .type | .floor => some .floor
  | .double => some .double | .ceiling => some .ceiling | .keyvalue => some .keyvalue
  | .bigint => some .bigint | .boolean => some .boolean | .integer => some .integer
  | .number => some .number | .stringfunc => some .string | _ => none

/-- the datetime methods with an optional precision -/
def precisionOp : Tok → Option UnOp
  | .time => some .time | .timeTz => some .timeTZ | .timestamp => some .timestamp
  | .timestampTz => some .timestampTZ | _ => none

/-- `key_name` alternatives that are nothing but key names after a `.` (states 92–107) -/
def isPlainKeyName (t : Tok) : Bool :=
  t = .ident || t = .string || t = .to || t = .null || t = .true_ || t = .false_ || t = .is
  || t = .unknown || t = .exists || t = .strict || t = .lax || t = .last || t = .starts
  || t = .with_ || t = .likeRegex || t = .flag

/-- where a `'('`-less operand may start: which automaton state family we are in -/
inductive Ctx
  /-- state 2: after `mode` -/
  | top
  /-- state 9: `'('` where a predicate may stand -/
  | paren
  /-- state 51: `'('` where only an `expr` may stand -/
  | parenE
  /-- states 41, 42, 54, 108: a predicate is required -/
  | pred
deriving DecidableEq

/-- result of `parseAtom`: a complete predicate (we are in the predicate state of the context, no
    token examined there yet), or a complete `expr` together with the token examined in the `expr`
    state of the context (6 / 49), which did not continue the expression -/
inductive AtomR
  | pred (v : EV)
  | expr (v : EV) (t : Tok)

/-- result of a parenthesised primary -/
inductive PrimR
  | pred (v : EV)
  | expr (v : EV)

/-- `any_level` (states 130, 177) -/
def anyLevel : P (Option Nat) := do
  let (t, txt) ← peek o
  if t = .int then do
    consume
    let n ← anyLevelOf txt
    pure (some n)
  else if t = .last then do
    consume
    pure none
  else syn

/-- `csv_elem` (states 147–149, 169, 170); the argument is the token examined in state 123 / 168 -/
def csvElem : Tok × List Char → P Node
  | (t, txt) =>
    if t = .int then do
      consume
      let v ← newInteger txt
      pure v.node
    else do
      consume
      let (t2, txt2) ← peek o                   -- state 148 / 149
      if t2 ≠ .int then syn
      else do
        consume
        let v ← newInteger txt2
        let w ← newUnaryOrNumber (if t = .plus then .plus else .minus) v
        pure w.node

/-! ## The parser -/

mutual

  /-- `expr` where only an `expr` may start (states 10, 11, 27, 30–34, 47, 55, 133, 135), up to
      and including its accessors and the reduction of the unary signs; `t` is the token already
      examined in that state -/
  def parseUnaryT : Nat → Tok × List Char → P EV
    | 0, _ => outOfFuel
    | f + 1, (t, txt) =>
      if t = .plus then do
        consume
        let v ← parseUnary f                       -- state 10
        newUnaryOrNumber .plus v                  -- state 50 (no look-ahead)
      else if t = .minus then do
        consume
        let v ← parseUnary f                       -- state 11
        newUnaryOrNumber .minus v                 -- state 52 (no look-ahead)
      else if t = .lparen then do
        consume
        let r ← parenTail f .parenE                -- state 51
        match r with
        | .expr v => pure v
        | .pred _ => syn                            -- unreachable: state 139 demands an accessor
      else parseScalar f (t, txt)

  def parseUnary : Nat → P EV
    | 0 => outOfFuel
    | f + 1 => do
      let t ← peek o
      parseUnaryT f t

  /-- `path_primary` followed by its accessors (state 8) -/
  def parseScalar : Nat → Tok × List Char → P EV
    | 0, _ => outOfFuel
    | f + 1, (t, txt) => do
      let head : Option (P EV) :=
        match t with
        | .string => some (pure { node := .str txt none })
        | .null => some (pure { node := .const .null none })
        | .true_ => some (pure { node := .const .true_ none })
        | .false_ => some (pure { node := .const .false_ none })
        | .numeric => some (newNumeric txt)
        | .int => some (newInteger txt)
        | .variable => some (pure { node := .var txt none })
        | .dollar => some (pure { node := .const .root none })
        | .at => some (pure { node := .const .current none })
        | .last => some (pure { node := .const .last none })
        | _ => none
      match head with
      | none => syn
      | some mk => do
        consume
        let h ← mk
        accessorLoop f h []

  /-- state 8: `accessor_expr . accessor_op | expr: accessor_expr .` (`ops` in source order) -/
  def accessorLoop : Nat → EV → List Node → P EV
    | 0, _, _ => outOfFuel
    | f + 1, head, ops => do
      let (t, _) ← peek o
      if isAccessorStart t then do
        let op ← accessorOp f t
        accessorLoop f head (ops ++ [op])
      else pure (linkNodes head ops)

  /-- after `'('`: states 9 (`ctx = paren`) and 51 (`ctx = parenE`) up to the matching `')'`
      and what may follow it (states 113, 114, 139) -/
  def parenTail : Nat → Ctx → P PrimR
    | 0, _ => outOfFuel
    | f + 1, ctx => do
      let a ← parseAtom f ctx
      match a with
      | .expr v t =>                                -- state 49
        if t ≠ .rparen then syn
        else do
          consume
          let (t2, _) ← peek o                      -- state 114
          if isAccessorStart t2 then do
            let op ← accessorOp f t2
            let e ← accessorLoop f v [op]
            pure (.expr e)
          else pure (.expr v)
      | .pred v0 => do
        let (v, t) ← predLoop f v0                  -- state 48 / 115
        if t ≠ .rparen then syn
        else do
          consume
          let (t2, _) ← peek o                      -- state 113 / 139
          if isAccessorStart t2 then do
            let op ← accessorOp f t2
            let e ← accessorLoop f v [op]
            pure (.expr e)
          else if ctx = .parenE then syn
          else if t2 = .is then do
            consume
            expect o .unknown                       -- state 136
            pure (.pred (unary .isUnknown v))
          else pure (.pred v)

  /-- one operand of `&&` / `||`, or the whole `expr` when no comparison follows: from a state
      where a predicate may start (2, 9, 51, 41, 42, 54, 108) -/
  def parseAtom : Nat → Ctx → P AtomR
    | 0, _ => outOfFuel
    | f + 1, ctx => do
      let (t, txt) ← peek o
      if t = .not then do
        consume
        let (t2, _) ← peek o                        -- state 13
        if t2 = .exists then do
          consume
          let v ← existsTail f
          pure (.pred (unary .not v))
        else if t2 = .lparen then do
          consume
          let a ← parseAtom f .pred                 -- state 54
          match a with
          | .expr _ _ => syn
          | .pred v0 => do
            let (v, t3) ← predLoop f v0             -- state 116
            if t3 ≠ .rparen then syn
            else do
              consume
              pure (.pred (unary .not v))
        else syn
      else if t = .exists then do
        consume
        let v ← existsTail f
        pure (.pred v)
      else if t = .lparen then do
        consume
        let r ← parenTail f .paren                  -- state 9
        match r with
        | .pred v => pure (.pred v)
        | .expr v => exprTail f ctx v
      else if t = .stop then syn
      else do
        let v ← parseUnaryT f (t, txt)
        exprTail f ctx v

  /-- `EXISTS_P . '(' expr ')'` (states 15, 55, 117) -/
  def existsTail : Nat → P EV
    | 0 => outOfFuel
    | f + 1 => do
      expect o .lparen
      let u ← parseUnary f
      let (e, t) ← arithLoop f u
      if t ≠ .rparen then syn
      else do
        consume
        pure (unary .exists e)

  /-- a complete operand `v` is an `expr` in the `expr` state of the context (6, 49, 65):
      arithmetic, then possibly one comparison / `starts with` / `like_regex` -/
  def exprTail : Nat → Ctx → EV → P AtomR
    | 0, _, _ => outOfFuel
    | f + 1, ctx, v => do
      let (lhs, t) ← arithLoop f v
      match compOp t with
      | some op => do
        consume
        let u ← parseUnary f                        -- state 27
        let (rhs, _) ← arithLoop f u               -- state 56
        pure (.pred (binary op lhs rhs))
      | none =>
        if t = .starts then do
          consume
          expect o .with_                           -- state 28
          let (t2, txt2) ← peek o                   -- state 57
          if t2 = .string then do
            consume
            pure (.pred (binary .startsWith lhs { node := .str txt2 none }))
          else if t2 = .variable then do
            consume
            pure (.pred (binary .startsWith lhs { node := .var txt2 none }))
          else syn
        else if t = .likeRegex then do
          consume
          let (t2, pat) ← peek o                    -- state 29
          if t2 ≠ .string then syn
          else do
            consume
            let (t3, _) ← peek o                    -- state 58
            if t3 = .flag then do
              consume
              let (t4, fl) ← peek o                 -- state 121
              if t4 ≠ .string then syn
              else do
                consume
                let r ← mkRegex o lhs pat fl        -- state 142 (no look-ahead)
                pure (.pred r)
            else do
              let r ← mkRegex o lhs pat []
              pure (.pred r)
        else if ctx = .pred then syn                -- state 65
        else pure (.expr lhs t)

  /-- `expr` states with `+ - * / %` (6, 49, 65, 56, 112, 165, 117): returns the expression and the
      token that did not continue it (examined, not consumed) -/
  def arithLoop : Nat → EV → P (EV × Tok)
    | 0, _ => outOfFuel
    | f + 1, lhs => do
      let (t, _) ← peek o
      match addOp t with
      | some op => do
        consume
        let u ← parseUnary f                        -- state 30 / 31
        let rhs ← mulLoop f u                       -- state 59 / 60
        arithLoop f (binary op lhs rhs)
      | none =>
        match mulOp t with
        | some op => do
          consume
          let u ← parseUnary f                      -- state 32–34; 61–63 reduce at once
          arithLoop f (binary op lhs u)
        | none => pure (lhs, t)

  /-- states 59 / 60: `expr '+' expr .` — only `* / %` bind tighter -/
  def mulLoop : Nat → EV → P EV
    | 0, _ => outOfFuel
    | f + 1, lhs => do
      let (t, _) ← peek o
      match mulOp t with
      | some op => do
        consume
        let u ← parseUnary f
        mulLoop f (binary op lhs u)
      | none => pure lhs

  /-- predicate states 7, 48, 115, 116, 131: returns the predicate and the token that did not
      continue it -/
  def predLoop : Nat → EV → P (EV × Tok)
    | 0, _ => outOfFuel
    | f + 1, l => do
      let (t, _) ← peek o
      if t = .and then do
        consume
        let a ← parseAtom f .pred                   -- state 41; 64 reduces at once
        match a with
        | .pred r => predLoop f (binary .and l r)
        | .expr _ _ => syn
      else if t = .or then do
        consume
        let a ← parseAtom f .pred                   -- state 42
        match a with
        | .pred r0 => do
          let r ← orLoop f r0                       -- state 66
          predLoop f (binary .or l r)
        | .expr _ _ => syn
      else pure (l, t)

  /-- state 66: `predicate OR_P predicate .` — only `&&` binds tighter -/
  def orLoop : Nat → EV → P EV
    | 0, _ => outOfFuel
    | f + 1, r => do
      let (t, _) ← peek o
      if t = .and then do
        consume
        let a ← parseAtom f .pred
        match a with
        | .pred r2 => orLoop f (binary .and r r2)
        | .expr _ _ => syn
      else pure r

  /-- `accessor_op`; `t` (examined, not consumed) is `.`, `[` or `?` -/
  def accessorOp : Nat → Tok → P Node
    | 0, _ => outOfFuel
    | f + 1, t => do
      consume
      if t = .question then do
        expect o .lparen                            -- state 46
        let a ← parseAtom f .pred                   -- state 108
        match a with
        | .expr _ _ => syn
        | .pred v0 => do
          let (v, t2) ← predLoop f v0               -- state 131
          if t2 ≠ .rparen then syn
          else do
            consume
            pure (.unary .filter (some v.node) none)
      else if t = .lbrack then do
        let (t2, txt2) ← peek o                     -- state 47
        if t2 = .star then do
          consume
          expect o .rbrack                          -- state 109
          pure (.const .anyArray none)
        else if t2 = .stop then syn
        else do
          let subs ← indexList f (t2, txt2) []
          pure (.arrayIndex subs none)
      else do
        -- state 44
        let (k, txt) ← peek o
        if k = .star then do
          consume
          pure (.const .anyKey none)
        else if k = .any then do
          consume
          let (t2, _) ← peek o                      -- state 79
          if t2 = .lbrace then do
            consume
            let a ← anyLevel o                       -- state 130
            let (t3, _) ← peek o                    -- state 160
            if t3 = .rbrace then do
              consume
              pure (newAny a a)
            else if t3 = .to then do
              consume
              let b ← anyLevel o                     -- state 177
              expect o .rbrace                      -- state 179
              pure (newAny a b)
            else syn
          else pure (newAny (some 0) none)
        else if isPlainKeyName k then do
          consume
          pure (.key txt none)
        else
          match methodOf k with
          | some m => do
            consume
            let (t2, _) ← peek o                    -- states 80–91
            if t2 = .lparen then do
              consume                               -- state 70
              expect o .rparen                      -- state 122
              pure (.method m none)
            else pure (.key txt none)
          | none =>
            if k = .decimal then do
              consume
              let (t2, _) ← peek o                  -- state 71
              if t2 = .lparen then do
                consume
                let args ← csvList f                -- state 123
                expect o .rparen                    -- state 144
                match args with
                | [] => pure (.binary .decimal none none none)
                | [a] => pure (.binary .decimal (some a) none none)
                | [a, b] => pure (.binary .decimal (some a) (some b) none)
                | _ => do
                  recordError
                  pure (.binary .decimal none none none)
              else pure (.key txt none)
            else if k = .date then do
              consume
              let (t2, _) ← peek o                  -- state 72
              if t2 = .lparen then do
                consume
                expect o .rparen                    -- state 124
                pure (.unary .date none none)
              else pure (.key txt none)
            else if k = .datetime then do
              consume
              let (t2, _) ← peek o                  -- state 73
              if t2 = .lparen then do
                consume
                let (t3, tpl) ← peek o              -- state 125
                if t3 = .string then do
                  consume
                  expect o .rparen                  -- state 151
                  pure (.unary .datetime (some (.str tpl none)) none)
                else do
                  expect o .rparen                  -- state 151
                  pure (.unary .datetime none none)
              else pure (.key txt none)
            else
              match precisionOp k with
              | some op => do
                consume
                let (t2, _) ← peek o                -- states 74–77
                if t2 = .lparen then do
                  consume
                  let (t3, digs) ← peek o           -- states 126–129
                  if t3 = .int then do
                    consume
                    let p ← newInteger digs         -- state 156 (no look-ahead)
                    expect o .rparen                -- states 154, 157–159
                    pure (.unary op (some p.node) none)
                  else do
                    expect o .rparen
                    pure (.unary op none none)
                else pure (.key txt none)
              | none => syn

  /-- `index_list` after `'['`; `t` is the token examined in state 47 / 133 -/
  def indexList : Nat → Tok × List Char → List Node → P (List Node)
    | 0, _, _ => outOfFuel
    | f + 1, t, acc => do
      let u ← parseUnaryT f t
      let (e, t2) ← arithLoop f u                   -- state 112
      let elem ←
        if t2 = .to then do
          consume
          let u2 ← parseUnary f                     -- state 135
          let (e2, _) ← arithLoop f u2              -- state 165
          pure (Node.binary .subscript (some e.node) (some e2.node) none)
        else pure (Node.binary .subscript (some e.node) none none)
      let (t3, _) ← peek o                          -- state 110
      if t3 = .comma then do
        consume
        let t4 ← peek o                             -- state 133
        if t4.1 = .stop then syn
        else indexList f t4 (acc ++ [elem])
      else if t3 = .rbrack then do
        consume
        pure (acc ++ [elem])
      else syn

  /-- `opt_csv_list` (states 123, 145, 168) -/
  def csvList : Nat → P (List Node)
    | 0 => outOfFuel
    | f + 1 => do
      let (t, txt) ← peek o                         -- state 123
      if t = .int || t = .plus || t = .minus then do
        let first ← csvElem o (t, txt)
        csvMore f [first]
      else pure []

  /-- state 145: `csv_list . ',' csv_elem | opt_csv_list: csv_list .` -/
  def csvMore : Nat → List Node → P (List Node)
    | 0, _ => outOfFuel
    | f + 1, acc => do
      let (t, _) ← peek o
      if t = .comma then do
        consume
        let (t2, txt2) ← peek o                     -- state 168
        if t2 = .int || t2 = .plus || t2 = .minus then do
          let e ← csvElem o (t2, txt2)
          csvMore f (acc ++ [e])
        else syn
      else pure acc

end

/-- States 5 and 1: the action of `result: mode expr_or_predicate` (`setResult`: `lexer.result`
    is assigned only if no error has been recorded and `ast.New` validates the tree) and the
    accept state.  The value is `lexer.result`. -/
def finish (lax isPred : Bool) (root : EV) : P (Option AST) := do
  let bad ← hasError
  let result ←
    if bad then pure none
    else if validate root.node then pure (some ⟨root.node, lax, isPred⟩)
    else do
      recordError
      pure none
  let (t2, _) ← peek o                              -- state 1
  if t2 ≠ .stop then syn else pure result

/-- `mode expr_or_predicate` (states 0 and 2 and below): mode, root, `lexer.pred` -/
def parseBody (fuel : Nat) : P (Bool × Bool × EV) := do
  let (t, _) ← peek o                               -- state 0
  let lax ←
    if t = .strict then do consume; pure false
    else if t = .lax then do consume; pure true
    else pure true
  let a ← parseAtom o fuel .top                     -- state 2
  match a with
  | .expr v _ => pure (lax, false, v)               -- state 6, reduce 2
  | .pred v0 => do
    let (v, _) ← predLoop o fuel v0                 -- state 7, reduce 3 + setPred
    pure (lax, true, v)

/-- `pathParse`; the value is `lexer.result` -/
def parseTop (fuel : Nat) : P (Option AST) := do
  let (lax, isPred, root) ← parseBody o fuel
  finish o lax isPred root

/-- fuel handed to the parser: every function call uses one unit -/
def fuelFor (bytes : List UInt8) : Nat := 16 * bytes.length + 64

/-- raw run: `lexer.result` and the final state (whose `lx.err` is `len(lexer.errors) > 0`) -/
def run (bytes : List UInt8) : R (Option AST) :=
  parseTop o (fuelFor bytes) { lx := LState.init bytes, la := none }

/-- `parser.Parse(string(bytes))` -/
def parse (bytes : List UInt8) : ParseOutcome :=
  match run o bytes with
  | .ok r s =>
    if s.lx.err then .err
    else match r with
      | some a => .ok a
      | none => .err     -- `Parse` would return `(nil, nil)`: unreachable, `ParseLemmas.run_none_error`
  | .syn => .err
  | .panic => .panic
  | .fuel => .err

/-- did the model run out of fuel (for the harness; never true) -/
def ranOutOfFuel (bytes : List UInt8) : Bool :=
  match run o bytes with
  | .fuel => true
  | _ => false

end

end Parse
end Sqljson
