import Sqljson.Model.Exec
/-!
# A declarative semantics of SQL/JSON path evaluation

A direct-style, compositional definition of what a path *means*: no continuations, no mutable executor
state, no status codes, no fuel.  `Lemmas/Refine.lean` proves that the executor model
(`Model/Exec.lean`) refines it; `Props/C01b.lean` states the result at the level of `exec.Query`.

## Shape

* **Outcome** of evaluating a path on an item: the sequence of items produced *before the first error*
  plus the optional error (`Outcome.items`, `Outcome.err`).  A silent `Query` returns exactly
  `items` when the error is suppressible; a non-silent one returns the error.
* **Chains** are evaluated left to right: `eval (step :: rest) v = (evalStep step v).bind (eval rest)`
  where `Outcome.bind` feeds the items, in order, to the rest of the chain and stops at the first error,
  keeping the items produced so far.
* The *dynamic context* `Dyn` of a step: the current item `@`, the size of the innermost array being
  subscripted (`last`), and the flag `ign` – structural errors are skipped (lax mode; and, in either
  mode, every step that follows a `.**` step in the same chain).
* **Predicates** are three-valued (`Kleene`) and may raise a non-suppressible error:
  `evalPred : Pred → Dyn → Item → Except Err Kleene`.  Sequence comparisons (`pairs`, `verdictLax`,
  `verdictStrict`) use the model's `Exec.compareItems` on a pair of items as the atomic comparison.

* **Arithmetic**: the operand sequences (`mathOperand`: lax mode unwraps arrays; an operand's error is the
  operator's error), unary `+`/`-` on every item (`signOn`), binary operators on two singleton sequences
  (`arithOf`, `arithOn`).  **Item methods**: `.type()`, `.size()`, the conversion methods (`convOn`) and the
  datetime methods (`datetimeOn`), with lax auto-unwrapping of an array target.  Not in the semantics:
  `.keyvalue()` (its ids depend on object addresses and a counter of generated objects).

Only value-level helpers of the model are used: `compareItems`, `startsWith`, `likeRegex` (one pair of
items), `typeName`, `sliceRange`, `Num.getJSONInt32`, `Num.mathOp`, `Num.applyI/applyF/castJSONNumber`, the
conversion functions `Exec.conv…` (one item), `Exec.parseDateTime`, `Time.castTo`, `Item.lookup`, and the
immutable per-call context `Exec.Ctx` (mode, root, variables, time zone, regex oracle).

## Dialect: where the Go executor is known to deviate from the documented rules

The semantics is parameterised by a `Dialect` – two switches, each a point where the Go code (and hence
the model) deviates from the PostgreSQL rules.  `Dialect.documented` is the PostgreSQL reading;
`Dialect.go` is what the executor does, and what the refinement theorem is proved against.

* `dropNulls` (known finding D6): a JSON `null` array element selected by a subscript is dropped;
* `unknownAbsorbs`: `(p) is unknown` is `true` when `p` raises a (non-suppressible) error, instead of
  raising it (pinned by the Go suite's `($ == $x) is unknown` test).

Two further switches existed until the executor was repaired (D31, D32): in strict mode below `.**` a
subscript on a non-array raised the error (`strict $.**[0]`), and `.size()` of a non-array answered `1`
(`strict $.**.size()`), where PostgreSQL skips the item.  The executor now follows the documented rule
– both cases are `structural` mismatches – so the switches are gone (`C01b.repaired_*`).

## Syntax

The semantics is defined on its own small syntax (`Path`, `Step`, `Subs`, `Pred`) – the constructs the
rules talk about – with the translation `Path.toNode` into the AST the executor runs (`Model/Ast.lean`).
-/

namespace Sqljson
namespace Sem
open Exec (Ctx Err Hard CbOut)

/-! ## outcomes -/

/-- the items produced before the first error, and that error -/
structure Outcome where
  items : List Item
  err : Option Err
deriving Repr, Inhabited

namespace Outcome

/-- exactly one item -/
def one (x : Item) : Outcome := ⟨[x], none⟩
/-- no item, no error -/
def empty : Outcome := ⟨[], none⟩
/-- no item, an error -/
def fail (e : Err) : Outcome := ⟨[], some e⟩
/-- a sequence of items, no error -/
def seq (xs : List Item) : Outcome := ⟨xs, none⟩

/-- `a` and then `b`: if `a` ends in an error, `b` is not evaluated -/
def andThen (a b : Outcome) : Outcome :=
  match a.err with
  | some _ => a
  | none => ⟨a.items ++ b.items, b.err⟩

end Outcome

/-- feed the items `xs`, in order, to `k`; stop at the first error, keeping what was produced so far -/
def each {α : Type} (k : α → Outcome) : List α → Outcome
  | [] => .empty
  | x :: xs => (k x).andThen (each k xs)

/-- sequencing: every item of `o`, in order, is handed to `k`; the first error (of `k` on some item, or
    else of `o` itself, which comes after all its items) ends the evaluation -/
def Outcome.bind (o : Outcome) (k : Item → Outcome) : Outcome :=
  (each k o.items).andThen ⟨[], o.err⟩

/-- lax auto-unwrapping: when `u` holds, an array is replaced by its elements (one level) -/
def unwrapIf (u : Bool) (f : Item → Outcome) (v : Item) : Outcome :=
  match v with
  | .arr xs => if u then each f xs else f v
  | _ => f v

/-! ## dialect -/

structure Dialect where
  /-- D6: subscripts drop selected JSON `null` elements -/
  dropNulls : Bool
  /-- `is unknown` answers `true` for an operand that raises an error -/
  unknownAbsorbs : Bool
deriving Repr, DecidableEq

/-- the documented (PostgreSQL) rules -/
def Dialect.documented : Dialect := ⟨false, false⟩
/-- the rules the Go executor implements -/
def Dialect.go : Dialect := ⟨true, true⟩

/-! ## syntax -/

inductive Lit
  | null | bool (b : Bool) | int (i : Int) | num (x : F64) | str (s : List Char)
deriving Repr

def Lit.item : Lit → Item
  | .null => .null
  | .bool b => .bool b
  | .int i => .int i
  | .num x => .flt x
  | .str s => .str s

inductive CmpOp | eq | ne | lt | gt | le | ge
deriving Repr, DecidableEq

def CmpOp.toBinOp : CmpOp → BinOp
  | .eq => .eq | .ne => .ne | .lt => .lt | .gt => .gt | .le => .le | .ge => .ge

inductive ArithOp | add | sub | mul | div | mod
deriving Repr, DecidableEq

def ArithOp.toBinOp : ArithOp → BinOp
  | .add => .add | .sub => .sub | .mul => .mul | .div => .div | .mod => .mod

/-- unary `+` / `-` -/
inductive Sign | plus | minus
deriving Repr, DecidableEq

def Sign.cb : Sign → Num.UCallback
  | .plus => .self
  | .minus => .uminus

def Sign.toUnOp : Sign → UnOp
  | .plus => .plus
  | .minus => .minus

/-- the conversion methods `.number() .abs() .floor() .ceiling() .double() .integer() .bigint() .string()
    .boolean() .decimal(p, s)` (the arguments of `.decimal` are integer literals) -/
inductive ConvM
  | number | abs | floor | ceiling | double | integer | bigint | string | boolean
  | decimal (precision scale : Option Int)
deriving Repr

def ConvM.node : ConvM → Option Node → Node
  | .number, nx => .method .number nx
  | .abs, nx => .method .abs nx
  | .floor, nx => .method .floor nx
  | .ceiling, nx => .method .ceiling nx
  | .double, nx => .method .double nx
  | .integer, nx => .method .integer nx
  | .bigint, nx => .method .bigint nx
  | .string, nx => .method .string nx
  | .boolean, nx => .method .boolean nx
  | .decimal p s, nx => .binary .decimal (p.map fun i => .integer i none) (s.map fun i => .integer i none) nx

/-- the datetime methods -/
inductive DtM | datetime | date | time | timeTZ | timestamp | timestampTZ
deriving Repr, DecidableEq

def DtM.toUnOp : DtM → UnOp
  | .datetime => .datetime | .date => .date | .time => .time | .timeTZ => .timeTZ
  | .timestamp => .timestamp | .timestampTZ => .timestampTZ

/-- the node of a literal argument -/
def Lit.node : Lit → Node
  | .null => .const .null none
  | .bool true => .const .true_ none
  | .bool false => .const .false_ none
  | .int i => .integer i none
  | .num x => .numeric x none
  | .str s => .str s none

mutual
  /-- a chain of steps, applied left to right -/
  inductive Path
    | nil
    | cons (s : Step) (rest : Path)
  inductive Step
    /-- `$` -/
    | root
    /-- `@` -/
    | current
    /-- `last` -/
    | last
    /-- `null`, `true`, `false`, a number, a string -/
    | lit (l : Lit)
    /-- `$name` -/
    | var (name : List Char)
    /-- `.key` -/
    | key (k : List Char)
    /-- `.*` -/
    | anyKey
    /-- `[*]` -/
    | anyArray
    /-- `[s1, s2 to s3, …]` -/
    | index (subs : Subs)
    /-- `.**{first to last}`; `maxU32` encodes `last` / unbounded -/
    | any (first last : Nat)
    /-- `.type()` -/
    | type
    /-- `.size()` -/
    | size
    /-- a conversion method -/
    | conv (m : ConvM)
    /-- a datetime method with its optional literal argument (precision, or a template) -/
    | datetime (m : DtM) (arg : Option Lit)
    /-- unary `+x` / `-x` -/
    | unary (sg : Sign) (x : Path)
    /-- `l + r`, `l - r`, `l * r`, `l / r`, `l % r` -/
    | arith (op : ArithOp) (l r : Path)
    /-- `?(p)` -/
    | filter (p : Pred)
    /-- a predicate in item position (`$.a == 1`, `exists(…)`, …): its truth value as an item -/
    | pred (p : Pred)
  /-- a subscript list -/
  inductive Subs
    | nil
    | one (i : Path) (rest : Subs)
    | range (lo hi : Path) (rest : Subs)
  inductive Pred
    | cmp (op : CmpOp) (l r : Path)
    | startsWith (l r : Path)
    | likeRegex (x : Path) (pattern : List Char) (flags : Nat)
    | and (p q : Pred)
    | or (p q : Pred)
    | not (p : Pred)
    | isUnknown (p : Pred)
    | exists (x : Path)
end

/-! ## dynamic context -/

structure Dyn where
  /-- the current item `@` -/
  cur : Item
  /-- size of the innermost array being subscripted -/
  inn : Option Nat
  /-- structural errors are skipped -/
  ign : Bool

/-- the rest of the chain after `.**` skips structural errors -/
def Step.after : Step → Dyn → Dyn
  | .any _ _, ρ => { ρ with ign := true }
  | _, ρ => ρ

/-! ## value-level rules of the steps -/

/-- a structural mismatch: skipped when `ign`, else the suppressible error -/
def structural (ρ : Dyn) : Outcome := if ρ.ign then .empty else .fail .verbose

/-- `.key` on one item (no unwrapping) -/
def memberOf (ρ : Dyn) (k : List Char) : Item → Outcome
  | .obj kvs =>
    match Item.lookup k kvs with
    | some x => .one x
    | none => structural ρ
  | _ => structural ρ

/-- `.*` on one item (no unwrapping): the member values in member order -/
def membersOf (ρ : Dyn) : Item → Outcome
  | .obj kvs => .seq (kvs.map (·.2))
  | _ => structural ρ

/-- `[*]` -/
def elementsOf (c : Ctx) (ρ : Dyn) : Item → Outcome
  | .arr xs => .seq xs
  | v => if c.lax then .one v else structural ρ

/-- `.size()` -/
def sizeItem (c : Ctx) (ρ : Dyn) : Item → Outcome
  | .arr xs => .one (.int xs.length)
  | _ => if c.lax then .one (.int 1) else structural ρ

/-- arrays in an operand sequence are replaced by their elements (lax mode, one level) -/
def unwrapSeq (xs : List Item) : List Item :=
  xs.flatMap fun x => match x with | .arr ys => ys | x => [x]

/-- the conversion function of a method on a non-array item (`Exec.conv…`: value level) -/
def ConvM.fn : ConvM → Item → Exec.Conv
  | .number => Exec.convNumber none
  | .abs => Exec.convNumericItem .abs
  | .floor => Exec.convNumericItem .floor
  | .ceiling => Exec.convNumericItem .ceil
  | .double => Exec.convDouble
  | .integer => Exec.convInteger
  | .bigint => Exec.convBigInt
  | .string => Exec.convString
  | .boolean => Exec.convBoolean
  | .decimal p s => Exec.convNumber (some (p.map fun i => .integer i none, s.map fun i => .integer i none))

/-- a conversion method on one item (no unwrapping): an array is an error; otherwise the converted value,
    or the method's error (suppressible, or not) -/
def convOn (m : ConvM) : Item → Outcome
  | .arr _ => .fail .verbose
  | v =>
    match m.fn v with
    | .val out => .one out
    | .verbose => .fail .verbose
    | .hard k => .fail (.hard k)
    | .viaReturnError e => .fail e

/-- the datetime value of a string for a method: parse, then cast to the method's type -/
def datetimeOf (c : Ctx) (m : DtM) (arg : Option Lit) (src : List Char) : Except Err DateTime :=
  let parsed : Except Err DateTime :=
    if m = .datetime && arg.isSome then .error (.hard .template)
    else Exec.parseDateTime c m.toUnOp src (arg.map Lit.node)
  match parsed with
  | .error e => .error e
  | .ok d =>
    match Exec.kindOfOp m.toUnOp with
    | none => .ok d
    | some k =>
      match Time.castTo c.env c.useTZ k d with
      | .ok d' => .ok d'
      | .error .notRecognized => .error .verbose
      | .error .tzRequired => .error (.hard .tzRequired)

/-- a datetime method on one item (no unwrapping): only strings convert -/
def datetimeOn (c : Ctx) (m : DtM) (arg : Option Lit) : Item → Outcome
  | .str src =>
    match datetimeOf c m arg src with
    | .error e => .fail e
    | .ok d => .one (.dt d)
  | _ => .fail .verbose

/-- the operand sequence of an arithmetic operator: an error of the operand is the operator's error; in
    lax mode arrays in the sequence are unwrapped -/
def mathOperand (c : Ctx) (o : Outcome) : Except Err (List Item) :=
  match o.err with
  | some e => .error e
  | none => .ok (if c.lax then unwrapSeq o.items else o.items)

/-- unary `+`/`-` on one item: numbers only -/
def signOn (cb : Num.UCallback) : Item → Outcome
  | .int i => .one (.int (Num.applyI cb i))
  | .flt x => .one (.flt (Num.applyF cb x))
  | .jnum t =>
    match Num.castJSONNumber t cb with
    | some v => .one v
    | none => .fail .verbose
  | _ => .fail .verbose

/-- unary `+`/`-`: applied to every item of the operand sequence -/
def unaryOf (cb : Num.UCallback) : Except Err (List Item) → Outcome
  | .error e => .fail e
  | .ok xs => each (signOn cb) xs

/-- the result of a binary operator on two numbers: a finite number, or the suppressible error -/
def arithOn (op : BinOp) (l r : Item) : Outcome :=
  match Num.mathOp l r op with
  | .error _ => .fail .verbose
  | .ok val => if Exec.nonFiniteItem val then .fail .verbose else .one val

/-- a binary operator: both operands must be singleton sequences (the left one is checked first) -/
def arithOf (op : BinOp) : Except Err (List Item) → Except Err (List Item) → Outcome
  | .error e, _ => .fail e
  | .ok [_], .error e => .fail e
  | .ok [l], .ok [r] => arithOn op l r
  | .ok _, _ => .fail .verbose

def isContainer : Item → Bool
  | .arr _ | .obj _ => true
  | _ => false

mutual
  /-- the proper descendants of an item in document order (pre-order), with their depths; the
      children are at depth `d` -/
  def nodesBelow (d : Nat) : Item → List (Item × Nat)
    | .arr xs => nodesL d xs
    | .obj kvs => nodesM d kvs
    | _ => []
  def nodesL (d : Nat) : List Item → List (Item × Nat)
    | [] => []
    | x :: xs => (x, d) :: (nodesBelow (d + 1) x ++ nodesL d xs)
  def nodesM (d : Nat) : List (List Char × Item) → List (Item × Nat)
    | [] => []
    | (_, x) :: rest => (x, d) :: (nodesBelow (d + 1) x ++ nodesM d rest)
end

/-- is the node `p.1` at depth `p.2` selected by `.**{first to last}`?  Depth within the bounds; with
    both bounds `last` (`maxU32`): the leaves below the item. -/
def selected (first last : Nat) (p : Item × Nat) : Bool :=
  decide (p.2 ≤ last) &&
    (decide (first ≤ p.2) ||
     (decide (first = maxU32) && decide (last = maxU32) && decide (1 ≤ p.2) && !isContainer p.1))

/-- `.**{first to last}`: the item (depth 0) and its descendants in document order, filtered by depth -/
def descend (first last : Nat) (v : Item) : List Item :=
  (((v, 0) :: nodesBelow 1 v).filter (selected first last)).map (·.1)

/-- the array a subscript applies to: lax mode wraps a non-array -/
def arrayOf (c : Ctx) : Item → Option (List Item)
  | .arr xs => some xs
  | v => if c.lax then some [v] else none

def notNull : Item → Bool
  | .null => false
  | _ => true

/-- one subscript `a to b` on the array `xs`: out of bounds is a structural error; when skipped the
    range is clipped to the array -/
def slice (q : Dialect) (ρ : Dyn) (xs : List Item) (a b : Int) : Outcome :=
  if !ρ.ign && (a < 0 || a > b || b ≥ xs.length) then .fail .verbose
  else
    let sel := Exec.sliceRange xs (if a < 0 then 0 else a) (if b ≥ xs.length then (xs.length : Int) - 1 else b)
    .seq (if q.dropNulls then sel.filter notNull else sel)

/-- a subscript expression must yield a single number, truncated to an int32 -/
def asIndex (o : Outcome) : Except Err Int :=
  match o.err with
  | some e => .error e
  | none =>
    match o.items with
    | [x] =>
      match Num.getJSONInt32 x with
      | .ok i => .ok i
      | .error .verbose => .error .verbose
      | .error .invalid => .error .invalid
    | _ => .error .verbose

/-! ## value-level rules of the predicates -/

abbrev Kleene := Exec.Pred

def and3 : Kleene → Kleene → Kleene
  | .f, _ | _, .f => .f
  | .t, .t => .t
  | _, _ => .unknown

def or3 : Kleene → Kleene → Kleene
  | .t, _ | _, .t => .t
  | .f, .f => .f
  | _, _ => .unknown

def not3 : Kleene → Kleene
  | .t => .f
  | .f => .t
  | .unknown => .unknown

/-- an operand sequence of a predicate, or why there is none -/
inductive Operand
  | seq (xs : List Item)
  | unknown
  | error (e : Err)

/-- the operand of a predicate: a suppressible error makes the predicate `unknown`, any other error is
    raised; in lax mode the sequence is unwrapped when the predicate asks for it -/
def operand (c : Ctx) (unwrap : Bool) (o : Outcome) : Operand :=
  match o.err with
  | some e => if e.isVerbose then .unknown else .error e
  | none => .seq (if unwrap && c.lax then unwrapSeq o.items else o.items)

/-- the atomic predicate applied to all pairs, left-major -/
def pairs (cb : Item → Item → CbOut) (ls rs : List Item) : List CbOut :=
  ls.flatMap fun l => rs.map fun r => cb l r

/-- lax: the first pair that is `true` decides; otherwise `unknown` if some pair was, else `false` -/
def verdictLax : List CbOut → Bool → Except Err Kleene
  | [], sawUnknown => .ok (if sawUnknown then .unknown else .f)
  | .panic :: _, _ => .error .invalid
  | .val _ (some e) :: _, _ => .error e
  | .val .t none :: _, _ => .ok .t
  | .val .unknown none :: rest, _ => verdictLax rest true
  | .val .f none :: rest, u => verdictLax rest u

/-- strict: the first pair that is `unknown` decides; otherwise `true` if some pair was, else `false` -/
def verdictStrict : List CbOut → Bool → Except Err Kleene
  | [], sawTrue => .ok (if sawTrue then .t else .f)
  | .panic :: _, _ => .error .invalid
  | .val _ (some e) :: _, _ => .error e
  | .val .unknown none :: _, _ => .ok .unknown
  | .val .t none :: rest, _ => verdictStrict rest true
  | .val .f none :: rest, t => verdictStrict rest t

/-- a predicate over two operand sequences -/
def predicate (c : Ctx) (cb : Item → Item → CbOut) (l r : Operand) : Except Err Kleene :=
  match l with
  | .error e => .error e
  | .unknown => .ok .unknown
  | .seq ls =>
    match r with
    | .error e => .error e
    | .unknown => .ok .unknown
    | .seq rs => if c.lax then verdictLax (pairs cb ls rs) false else verdictStrict (pairs cb ls rs) false

/-- `exists(path)`: lax mode stops at the first item; an error makes it `unknown` (suppressible) or is raised -/
def existsOf (c : Ctx) (o : Outcome) : Except Err Kleene :=
  if c.lax && !o.items.isEmpty then .ok .t
  else
    match o.err with
    | some e => if e.isVerbose then .ok .unknown else .error e
    | none => .ok (Exec.predFrom (!o.items.isEmpty))

/-- the item a predicate yields in item position -/
def kleeneItem : Kleene → Item
  | .t => .bool true
  | .f => .bool false
  | .unknown => .null

/-- the items a filter keeps -/
def keepIf (x : Item) : Except Err Kleene → Outcome
  | .error e => .fail e
  | .ok .t => .one x
  | .ok _ => .empty

def truthItem : Except Err Kleene → Outcome
  | .error e => .fail e
  | .ok k => .one (kleeneItem k)

/-- `p && p'`: Kleene conjunction, left to right; an error of the operand that decides is raised -/
def andOf : Except Err Kleene → Except Err Kleene → Except Err Kleene
  | .error e, _ => .error e
  | .ok .f, _ => .ok .f
  | .ok _, .error e => .error e
  | .ok a, .ok b => .ok (and3 a b)

/-- `p || p'` -/
def orOf : Except Err Kleene → Except Err Kleene → Except Err Kleene
  | .error e, _ => .error e
  | .ok .t, _ => .ok .t
  | .ok _, .error e => .error e
  | .ok a, .ok b => .ok (or3 a b)

/-- `!p` -/
def notOf : Except Err Kleene → Except Err Kleene
  | .error e => .error e
  | .ok a => .ok (not3 a)

/-- `(p) is unknown`.  (Under `unknownAbsorbs` every error of `p` counts as "unknown" – except the
    cancellation error, which no rule of this semantics produces and which is never absorbed.) -/
def isUnknownOf (q : Dialect) : Except Err Kleene → Except Err Kleene
  | .error e => if q.unknownAbsorbs && e != .cancelled then .ok .t else .error e
  | .ok k => .ok (Exec.predFrom (k = .unknown))

/-! ## the semantics -/

mutual
  /-- a chain on an item -/
  def eval (c : Ctx) (q : Dialect) : Path → Dyn → Item → Outcome
    | .nil, _, v => .one v
    | .cons s rest, ρ, v => (evalStep c q c.lax s ρ v).bind (eval c q rest (s.after ρ))
  /-- one step on an item; `u`: arrays are auto-unwrapped by the member accessors and filters (lax) -/
  def evalStep (c : Ctx) (q : Dialect) (u : Bool) : Step → Dyn → Item → Outcome
    | .root, _, _ => .one c.root
    | .current, ρ, _ => .one ρ.cur
    | .last, ρ, _ =>
      match ρ.inn with
      | some n => .one (.int ((n : Int) - 1))
      | none => .fail (.hard .lastOutside)
    | .lit l, _, _ => .one l.item
    | .var x, _, _ =>
      match c.vars.bind (Item.lookup x) with
      | some val => .one val
      | none => .fail (.hard .noVar)
    | .key k, ρ, v => unwrapIf u (memberOf ρ k) v
    | .anyKey, ρ, v => unwrapIf u (membersOf ρ) v
    | .anyArray, ρ, v => elementsOf c ρ v
    | .index subs, ρ, v =>
      match arrayOf c v with
      | some xs => evalSubs c q subs { ρ with inn := some xs.length } v xs
      | none => structural ρ
    | .any a b, _, v => .seq (descend a b v)
    | .type, _, v => .one (.str (Exec.typeName v))
    | .size, ρ, v => sizeItem c ρ v
    | .conv m, _, v => unwrapIf u (convOn m) v
    | .datetime m arg, _, v => unwrapIf u (datetimeOn c m arg) v
    | .unary sg x, ρ, v => unaryOf sg.cb (mathOperand c (eval c q x ρ v))
    | .arith op l r, ρ, v =>
      arithOf op.toBinOp (mathOperand c (eval c q l ρ v)) (mathOperand c (eval c q r ρ v))
    | .filter p, ρ, v => unwrapIf u (fun x => keepIf x (evalPred c q p { ρ with cur := x } x)) v
    | .pred p, ρ, v => truthItem (evalPred c q p ρ v)
  /-- a subscript list on the array `xs` (of the item `v`, on which the subscript expressions are
      evaluated with `last` bound to the size of `xs`) -/
  def evalSubs (c : Ctx) (q : Dialect) : Subs → Dyn → Item → List Item → Outcome
    | .nil, _, _, _ => .empty
    | .one i rest, ρ, v, xs =>
      match asIndex (eval c q i ρ v) with
      | .error e => .fail e
      | .ok a => (slice q ρ xs a a).andThen (evalSubs c q rest ρ v xs)
    | .range lo hi rest, ρ, v, xs =>
      match asIndex (eval c q lo ρ v) with
      | .error e => .fail e
      | .ok a =>
        match asIndex (eval c q hi ρ v) with
        | .error e => .fail e
        | .ok b => (slice q ρ xs a b).andThen (evalSubs c q rest ρ v xs)
  /-- a predicate on an item -/
  def evalPred (c : Ctx) (q : Dialect) : Pred → Dyn → Item → Except Err Kleene
    | .cmp op l r, ρ, v =>
      predicate c (Exec.compareItems c op.toBinOp)
        (operand c true (eval c q l ρ v)) (operand c true (eval c q r ρ v))
    | .startsWith l r, ρ, v =>
      predicate c Exec.startsWith (operand c true (eval c q l ρ v)) (operand c false (eval c q r ρ v))
    | .likeRegex x pat fl, ρ, v =>
      predicate c (fun l _ => Exec.likeRegex c pat fl l) (operand c true (eval c q x ρ v)) (.seq [.null])
    | .and p p', ρ, v => andOf (evalPred c q p ρ v) (evalPred c q p' ρ v)
    | .or p p', ρ, v => orOf (evalPred c q p ρ v) (evalPred c q p' ρ v)
    | .not p, ρ, v => notOf (evalPred c q p ρ v)
    | .isUnknown p, ρ, v => isUnknownOf q (evalPred c q p ρ v)
    | .exists x, ρ, v => existsOf c (eval c q x ρ v)
end

/-- the dynamic context a query starts in: `@` is the document, no subscript is open, structural errors
    are skipped in lax mode -/
def Dyn.init (c : Ctx) : Dyn := { cur := c.root, inn := none, ign := c.lax }

/-- **the meaning of a path on a document** (`c.root` is the document) -/
def query (c : Ctx) (q : Dialect) (p : Path) : Outcome := eval c q p (Dyn.init c) c.root

/-! ## translation into the executor's AST -/

mutual
  def Path.toNode : Path → Option Node
    | .nil => none
    | .cons s rest => some (s.toNode rest.toNode)
  def Step.toNode : Step → Option Node → Node
    | .root, nx => .const .root nx
    | .current, nx => .const .current nx
    | .last, nx => .const .last nx
    | .lit .null, nx => .const .null nx
    | .lit (.bool true), nx => .const .true_ nx
    | .lit (.bool false), nx => .const .false_ nx
    | .lit (.int i), nx => .integer i nx
    | .lit (.num x), nx => .numeric x nx
    | .lit (.str s), nx => .str s nx
    | .var x, nx => .var x nx
    | .key k, nx => .key k nx
    | .anyKey, nx => .const .anyKey nx
    | .anyArray, nx => .const .anyArray nx
    | .index subs, nx => .arrayIndex subs.toNodes nx
    | .any a b, nx => .any a b nx
    | .type, nx => .method .type nx
    | .size, nx => .method .size nx
    | .conv m, nx => m.node nx
    | .datetime m arg, nx => .unary m.toUnOp (arg.map Lit.node) nx
    | .unary sg x, nx => .unary sg.toUnOp x.toNode nx
    | .arith op l r, nx => .binary op.toBinOp l.toNode r.toNode nx
    | .filter p, nx => .unary .filter (some (p.toNode none)) nx
    | .pred p, nx => p.toNode nx
  def Subs.toNodes : Subs → List Node
    | .nil => []
    | .one i rest => .binary .subscript i.toNode none none :: rest.toNodes
    | .range lo hi rest => .binary .subscript lo.toNode hi.toNode none :: rest.toNodes
  def Pred.toNode : Pred → Option Node → Node
    | .cmp op l r, nx => .binary op.toBinOp l.toNode r.toNode nx
    | .startsWith l r, nx => .binary .startsWith l.toNode r.toNode nx
    | .likeRegex x pat fl, nx => .regex (x.toNode.getD (.const .current none)) pat fl nx
    | .and p q, nx => .binary .and (some (p.toNode none)) (some (q.toNode none)) nx
    | .or p q, nx => .binary .or (some (p.toNode none)) (some (q.toNode none)) nx
    | .not p, nx => .unary .not (some (p.toNode none)) nx
    | .isUnknown p, nx => .unary .isUnknown (some (p.toNode none)) nx
    | .exists x, nx => .unary .exists x.toNode nx
end

/-! ## well-formed paths

What the grammar guarantees: operands and subscript expressions are non-empty, and `last` occurs only
inside a subscript expression (`al` = "a subscript is open here").  The steps that *follow* a subscript
in a chain are outside its brackets.  One restriction beyond the grammar: the operand of `exists(…)` must
not end in a unary `+`/`-` (`Path.spineOK`, known finding D8). -/

def Path.nonEmpty : Path → Bool
  | .nil => false
  | .cons _ _ => true

/-- the chain does not *end* in a unary `+`/`-` (known finding D8: probing such a chain answers "found"
    without looking at the operand's items) -/
def Path.spineOK : Path → Bool
  | .nil => true
  | .cons (.unary _ _) .nil => false
  | .cons _ rest => Path.spineOK rest

def Step.isIndex : Step → Bool
  | .index _ => true
  | _ => false

mutual
  def Path.wf (al : Bool) : Path → Bool
    | .nil => true
    | .cons s rest => s.wf al && rest.wf (al && !s.isIndex)
  def Step.wf (al : Bool) : Step → Bool
    | .last => al
    | .index subs => subs.wf
    | .filter p => p.wf al
    | .pred p => p.wf al
    | .unary _ x => x.nonEmpty && x.wf al
    | .arith _ l r => l.nonEmpty && l.wf al && r.nonEmpty && r.wf al
    | _ => true
  def Subs.wf : Subs → Bool
    | .nil => true
    | .one i rest => i.nonEmpty && i.wf true && rest.wf
    | .range lo hi rest => lo.nonEmpty && lo.wf true && hi.nonEmpty && hi.wf true && rest.wf
  def Pred.wf (al : Bool) : Pred → Bool
    | .cmp _ l r => l.nonEmpty && l.wf al && r.nonEmpty && r.wf al
    | .startsWith l r => l.nonEmpty && l.wf al && r.nonEmpty && r.wf al
    | .likeRegex x _ _ => x.nonEmpty && x.wf al
    | .and p q => p.wf al && q.wf al
    | .or p q => p.wf al && q.wf al
    | .not p => p.wf al
    | .isUnknown p => p.wf al
    | .exists x => x.nonEmpty && x.wf al && x.spineOK
end

end Sem
end Sqljson
