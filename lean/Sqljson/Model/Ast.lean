import Sqljson.Model.Json
/-!
# AST — mirror of `path/ast`

One constructor per Go node type, each with the `next` pointer of the linked list.
`Option Node` stands for a possibly-nil `ast.Node`.
-/

namespace Sqljson

inductive Const | root | current | last | anyArray | anyKey | true_ | false_ | null
deriving Repr, DecidableEq, Inhabited

inductive BinOp
  | and | or | eq | ne | lt | gt | le | ge | startsWith
  | add | sub | mul | div | mod | subscript | decimal
deriving Repr, DecidableEq, Inhabited

inductive UnOp
  | exists | not | isUnknown | plus | minus | filter
  | datetime | date | time | timeTZ | timestamp | timestampTZ
deriving Repr, DecidableEq, Inhabited

inductive Method
  | abs | size | type | floor | ceiling | double | keyvalue | bigint | boolean | integer | number | string
deriving Repr, DecidableEq, Inhabited

/-- `math.MaxUint32`: the "unbounded"/`last` level of `.**` -/
def maxU32 : Nat := 4294967295

inductive Node where
  | const (k : Const) (next : Option Node)
  | method (m : Method) (next : Option Node)
  | str (s : List Char) (next : Option Node)
  | var (s : List Char) (next : Option Node)
  | key (s : List Char) (next : Option Node)
  | numeric (f : F64) (next : Option Node)
  | integer (i : Int) (next : Option Node)
  | any (first last : Nat) (next : Option Node)
  | binary (op : BinOp) (l r : Option Node) (next : Option Node)
  | unary (op : UnOp) (operand : Option Node) (next : Option Node)
  | regex (operand : Node) (pattern : List Char) (flags : Nat) (next : Option Node)
  | arrayIndex (subs : List Node) (next : Option Node)
deriving Repr, Inhabited

namespace Node

def next : Node → Option Node
  | .const _ n | .method _ n | .str _ n | .var _ n | .key _ n | .numeric _ n | .integer _ n
  | .any _ _ n | .binary _ _ _ n | .unary _ _ n | .regex _ _ _ n | .arrayIndex _ n => n

def setNext (nx : Option Node) : Node → Node
  | .const k _ => .const k nx
  | .method m _ => .method m nx
  | .str s _ => .str s nx
  | .var s _ => .var s nx
  | .key s _ => .key s nx
  | .numeric f _ => .numeric f nx
  | .integer i _ => .integer i nx
  | .any a b _ => .any a b nx
  | .binary op l r _ => .binary op l r nx
  | .unary op o _ => .unary op o nx
  | .regex o p f _ => .regex o p f nx
  | .arrayIndex s _ => .arrayIndex s nx

end Node

structure AST where
  root : Node
  lax : Bool
  pred : Bool
deriving Repr, Inhabited

/-- regex flag bits, as in `ast/regex.go` -/
def flagI : Nat := 0x01
def flagS : Nat := 0x02
def flagM : Nat := 0x04
def flagX : Nat := 0x08
def flagQ : Nat := 0x10

end Sqljson
