import Sqljson.Model.Exec
/-!
# Entry points — mirror of `exec.Query/First/Exists/Match` and `path.ExistsOrMatch`
-/

namespace Sqljson
namespace Api
open Exec

/-- the option set of one call -/
structure Opts where
  vars : Option (List (List Char × Item)) := none
  silent : Bool := false
  useTZ : Bool := false
  env : Time.Env := ⟨Time.Zone.utc, 0⟩
  /-- `some k`: the context is done from its `k`-th poll on (counting from 0); `none`: never -/
  budget : Option Nat := none
  regexMatch : List Char → Nat → List Char → Option Bool := fun _ _ _ => some false
  addrOf : Item → Nat := fun _ => 0

/-- what a caller of the Go API can observe -/
inductive Outcome
  | items (xs : List Item)     -- Query: (xs, nil)
  | first (x : Option Item)    -- First: (x, nil); `none` = Go nil with empty result
  | bool (b : Bool)            -- Exists/Match: (b, nil)
  | null                       -- (false, exec.NULL)
  | error (e : Err)            -- (zero, err)
  | panic
  | outOfFuel                  -- the model's evaluation did not finish within its fuel
deriving Repr, Inhabited

def mkCtx (a : AST) (doc : Item) (o : Opts) : Ctx :=
  { root := doc, vars := o.vars, lax := a.lax, useTZ := o.useTZ, env := o.env,
    regexMatch := o.regexMatch, addrOf := o.addrOf }

/-- `newExec` + the assignments of `execute`/`exists` -/
def initSt (a : AST) (doc : Item) (o : Opts) : St :=
  { current := doc, baseAddr := 0, baseId := 0, lastGenId := 1, innermost := -1,
    ignoreSE := a.lax, verbose := !o.silent, budget := o.budget,
    sawCancel := false, panicked := false, oof := false }

/-- `exec.query(vals, node, value)` -/
def query (c : Ctx) (fuel : Nat) (s : St) (n : Node) (v : Item) (f : Found) : Res :=
  if !c.lax && f.isNone then
    let r := executeItem c (xItem c fuel) s n v (some [])
    if r.status = .failed then ⟨r.st, none, .failed, r.err⟩
    else if (r.found.getD []).isEmpty then ⟨r.st, none, .notFound, none⟩
    else ⟨r.st, none, .ok, none⟩
  else executeItem c (xItem c fuel) s n v f

/-- `exec.execute(value)`: run in collect mode -/
def execute (fuel : Nat) (a : AST) (doc : Item) (o : Opts) : Res :=
  query (mkCtx a doc o) fuel (initSt a doc o) a.root doc (some [])

/-- `exec.exists(value)`: run in probe mode -/
def existsRun (fuel : Nat) (a : AST) (doc : Item) (o : Opts) : Res :=
  query (mkCtx a doc o) fuel (initSt a doc o) a.root doc none

/-- sticky flags first: a Go panic unwinds everything; an unfinished model run says nothing -/
def guarded (r : Res) (k : Outcome) : Outcome :=
  if r.st.oof then .outOfFuel else if r.st.panicked then .panic else k

def queryWith (fuel : Nat) (a : AST) (doc : Item) (o : Opts) : Outcome :=
  let r := execute fuel a doc o
  guarded r (match r.err with
    | some e => .error e
    | none => .items (r.found.getD []))

def firstWith (fuel : Nat) (a : AST) (doc : Item) (o : Opts) : Outcome :=
  let r := execute fuel a doc o
  guarded r (match r.err with
    | some e => .error e
    | none => .first (r.found.getD []).head?)

def existsWith (fuel : Nat) (a : AST) (doc : Item) (o : Opts) : Outcome :=
  let r := existsRun fuel a doc o
  guarded r (match r.err with
    | some e => .error e
    | none => if r.status = .failed then .null else .bool (r.status = .ok))

def matchWith (fuel : Nat) (a : AST) (doc : Item) (o : Opts) : Outcome :=
  let r := execute fuel a doc o
  guarded r (match r.err with
    | some e => .error e
    | none =>
      match r.found.getD [] with
      | [.null] => .null
      | [.bool b] => .bool b
      | _ => if !o.silent then .error .verbose else .null)

def existsOrMatchWith (fuel : Nat) (a : AST) (doc : Item) (o : Opts) : Outcome :=
  if a.pred then matchWith fuel a doc o else existsWith fuel a doc o

inductive Entry | query | first | exists | match_ | existsOrMatch
deriving Repr, DecidableEq, Inhabited

/-- the executor run underlying an entry point (collect mode, or probe mode for Exists) -/
def runRes (e : Entry) (fuel : Nat) (a : AST) (doc : Item) (o : Opts) : Res :=
  match e with
  | .exists => existsRun fuel a doc o
  | .existsOrMatch => if a.pred then execute fuel a doc o else existsRun fuel a doc o
  | _ => execute fuel a doc o

def run (e : Entry) (fuel : Nat) (a : AST) (doc : Item) (o : Opts) : Outcome :=
  match e with
  | .query => queryWith fuel a doc o
  | .first => firstWith fuel a doc o
  | .exists => existsWith fuel a doc o
  | .match_ => matchWith fuel a doc o
  | .existsOrMatch => existsOrMatchWith fuel a doc o

end Api
end Sqljson
