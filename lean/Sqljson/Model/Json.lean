import Sqljson.Model.F64
import Sqljson.Model.Decimal
/-!
# SQL/JSON items

Mirror of the Go value universe the executor works on: `nil`, `bool`, `int64`, `float64`,
`json.Number`, `string`, `[]any`, `map[string]any`, and the five `*types.X` datetime values.

* strings are `List Char` (valid UTF-8 only: what `encoding/json` produces);
* objects are association lists; `DocOK` asks for keys strictly increasing (the order in which
  the repaired executor ranges over a map, see DESIGN D22) — hence also distinct;
* `int` carries an unbounded `Int`; `DocOK` asks for the int64 range.
-/

namespace Sqljson

inductive DTKind | date | time | timetz | timestamp | timestamptz
deriving Repr, DecidableEq, Inhabited

/-- A Go `time.Time` as the package uses it: an instant plus a fixed zone offset. -/
structure DateTime where
  kind : DTKind
  sec  : Int      -- Unix seconds of the instant (UTC)
  nsec : Nat      -- 0 ≤ nsec < 10^9
  off  : Int      -- zone offset, seconds east of UTC
deriving Repr, DecidableEq, Inhabited

inductive Item where
  | null
  | bool (b : Bool)
  | int (i : Int)
  | flt (f : F64)
  | jnum (s : List Char)
  | str (s : List Char)
  | arr (xs : List Item)
  | obj (kvs : List (List Char × Item))
  | dt (d : DateTime)
deriving Repr, Inhabited

namespace Item

def isArr : Item → Bool | .arr _ => true | _ => false
def isObj : Item → Bool | .obj _ => true | _ => false
def isContainer : Item → Bool | .arr _ => true | .obj _ => true | _ => false

/-- lexicographic order on code points = byte order of valid UTF-8 (`strings.Compare`) -/
def strCmp : List Char → List Char → Ordering
  | [], [] => .eq
  | [], _ :: _ => .lt
  | _ :: _, [] => .gt
  | a :: as, b :: bs => if a.toNat < b.toNat then .lt else if a.toNat > b.toNat then .gt else strCmp as bs

def strLt (a b : List Char) : Bool := strCmp a b == .lt

def lookup (k : List Char) : List (List Char × Item) → Option Item
  | [] => none
  | (k', v) :: rest => if k = k' then some v else lookup k rest

mutual
  def size : Item → Nat
    | .arr xs => 1 + sizeList xs
    | .obj kvs => 1 + sizeMembers kvs
    | _ => 1
  def sizeList : List Item → Nat
    | [] => 0
    | x :: xs => size x + sizeList xs
  def sizeMembers : List (List Char × Item) → Nat
    | [] => 0
    | (_, v) :: rest => size v + sizeMembers rest
end

/-- keys strictly increasing -/
def keysSorted : List (List Char × Item) → Bool
  | (k1, _) :: (k2, v2) :: rest => strLt k1 k2 && keysSorted ((k2, v2) :: rest)
  | _ => true

def int64Min : Int := -9223372036854775808
def int64Max : Int := 9223372036854775807
def inInt64 (i : Int) : Bool := int64Min ≤ i && i ≤ int64Max

/-- JSON number grammar: `-? (0 | [1-9][0-9]*) (\.[0-9]+)? ([eE][+-]?[0-9]+)?` -/
def validJNum (s : List Char) : Bool :=
  let s1 := match s with | '-' :: r => r | r => r
  let rec digs : List Char → Nat → Nat × List Char
    | c :: cs, n => if Decimal.isDigit c then digs cs (n + 1) else (n, c :: cs)
    | [], n => (n, [])
  let intOk : Option (List Char) := match s1 with
    | '0' :: r => some r
    | c :: r => if Decimal.isDigit c then some (digs r 0).2 else none
    | [] => none
  match intOk with
  | none => false
  | some r1 =>
    let r2 : Option (List Char) := match r1 with
      | '.' :: r => (match digs r 0 with | (0, _) => none | (_, r') => some r')
      | r => some r
    match r2 with
    | none => false
    | some r2 =>
      match r2 with
      | [] => true
      | c :: r =>
        if c = 'e' || c = 'E' then
          let r := match r with | '+' :: r' => r' | '-' :: r' => r' | r' => r'
          match digs r 0 with | (0, _) => false | (_, []) => true | _ => false
        else false

mutual
  /-- documented Go value types only, finite floats not required (NaN/Inf are `float64`s too) -/
  def docOK : Item → Bool
    | .int i => inInt64 i
    | .jnum s => validJNum s
    | .arr xs => docOKList xs
    | .obj kvs => keysSorted kvs && docOKMembers kvs
    | _ => true
  def docOKList : List Item → Bool
    | [] => true
    | x :: xs => docOK x && docOKList xs
  def docOKMembers : List (List Char × Item) → Bool
    | [] => true
    | (_, v) :: rest => docOK v && docOKMembers rest
end

end Item
end Sqljson
