import Sqljson.Model.Json
/-!
# Datetime model — mirror of `path/types` and of the cast/compare matrices of `exec/datetime.go`

Everything here is a total, executable function over `Int`, `Nat`, `List Char`.  Go names are
given in the doc comments.  The model describes the code that exists (bugs included).

Layering:

* `Zone`, `Zone.lookup`                  — `time.Location`, `(*Location).lookup`
* `daysFromCivil`, `civilFromDays`, …    — proleptic Gregorian calendar (what `absDate`/`Date` compute)
* `GoTime`, `goDate`, `GoTime.round`, `GoTime.inZone` — `time.Time`, `time.Date`, `Time.Round`, `Time.In`
* `El`, `Layout`, `parseLayout`, `format` — `time.Parse` / `Time.Format` for the layouts of the package
* `newDate` … `newTimestampTZ`, `parseTime`, `toString`, `marshalJSON`, `unmarshalJSON` — `path/types`
* `castTo`, `compareDatetime`            — `path/exec/datetime.go`
-/

namespace Sqljson
namespace Time

/-! ## Locations -/

/-- A Go `*time.Location` as far as the package can observe it: the offset in force at a UTC
    instant.  `trans` lists `(unixStart, offsetSeconds)` ascending; before the first transition
    `initial` applies.  A fixed zone has `trans = []`. -/
structure Zone where
  initial : Int
  trans : List (Int × Int)
deriving Repr, Inhabited

def Zone.utc : Zone := ⟨0, []⟩
def Zone.fixed (off : Int) : Zone := ⟨off, []⟩

/-- offset in force at UTC instant `sec` -/
def Zone.offsetAt (z : Zone) (sec : Int) : Int :=
  z.trans.foldl (fun acc (t : Int × Int) => if t.1 ≤ sec then t.2 else acc) z.initial

/-- What `(*Location).lookup` returns besides the name: the offset and the bounds `[start, stop)`
    of the period it is valid in.  `none` stands for `alpha` (−2⁶³) resp. `omega` (2⁶³−1). -/
structure Period where
  off : Int
  start : Option Int
  stop : Option Int
deriving Repr, DecidableEq, Inhabited

/-- walk the ascending transition list; `off`/`start` describe the period found so far -/
def Zone.lookupAux (sec : Int) : List (Int × Int) → Int → Option Int → Period
  | [], off, start => ⟨off, start, none⟩
  | (t, o) :: rest, off, start =>
    if t ≤ sec then Zone.lookupAux sec rest o (some t) else ⟨off, start, some t⟩

/-- `(*Location).lookup(sec)` -/
def Zone.lookup (z : Zone) (sec : Int) : Period := Zone.lookupAux sec z.trans z.initial none

/-- evaluation-time parameters that come from the Go runtime -/
structure Env where
  zone : Zone          -- `types.TZFromContext(ctx)`
  todayDays : Int      -- civil date of `time.Now().In(zone)` (what `Time.ToTimeTZ` reads:
                       -- `now := time.Now().In(tz); now.Year(), now.Month(), now.Day()`), as days since 1970-01-01
deriving Repr, Inhabited

inductive CastErr | notRecognized | tzRequired
deriving Repr, DecidableEq

/-! ## Civil calendar -/

/-- `time.isLeap` -/
def isLeap (y : Int) : Bool := y % 4 == 0 && (y % 100 != 0 || y % 400 == 0)

/-- `time.daysIn(m, year)` for `1 ≤ m ≤ 12` -/
def daysIn (m y : Int) : Int :=
  if m == 2 then (if isLeap y then 29 else 28)
  else if m == 4 || m == 6 || m == 9 || m == 11 then 30 else 31

/-- days since 1970-01-01 of the proleptic Gregorian date `y-m-d` (`1 ≤ m ≤ 12`; any `d`: day
    overflow is linear, as in `time.Date`) -/
def daysFromCivil (y m d : Int) : Int :=
  let y' := if m ≤ 2 then y - 1 else y
  let era := y' / 400
  let yoe := y' - era * 400
  let mp := (m + 9) % 12
  let doy := (153 * mp + 2) / 5 + d - 1
  let doe := yoe * 365 + yoe / 4 - yoe / 100 + doy
  era * 146097 + doe - 719468

/-- inverse of `daysFromCivil`: `(year, month, day)` -/
def civilFromDays (z0 : Int) : Int × Int × Int :=
  let z := z0 + 719468
  let era := z / 146097
  let doe := z - era * 146097
  let yoe := (doe - doe / 1460 + doe / 36524 - doe / 146096) / 365
  let y := yoe + era * 400
  let doy := doe - (365 * yoe + yoe / 4 - yoe / 100)
  let mp := (5 * doy + 2) / 153
  let d := doy - (153 * mp + 2) / 5 + 1
  let m := if mp < 10 then mp + 3 else mp - 9
  (if m ≤ 2 then y + 1 else y, m, d)

/-- broken-down presentation fields (`Year() … Second()`) -/
structure Civil where
  year : Int
  month : Int
  day : Int
  hour : Int
  min : Int
  sec : Int
deriving Repr, DecidableEq, Inhabited

/-- fields of the wall-clock second count `t` (seconds since 1970-01-01T00:00:00 on that wall clock) -/
def civilOfUnix (t : Int) : Civil :=
  let days := t / 86400
  let rem := t % 86400
  let ymd := civilFromDays days
  ⟨ymd.1, ymd.2.1, ymd.2.2, rem / 3600, rem % 3600 / 60, rem % 60⟩

/-! ## `time.Time` -/

/-- A `time.Time`: instant (`sec`,`nsec`) and the zone offset its location has at that instant. -/
structure GoTime where
  sec : Int
  nsec : Nat
  off : Int
deriving Repr, DecidableEq, Inhabited

/-- `Year(), Month(), Day(), Hour(), Minute(), Second()` of `t` in its own location -/
def GoTime.civil (t : GoTime) : Civil := civilOfUnix (t.sec + t.off)

/-- `norm(hi, lo, base)`: floor division carrying into `hi` -/
def norm (hi lo base : Int) : Int × Int := (hi + lo / base, lo % base)

/-- first half of `time.Date`: the wall-clock second count and normalised nanoseconds -/
def dateWall (year month day hour min sec nsec : Int) : Int × Nat :=
  let ym := norm year (month - 1) 12
  let sn := norm sec nsec 1000000000
  let ms := norm min sn.1 60
  let hm := norm hour ms.1 60
  let dh := norm day hm.1 24
  let d := daysFromCivil ym.1 (ym.2 + 1) 1 + (dh.1 - 1)
  (d * 86400 + dh.2 * 3600 + hm.2 * 60 + ms.2, sn.2.toNat)

def beforeStart (utc : Int) : Option Int → Bool
  | none => false
  | some s => utc < s

def atOrAfterStop (utc : Int) : Option Int → Bool
  | none => false
  | some e => utc ≥ e

/-- second half of `time.Date`: wall clock → UTC by the two-step lookup -/
def resolveWall (z : Zone) (unix : Int) : Int :=
  let p := z.lookup unix
  if p.off ≠ 0 then
    let utc := unix - p.off
    let off := if beforeStart utc p.start || atOrAfterStop utc p.stop then (z.lookup utc).off else p.off
    unix - off
  else unix

/-- `time.Date(year, month, day, hour, min, sec, nsec, loc)` -/
def goDate (year month day hour min sec nsec : Int) (z : Zone) : GoTime :=
  let w := dateWall year month day hour min sec nsec
  let u := resolveWall z w.1
  ⟨u, w.2, z.offsetAt u⟩

/-- `t.In(loc)` -/
def GoTime.inZone (t : GoTime) (z : Zone) : GoTime := ⟨t.sec, t.nsec, z.offsetAt t.sec⟩

/-- `t.UTC()` -/
def GoTime.utc (t : GoTime) : GoTime := ⟨t.sec, t.nsec, 0⟩

/-- seconds from the zero `time.Time` (0001-01-01T00:00:00Z) to the Unix epoch -/
def unixToInternal : Int := 62135596800

/-- nanoseconds since the zero time -/
def GoTime.absNanos (t : GoTime) : Int := (t.sec + unixToInternal) * 1000000000 + t.nsec

def GoTime.ofAbsNanos (a : Int) (off : Int) : GoTime :=
  ⟨a / 1000000000 - unixToInternal, (a % 1000000000).toNat, off⟩

/-- `t.Round(d)` for `d > 0` nanoseconds: nearest multiple of `d` since the zero time, halves up -/
def GoTime.round (t : GoTime) (d : Nat) : GoTime :=
  if d = 0 then t else
  let a := t.absNanos
  let r := a % (d : Int)
  if r + r < (d : Int) then GoTime.ofAbsNanos (a - r) t.off else GoTime.ofAbsNanos (a + d - r) t.off

/-- `t1.Compare(t2)`: instants only -/
def GoTime.compare (a b : GoTime) : Int :=
  if a.sec < b.sec then -1 else if a.sec > b.sec then 1
  else if a.nsec < b.nsec then -1 else if a.nsec > b.nsec then 1 else 0

/-! ## Layouts -/

inductive TzStyle | short | colon | colonSec   -- `07`, `07:00`, `07:00:00`
deriving Repr, DecidableEq

/-- one chunk of a layout as `nextStdChunk` cuts it; `lit` is one byte of literal prefix -/
inductive El
  | year      -- `2006`  stdLongYear
  | month     -- `01`    stdZeroMonth
  | day       -- `02`    stdZeroDay
  | hour      -- `15`    stdHour
  | minute    -- `04`    stdZeroMinute
  | second    -- `05`    stdZeroSecond
  | frac9     -- `.999999999` stdFracSecond9
  | tz (iso : Bool) (style : TzStyle)  -- `Z07…` (iso) / `-07…`
  | lit (c : Char)
deriving Repr, DecidableEq

abbrev Layout := List El

def El.isFrac : El → Bool | .frac9 => true | _ => false

/-- the std chunk `nextStdChunk` would find next (literals skipped) -/
def nextStd : Layout → Option El
  | [] => none
  | .lit _ :: rest => nextStd rest
  | e :: _ => some e

def ymdL : Layout := [.year, .lit '-', .month, .lit '-', .day]
def hmsL : Layout := [.hour, .lit ':', .minute, .lit ':', .second]

/-- `"2006-01-02"` -/
def dateL : Layout := ymdL
/-- `"15:04:05"` -/
def timeL : Layout := hmsL
/-- `"15:04:05Z07"` -/
def timeTZHourL : Layout := hmsL ++ [.tz true .short]
/-- `"15:04:05Z07:00"` -/
def timeTZMinL : Layout := hmsL ++ [.tz true .colon]
/-- `"2006-01-02T15:04:05"` / `"2006-01-02 15:04:05"` -/
def timestampL (sep : Char) : Layout := ymdL ++ [.lit sep] ++ hmsL
/-- `"2006-01-02?15:04:05Z07"` -/
def timestampTZHourL (sep : Char) : Layout := timestampL sep ++ [.tz true .short]
/-- `"2006-01-02?15:04:05Z07:00"` -/
def timestampTZMinL (sep : Char) : Layout := timestampL sep ++ [.tz true .colon]

/-- `timeFormat = "15:04:05.999999999"` -/
def timeFracL : Layout := hmsL ++ [.frac9]
/-- `timeTZSecondFormat`, `timeTZMinuteFormat`, `timeTZHourFormat` -/
def timeTZFracL (s : TzStyle) : Layout := timeFracL ++ [.tz true s]
/-- `timeTZOutputFormat = "15:04:05.999999999-07:00"` -/
def timeTZOutL : Layout := timeFracL ++ [.tz false .colon]
/-- `timestampFormat = "2006-01-02T15:04:05.999999999"` -/
def timestampFracL : Layout := timestampL 'T' ++ [.frac9]
/-- `timestampTZSecondFormat`, `…MinuteFormat`, `…HourFormat` -/
def timestampTZFracL (s : TzStyle) : Layout := timestampFracL ++ [.tz true s]
/-- `timestampTZOutputFormat = "2006-01-02T15:04:05.999999999-07:00"` -/
def timestampTZOutL : Layout := timestampFracL ++ [.tz false .colon]

/-! ### `nextStdChunk`, restricted

`chunkLayout` cuts a Go layout string into chunks the way repeated `nextStdChunk` calls do, for the
chunk kinds the package uses; any other std chunk (`Jan`, `Mon`, `MST`, `1`, `2`, `_2`, `3`, `4`, `5`,
`03`, `06`, `002`, `PM`, `-0700`, `Z0700`, `.000`, …) gives `none`.  `Props/TimeLemmas.lean` checks
that the layout strings of the Go source cut into the `Layout` values above. -/

/-- characters at which `nextStdChunk` may start a std chunk -/
def stdStart (c : Char) : Bool :=
  c == 'J' || c == 'M' || c == '0' || c == '1' || c == '2' || c == '_' || c == '3' || c == '4'
    || c == '5' || c == 'P' || c == 'p' || c == '-' || c == 'Z' || c == '.' || c == ','

def startsWithDigit : List Char → Bool
  | c :: _ => isDigitC c
  | [] => false
where isDigitC (c : Char) : Bool := '0' ≤ c && c ≤ '9'

def chunkLayout : List Char → Option Layout
  | [] => some []
  | '2' :: '0' :: '0' :: '6' :: r => (chunkLayout r).map (.year :: ·)
  | '0' :: '1' :: r => (chunkLayout r).map (.month :: ·)
  | '0' :: '2' :: r => (chunkLayout r).map (.day :: ·)
  | '1' :: '5' :: r => (chunkLayout r).map (.hour :: ·)
  | '0' :: '4' :: r => (chunkLayout r).map (.minute :: ·)
  | '0' :: '5' :: r => (chunkLayout r).map (.second :: ·)
  | '.' :: '9' :: '9' :: '9' :: '9' :: '9' :: '9' :: '9' :: '9' :: '9' :: r =>
    -- "String of digits must end here"
    if startsWithDigit r then none else (chunkLayout r).map (.frac9 :: ·)
  | 'Z' :: '0' :: '7' :: ':' :: '0' :: '0' :: ':' :: '0' :: '0' :: r => (chunkLayout r).map (.tz true .colonSec :: ·)
  | 'Z' :: '0' :: '7' :: ':' :: '0' :: '0' :: r => (chunkLayout r).map (.tz true .colon :: ·)
  | 'Z' :: '0' :: '7' :: '0' :: '0' :: _ => none       -- Z0700 / Z070000
  | 'Z' :: '0' :: '7' :: r => (chunkLayout r).map (.tz true .short :: ·)
  | '-' :: '0' :: '7' :: ':' :: '0' :: '0' :: ':' :: '0' :: '0' :: r => (chunkLayout r).map (.tz false .colonSec :: ·)
  | '-' :: '0' :: '7' :: ':' :: '0' :: '0' :: r => (chunkLayout r).map (.tz false .colon :: ·)
  | '-' :: '0' :: '7' :: '0' :: '0' :: _ => none       -- -0700 / -070000
  | '-' :: '0' :: '7' :: r => (chunkLayout r).map (.tz false .short :: ·)
  | '-' :: r => (chunkLayout r).map (.lit '-' :: ·)    -- no `-07…` here: a literal
  | c :: r => if stdStart c then none else (chunkLayout r).map (.lit c :: ·)

/-! ## `time.Parse` -/

def isDigit (c : Char) : Bool := '0' ≤ c && c ≤ '9'
def digitVal (c : Char) : Nat := c.toNat - 48

/-- `getnum(s, fixed)`: one or two digits (`fixed` forces two) -/
def getnum (s : List Char) (fixed : Bool) : Option (Nat × List Char) :=
  match s with
  | [] => none
  | [a] => if isDigit a && !fixed then some (digitVal a, []) else none
  | a :: b :: rest =>
    if !isDigit a then none
    else if isDigit b then some (digitVal a * 10 + digitVal b, rest)
    else if fixed then none
    else some (digitVal a, b :: rest)

/-- stdLongYear: exactly four digits -/
def getYear (s : List Char) : Option (Nat × List Char) :=
  match s with
  | a :: b :: c :: d :: rest =>
    if isDigit a && isDigit b && isDigit c && isDigit d then
      some (((digitVal a * 10 + digitVal b) * 10 + digitVal c) * 10 + digitVal d, rest)
    else none
  | _ => none

def commaOrPeriod (c : Char) : Bool := c == '.' || c == ','

/-- leading run of digits and the rest -/
def spanDigits : List Char → List Char × List Char
  | [] => ([], [])
  | c :: cs => if isDigit c then let r := spanDigits cs; (c :: r.1, r.2) else ([], c :: cs)

def digitsVal (ds : List Char) : Nat := ds.foldl (fun a c => a * 10 + digitVal c) 0

/-- `parseNanoseconds` on the digits after the separator: first nine digits, scaled to 10⁻⁹ -/
def nanosOfDigits (ds : List Char) : Nat :=
  let ds9 := ds.take 9
  digitsVal ds9 * 10 ^ (9 - ds9.length)

/-- `len(value) >= 2 && commaOrPeriod(value[0]) && isDigit(value, 1)` -/
def hasFrac : List Char → Bool
  | c :: d :: _ => commaOrPeriod c && isDigit d
  | _ => false

/-- consume separator and the maximal digit run (call only when `hasFrac`) -/
def takeFrac : List Char → Nat × List Char
  | [] => (0, [])
  | _ :: rest => let r := spanDigits rest; (nanosOfDigits r.1, r.2)

def cutspace : List Char → List Char
  | ' ' :: r => cutspace r
  | r => r

/-- `skip(value, prefix)` for a one-byte prefix -/
def skipLit (c : Char) (v : List Char) : Option (List Char) :=
  if c == ' ' then
    match v with
    | [] => some []
    | x :: _ => if x == ' ' then some (cutspace v) else none
  else
    match v with
    | x :: r => if x == c then some r else none
    | [] => none

def signOf (c : Char) : Option Int := if c == '+' then some 1 else if c == '-' then some (-1) else none

def two (a b : Char) : Option Nat := if isDigit a && isDigit b then some (digitVal a * 10 + digitVal b) else none

/-- range rule and sign of a numeric offset: hours ≤ 24, minutes ≤ 60, seconds ≤ 60 -/
def mkOffset (sg : Char) (hr mm ss : Option Nat) : Option Int :=
  match signOf sg, hr, mm, ss with
  | some s, some h, some m, some x =>
    if h > 24 || m > 60 || x > 60 then none else some (s * (((h * 60 + m) * 60 + x : Nat) : Int))
  | _, _, _, _ => none

/-- numeric zone offset (`stdNum…TZ` branch of `parse`): offset seconds and rest -/
def parseOffset (style : TzStyle) (v : List Char) : Option (Int × List Char) :=
  match style, v with
  | .short, sg :: h1 :: h2 :: rest =>
    (mkOffset sg (two h1 h2) (some 0) (some 0)).map (·, rest)
  | .colon, sg :: h1 :: h2 :: c :: m1 :: m2 :: rest =>
    if c == ':' then (mkOffset sg (two h1 h2) (two m1 m2) (some 0)).map (·, rest) else none
  | .colonSec, sg :: h1 :: h2 :: c :: m1 :: m2 :: c' :: s1 :: s2 :: rest =>
    if c == ':' && c' == ':' then (mkOffset sg (two h1 h2) (two m1 m2) (two s1 s2)).map (·, rest) else none
  | _, _ => none

/-- the variables `parse` fills in (`month`/`day` start at their defaults: no yday in our layouts) -/
structure Acc where
  year : Nat := 0
  month : Nat := 1
  day : Nat := 1
  hour : Nat := 0
  min : Nat := 0
  sec : Nat := 0
  nsec : Nat := 0
  zUTC : Bool := false         -- `z = UTC`
  zoneOffset : Int := -1       -- `zoneOffset`, with Go's `-1` = "unset" sentinel
deriving Repr, DecidableEq, Inhabited

/-- one iteration of the loop in `parse` for chunk `e`; `next` = the following std chunk -/
def parseEl (e : El) (next : Option El) (acc : Acc) (v : List Char) : Option (Acc × List Char) :=
  match e with
  | .lit c => (skipLit c v).map (acc, ·)
  | .year => (getYear v).map fun (n, r) => ({ acc with year := n }, r)
  | .month =>
    match getnum v true with
    | some (n, r) => if n = 0 || n > 12 then none else some ({ acc with month := n }, r)
    | none => none
  | .day => (getnum v true).map fun (n, r) => ({ acc with day := n }, r)
  | .hour =>
    match getnum v false with
    | some (n, r) => if n ≥ 24 then none else some ({ acc with hour := n }, r)
    | none => none
  | .minute =>
    match getnum v true with
    | some (n, r) => if n ≥ 60 then none else some ({ acc with min := n }, r)
    | none => none
  | .second =>
    match getnum v true with
    | some (n, r) =>
      if n ≥ 60 then none
      else if hasFrac r && !(next.map El.isFrac).getD false then
        let f := takeFrac r
        some ({ acc with sec := n, nsec := f.1 }, f.2)
      else some ({ acc with sec := n }, r)
    | none => none
  | .frac9 =>
    if hasFrac v then let f := takeFrac v; some ({ acc with nsec := f.1 }, f.2)
    else some (acc, v)
  | .tz iso style =>
    match iso, v with
    | true, 'Z' :: r => some ({ acc with zUTC := true }, r)
    | _, _ => (parseOffset style v).map fun (o, r) => ({ acc with zoneOffset := o }, r)

/-- the loop of `parse`: all chunks, then nothing may be left over -/
def parseLayout : Layout → Acc → List Char → Option Acc
  | [], acc, v => if v.isEmpty then some acc else none
  | e :: rest, acc, v =>
    match parseEl e (nextStd rest) acc v with
    | none => none
    | some (acc', v') => parseLayout rest acc' v'

/-- tail of `parse`: validate the day of the month, build the `Time` -/
def finishParse (acc : Acc) : Option GoTime :=
  if acc.day < 1 || (acc.day : Int) > daysIn acc.month acc.year then none
  else
    let w := dateWall acc.year acc.month acc.day acc.hour acc.min acc.sec acc.nsec
    if acc.zUTC then some ⟨w.1, w.2, 0⟩
    else if acc.zoneOffset ≠ -1 then some ⟨w.1 - acc.zoneOffset, w.2, acc.zoneOffset⟩
    else some ⟨w.1, w.2, 0⟩

/-- `time.Parse(layout, value)`; `none` = error -/
def goParse (l : Layout) (v : List Char) : Option GoTime :=
  match parseLayout l {} v with
  | none => none
  | some acc => finishParse acc

/-! ## `Time.Format` -/

/-- `appendInt(b, x, width)` -/
def appendInt (x : Int) (width : Nat) : List Char :=
  let ds := Nat.toDigits 10 x.natAbs
  (if x < 0 then ['-'] else []) ++ List.replicate (width - ds.length) '0' ++ ds

def trimZeros (ds : List Char) : List Char := (ds.reverse.dropWhile (· == '0')).reverse

/-- `appendNano` for `.999999999` -/
def fmtFrac9 (nsec : Nat) : List Char :=
  if nsec = 0 then [] else '.' :: trimZeros (appendInt nsec 9)

/-- the zone-offset case of `appendFormat` -/
def fmtTz (iso : Bool) (style : TzStyle) (off : Int) : List Char :=
  if off = 0 && iso then ['Z'] else
  let zone0 := Int.tdiv off 60
  let neg := zone0 < 0
  let zone := if neg then -zone0 else zone0
  let absoffset := if neg then -off else off
  [if neg then '-' else '+'] ++ appendInt (zone / 60) 2
    ++ (if style = .short then [] else (':' :: appendInt (zone % 60) 2))
    ++ (if style = .colonSec then (':' :: appendInt (Int.tmod absoffset 60) 2) else [])

def fmtEl (c : Civil) (nsec : Nat) (off : Int) : El → List Char
  | .year => appendInt c.year 4
  | .month => appendInt c.month 2
  | .day => appendInt c.day 2
  | .hour => appendInt c.hour 2
  | .minute => appendInt c.min 2
  | .second => appendInt c.sec 2
  | .frac9 => fmtFrac9 nsec
  | .tz iso style => fmtTz iso style off
  | .lit ch => [ch]

/-- `t.Format(layout)` -/
def format (l : Layout) (t : GoTime) : List Char :=
  let c := t.civil
  (l.map (fmtEl c t.nsec t.off)).flatten

/-! ## `path/types` -/

def _root_.Sqljson.DateTime.t (d : DateTime) : GoTime := ⟨d.sec, d.nsec, d.off⟩
def mkDT (k : DTKind) (t : GoTime) : DateTime := ⟨k, t.sec, t.nsec, t.off⟩

/-- `civil d`: presentation fields of `d` in its own offset -/
def civil (d : DateTime) : Civil := d.t.civil

/-- `offsetLocationFor(t)`: observably, a fixed zone with `t`'s current offset -/
def offsetLocationFor (t : GoTime) : Zone := Zone.fixed t.off

/-- `NewDate(src)` -/
def newDate (src : GoTime) : DateTime :=
  let c := src.civil
  mkDT .date (goDate c.year c.month c.day 0 0 0 0 (Zone.fixed 0))

/-- `NewTime(src)` -/
def newTime (src : GoTime) : DateTime :=
  let c := src.civil
  mkDT .time (goDate 0 1 1 c.hour c.min c.sec src.nsec (Zone.fixed 0))

/-- `NewTimeTZ(src)` -/
def newTimeTZ (src : GoTime) : DateTime :=
  let c := src.civil
  mkDT .timetz (goDate 0 1 1 c.hour c.min c.sec src.nsec (offsetLocationFor src))

/-- `NewTimestamp(src)` -/
def newTimestamp (src : GoTime) : DateTime :=
  let c := src.civil
  mkDT .timestamp (goDate c.year c.month c.day c.hour c.min c.sec src.nsec (Zone.fixed 0))

/-- `NewTimestampTZ(ctx, src)` (the `tz` field is never read) -/
def newTimestampTZ (src : GoTime) : DateTime :=
  let c := src.civil
  mkDT .timestamptz (goDate c.year c.month c.day c.hour c.min c.sec src.nsec (offsetLocationFor src))

/-- `adjustPrecision(value, precision)`: `Round(time.Second / Pow10(precision))`.
    For `precision ≥ 10` the divisor is 0 and `Round` returns its receiver. -/
def adjustPrecision (t : GoTime) (precision : Int) : GoTime :=
  if precision < 0 then t
  else if precision > 9 then t
  else t.round (10 ^ (9 - precision.toNat))

/-- first layout of the list that parses -/
def firstParse : List Layout → List Char → Option GoTime
  | [], _ => none
  | l :: ls, v => match goParse l v with | some t => some t | none => firstParse ls v

def timeTZLayouts : List Layout := [timeTZHourL, timeTZMinL]
def timestampTZLayouts : List Layout :=
  [timestampTZHourL 'T', timestampTZHourL ' ', timestampTZMinL 'T', timestampTZMinL ' ']
def timestampLayouts : List Layout := [timestampL 'T', timestampL ' ']

/-- `types.ParseTime(ctx, src, precision)`; `precision = -1` means none -/
def parseTime (_env : Env) (src : List Char) (precision : Int) : Option DateTime :=
  match goParse dateL src with
  | some v => some (newDate v)
  | none =>
  match firstParse timeTZLayouts src with
  | some v => some (newTimeTZ (adjustPrecision v precision))   -- offsetOnlyTimeFor is the identity on (sec,nsec,off)
  | none =>
  match goParse timeL src with
  | some v => some (newTime (adjustPrecision v precision))
  | none =>
  match firstParse timestampTZLayouts src with
  | some v => some (newTimestampTZ (adjustPrecision v precision))
  | none =>
  match firstParse timestampLayouts src with
  | some v => some (newTimestamp (adjustPrecision v precision))
  | none => none

/-- canonical output layout of each type -/
def outLayout : DTKind → Layout
  | .date => dateL
  | .time => timeFracL
  | .timetz => timeTZOutL
  | .timestamp => timestampFracL
  | .timestamptz => timestampTZOutL

/-- `String()` of the five types -/
def toString (d : DateTime) : List Char := format (outLayout d.kind) d.t

/-- `MarshalJSON()` of the five types -/
def marshalJSON (d : DateTime) : List Char := '"' :: toString d ++ ['"']

/-! ### Conversions -/

/-- `Date.ToTimestamp` -/
def dateToTimestamp (d : DateTime) : DateTime := newTimestamp d.t

/-- `Date.ToTimestampTZ(ctx)` -/
def dateToTimestampTZ (env : Env) (d : DateTime) : DateTime :=
  let c := d.t.civil
  newTimestampTZ (goDate c.year c.month c.day 0 0 0 0 env.zone)

/-- `Time.ToTimeTZ(ctx)`; the date of `time.Now().In(tz)` comes from `env.todayDays` -/
def timeToTimeTZ (env : Env) (d : DateTime) : DateTime :=
  let now := civilFromDays env.todayDays
  let c := d.t.civil
  newTimeTZ (goDate now.1 now.2.1 now.2.2 c.hour c.min c.sec d.nsec env.zone)

/-- `TimeTZ.ToTime` -/
def timeTZToTime (d : DateTime) : DateTime := newTime d.t

/-- `Timestamp.ToDate` -/
def timestampToDate (d : DateTime) : DateTime := newDate d.t
/-- `Timestamp.ToTime` -/
def timestampToTime (d : DateTime) : DateTime := newTime d.t
/-- `Timestamp.ToTimestampTZ(ctx)` -/
def timestampToTimestampTZ (env : Env) (d : DateTime) : DateTime :=
  let c := d.t.civil
  newTimestampTZ (goDate c.year c.month c.day c.hour c.min c.sec d.nsec env.zone)

/-- `TimestampTZ.ToDate(ctx)` -/
def timestampTZToDate (env : Env) (d : DateTime) : DateTime := newDate (d.t.inZone env.zone)
/-- `TimestampTZ.ToTime(ctx)` -/
def timestampTZToTime (env : Env) (d : DateTime) : DateTime := newTime (d.t.inZone env.zone)
/-- `TimestampTZ.ToTimestamp(ctx)` -/
def timestampTZToTimestamp (env : Env) (d : DateTime) : DateTime := newTimestamp (d.t.inZone env.zone)
/-- `TimestampTZ.ToTimeTZ(ctx)` -/
def timestampTZToTimeTZ (env : Env) (d : DateTime) : DateTime := newTimeTZ (d.t.inZone env.zone)

/-! ### JSON -/

inductive UnmarshalOutcome
  | ok (d : DateTime)
  | err
  | panic
deriving Repr, DecidableEq, Inhabited

/-- bytes as characters: bytes ≥ 0x80 become non-ASCII characters, which no layout accepts -/
def bytesToChars (bs : List UInt8) : List Char := bs.map fun b => Char.ofNat b.toNat

/-- `data[1 : len(data)-1]`; `none` = slice bounds out of range -/
def unquote (data : List UInt8) : Option (List UInt8) :=
  if data.length < 2 then none else some ((data.drop 1).take (data.length - 2))

/-- `str[size-k] == '-' || str[size-k] == '+'`; `none` = index out of range -/
def signAt (str : List UInt8) (k : Nat) : Option Bool :=
  if str.length < k then none
  else match str[str.length - k]? with
    | some b => some (b == 45 || b == 43)
    | none => none        -- `k = 0` only; not used

/-- format choice of `TimeTZ.UnmarshalJSON` and `TimestampTZ.UnmarshalJSON` (guarded by `size >= 9`,
    `size >= 6`) -/
def timestampTZStyle (str : List UInt8) : TzStyle :=
  if str.length ≥ 9 && signAt str 9 == some true then .colonSec
  else if str.length ≥ 6 && signAt str 6 == some true then .colon
  else .short

def parsedOr (k : GoTime → DateTime) : Option GoTime → UnmarshalOutcome
  | some t => .ok (k t)
  | none => .err

/-- `UnmarshalJSON(data)` of the five types -/
def unmarshalJSON (kind : DTKind) (data : List UInt8) : UnmarshalOutcome :=
  match unquote data with
  | none => .err                      -- `len(data) < 2`: rejected (repaired defect D21)
  | some str =>
    let s := bytesToChars str
    match kind with
    | .date => parsedOr newDate (goParse dateL s)
    | .time => parsedOr newTime (goParse timeFracL s)
    | .timestamp => parsedOr newTimestamp (goParse timestampFracL s)
    | .timetz =>
      parsedOr (mkDT .timetz) (goParse (timeTZFracL (timestampTZStyle str)) s)        -- `TimeTZ{Time: tim}`
    | .timestamptz =>
      parsedOr (mkDT .timestamptz) (goParse (timestampTZFracL (timestampTZStyle str)) s)  -- `TimestampTZ{Time: tim}`

/-! ## `path/exec/datetime.go` -/

/-- `exec.castDate` … `exec.castTimestampTZ`: cast `d` to `target` -/
def castTo (env : Env) (useTZ : Bool) (target : DTKind) (d : DateTime) : Except CastErr DateTime :=
  match target, d.kind with
  -- castDate
  | .date, .date => .ok d
  | .date, .time => .error .notRecognized
  | .date, .timetz => .error .notRecognized
  | .date, .timestamp => .ok (timestampToDate d)
  | .date, .timestamptz => if useTZ then .ok (timestampTZToDate env d) else .error .tzRequired
  -- castTime
  | .time, .date => .error .notRecognized
  | .time, .time => .ok d
  | .time, .timetz => if useTZ then .ok (timeTZToTime d) else .error .tzRequired
  | .time, .timestamp => .ok (timestampToTime d)
  | .time, .timestamptz => if useTZ then .ok (timestampTZToTime env d) else .error .tzRequired
  -- castTimeTZ
  | .timetz, .date => .error .notRecognized
  | .timetz, .time => if useTZ then .ok (timeToTimeTZ env d) else .error .tzRequired
  | .timetz, .timetz => .ok d
  | .timetz, .timestamp => .error .notRecognized
  | .timetz, .timestamptz => .ok (timestampTZToTimeTZ env d)
  -- castTimestamp
  | .timestamp, .date => .ok (dateToTimestamp d)
  | .timestamp, .time => .error .notRecognized
  | .timestamp, .timetz => .error .notRecognized
  | .timestamp, .timestamp => .ok d
  | .timestamp, .timestamptz => if useTZ then .ok (timestampTZToTimestamp env d) else .error .tzRequired
  -- castTimestampTZ
  | .timestamptz, .date => if useTZ then .ok (dateToTimestampTZ env d) else .error .tzRequired
  | .timestamptz, .time => .error .notRecognized
  | .timestamptz, .timetz => .error .notRecognized
  | .timestamptz, .timestamp => if useTZ then .ok (timestampToTimestampTZ env d) else .error .tzRequired
  | .timestamptz, .timestamptz => .ok d

/-- `TimeTZ.Compare(u)`: by instant, then by offset (larger offset sorts first) -/
def timeTZCompare (t u : GoTime) : Int :=
  let c := t.utc.compare u.utc
  if c ≠ 0 then c
  else if t.off > u.off then -1
  else if t.off < u.off then 1
  else 0

/-- `exec.compareDatetime`: `.ok c` with `c ∈ {-1,0,1}`, `.ok (-2)` incomparable, `.error` = tz required -/
def compareDatetime (env : Env) (useTZ : Bool) (a b : DateTime) : Except CastErr Int :=
  match a.kind, b.kind with
  -- compareDate
  | .date, .date => .ok (a.t.compare b.t)
  | .date, .timestamp => .ok (a.t.compare b.t)
  | .date, .timestamptz =>
    if useTZ then .ok ((dateToTimestampTZ env a).t.compare b.t) else .error .tzRequired
  | .date, .time => .ok (-2)
  | .date, .timetz => .ok (-2)
  -- compareTime
  | .time, .time => .ok (a.t.compare b.t)
  | .time, .timetz =>
    if useTZ then .ok (-(timeTZCompare b.t (timeToTimeTZ env a).t)) else .error .tzRequired
  | .time, .date => .ok (-2)
  | .time, .timestamp => .ok (-2)
  | .time, .timestamptz => .ok (-2)
  -- compareTimeTZ
  | .timetz, .time =>
    if useTZ then .ok (timeTZCompare a.t (timeToTimeTZ env b).t) else .error .tzRequired
  | .timetz, .timetz => .ok (timeTZCompare a.t b.t)
  | .timetz, .date => .ok (-2)
  | .timetz, .timestamp => .ok (-2)
  | .timetz, .timestamptz => .ok (-2)
  -- compareTimestamp
  | .timestamp, .date => .ok (a.t.compare b.t)
  | .timestamp, .timestamp => .ok (a.t.compare b.t)
  | .timestamp, .timestamptz =>
    if useTZ then .ok ((timestampToTimestampTZ env a).t.compare b.t) else .error .tzRequired
  | .timestamp, .time => .ok (-2)
  | .timestamp, .timetz => .ok (-2)
  -- compareTimestampTZ
  | .timestamptz, .date =>
    if useTZ then .ok (a.t.compare (dateToTimestampTZ env b).t) else .error .tzRequired
  | .timestamptz, .timestamp =>
    if useTZ then .ok (a.t.compare (timestampToTimestampTZ env b).t) else .error .tzRequired
  | .timestamptz, .timestamptz => .ok (a.t.compare b.t)
  | .timestamptz, .time => .ok (-2)
  | .timestamptz, .timetz => .ok (-2)

end Time
end Sqljson
