import Sqljson.Model.Json
/-!
# Datetime model — mirror of `path/types` and of the cast/compare matrices of `exec/datetime.go`

INTERFACE (used by `Exec.lean`; bodies are being written — see DESIGN §6 C17/C18):
-/

namespace Sqljson
namespace Time

/-- A Go `*time.Location` as far as the package can observe it: the offset in force at a UTC
    instant.  `trans` lists `(unixStart, offsetSeconds)` ascending; before the first transition
    `initial` applies.  A fixed zone has `trans = []`. -/
structure Zone where
  initial : Int
  trans : List (Int × Int)
deriving Repr, Inhabited

def Zone.utc : Zone := ⟨0, []⟩
def Zone.fixed (off : Int) : Zone := ⟨off, []⟩

/-- offset in force at UTC instant `sec` -/
def Zone.offsetAt (z : Zone) (sec : Int) : Int :=
  z.trans.foldl (fun acc (t : Int × Int) => if t.1 ≤ sec then t.2 else acc) z.initial

/-- evaluation-time parameters that come from the Go runtime -/
structure Env where
  zone : Zone          -- `types.TZFromContext(ctx)`
  todayDays : Int      -- `time.Now()`'s civil date in `zone`, as days since 1970-01-01 (only `Time.ToTimeTZ` reads it)
deriving Repr, Inhabited

inductive CastErr | notRecognized | tzRequired
deriving Repr, DecidableEq

/-- `types.ParseTime(ctx, src, precision)`; `precision = -1` means none -/

def parseTime (_env : Env) (_src : List Char) (_precision : Int) : Option DateTime := none

/-- `String()` of the five types -/
def toString (_d : DateTime) : List Char := []

/-- `exec.castDate` … `exec.castTimestampTZ`: cast `d` to `target` -/
def castTo (_env : Env) (_useTZ : Bool) (_target : DTKind) (d : DateTime) : Except CastErr DateTime := .ok d

/-- `exec.compareDatetime`: `.ok c` with `c ∈ {-1,0,1}`, `.ok (-2)` incomparable, `.error` = tz required -/
def compareDatetime (_env : Env) (_useTZ : Bool) (_a _b : DateTime) : Except CastErr Int := .ok (-2)

end Time
end Sqljson
