/-!
# Lexer — mirror of `path/parser/lex.go`

The Go lexer reads the source one rune at a time (`next`), keeps one rune of look-ahead (`l.ch`)
and is driven by the goyacc parser through `Lex`.  This file mirrors it function by function:

* `decodeAll`   — the UTF-8 decoding that `next` performs on demand (`utf8.DecodeRune`), done up
  front: the lexer only ever moves forward over whole runes, so decoding on demand and decoding
  in advance see the same boundaries.  An undecodable byte becomes `Src.bad` (Go: `RuneError`
  of width 1) and raises "invalid UTF-8 encoding" at the moment `next` reaches it; NUL raises
  "invalid character NULL" at the moment `next` reaches it.
* `LState`      — remaining source, the look-ahead rune `l.ch`, and whether `l.errors` is
  non-empty.  Messages and positions are not modelled, only *that* an error was recorded.
* `lex`         — `(*lexer).Lex`: returns the token, its text (`lval.str`) and the new state.

`Option Char` is used for a rune that may be `stopTok`/`noChar` (both `-1` in Go): `none`.

Unicode facts enter through `Oracles` (`xid.Start`, `xid.Continue`, `unicode.ToLower`).
-/

namespace Sqljson

/-- Facts about Go's standard library / dependencies that the model takes as parameters. -/
structure Oracles where
  /-- `xid.Start` -/
  xidStart : Char → Bool
  /-- `xid.Continue` -/
  xidContinue : Char → Bool
  /-- `strconv.IsPrint` -/
  isPrint : Char → Bool
  /-- `unicode.ToLower` (`strings.ToLower` maps it over the runes) -/
  toLower : Char → Char
  /-- does `regexp/syntax.Parse(pattern, flags.syntaxFlags())` succeed, `flags` the bit mask -/
  regexAccepts : List Char → Nat → Bool

namespace Lex

/-! ## UTF-8 decoding (`utf8.DecodeRune`) -/

/-- one decoded source position: a rune, or a byte that does not start a valid encoding -/
inductive Src
  | ch (c : Char)
  | bad
deriving Repr, DecidableEq, Inhabited

def isCont (b : UInt8) : Bool := 0x80 ≤ b.toNat && b.toNat ≤ 0xBF

/-- `utf8.DecodeRune` on a non-empty slice: the rune (or `bad`) and its width.
    Follows Go's `first`/`acceptRanges` tables. -/
def decodeRune : List UInt8 → Src × Nat
  | [] => (.bad, 0)
  | b0 :: rest =>
    let x := b0.toNat
    if x < 0x80 then (.ch (Char.ofNat x), 1)
    else if x < 0xC2 then (.bad, 1)
    else if x < 0xE0 then
      match rest with
      | b1 :: _ => if isCont b1 then (.ch (Char.ofNat ((x % 32) * 64 + b1.toNat % 64)), 2) else (.bad, 1)
      | _ => (.bad, 1)
    else if x < 0xF0 then
      let lo := if x = 0xE0 then 0xA0 else 0x80
      let hi := if x = 0xED then 0x9F else 0xBF
      match rest with
      | b1 :: b2 :: _ =>
        if lo ≤ b1.toNat && b1.toNat ≤ hi && isCont b2 then
          (.ch (Char.ofNat ((x % 16) * 4096 + (b1.toNat % 64) * 64 + b2.toNat % 64)), 3)
        else (.bad, 1)
      | _ => (.bad, 1)
    else if x < 0xF5 then
      let lo := if x = 0xF0 then 0x90 else 0x80
      let hi := if x = 0xF4 then 0x8F else 0xBF
      match rest with
      | b1 :: b2 :: b3 :: _ =>
        if lo ≤ b1.toNat && b1.toNat ≤ hi && isCont b2 && isCont b3 then
          (.ch (Char.ofNat ((x % 8) * 262144 + (b1.toNat % 64) * 4096 + (b2.toNat % 64) * 64 + b3.toNat % 64)), 4)
        else (.bad, 1)
      | _ => (.bad, 1)
    else (.bad, 1)

/-- decode a whole source; an undecodable byte is skipped alone, as `next` does.
    `skip` counts the continuation bytes of the rune decoded last that are still to be passed over
    (structural recursion on the byte list). -/
def decodeAllAux : Nat → List UInt8 → List Src
  | _, [] => []
  | 0, b :: bs =>
    let (r, w) := decodeRune (b :: bs)
    r :: decodeAllAux (w - 1) bs
  | k + 1, _ :: bs => decodeAllAux k bs

def decodeAll (bs : List UInt8) : List Src := decodeAllAux 0 bs

/-! ## Tokens -/

/-- terminal classes of `grammar.y`; `unk` is any rune the grammar does not mention (goyacc's
    `$unk`), `stop` is `stopTok` (end of input *or* a lexing error: both are `-1`). -/
inductive Tok
  | to | null | true_ | false_ | is | unknown | exists | ident | string | numeric | int | variable
  | or | and | not | less | lessEq | equal | notEq | greaterEq | greater | any | strict | lax | last
  | starts | with_ | likeRegex | flag | abs | size | type | floor | double | ceiling | keyvalue
  | datetime | bigint | boolean | date | decimal | integer | number | stringfunc
  | time | timeTz | timestamp | timestampTz
  | plus | minus | star | slash | percent | lparen | rparen | dollar | at | comma
  | lbrack | rbrack | lbrace | rbrace | dot | question
  | unk | stop
deriving Repr, DecidableEq, Inhabited

/-- the named tokens in the order goyacc numbers them: `TO_P = 57346`, … `TIMESTAMP_TZ_P = 57393` -/
def kwTable : List Tok :=
  [.to, .null, .true_, .false_, .is, .unknown, .exists, .ident, .string, .numeric, .int, .variable,
   .or, .and, .not, .less, .lessEq, .equal, .notEq, .greaterEq, .greater, .any, .strict, .lax, .last,
   .starts, .with_, .likeRegex, .flag, .abs, .size, .type, .floor, .double, .ceiling, .keyvalue,
   .datetime, .bigint, .boolean, .date, .decimal, .integer, .number, .stringfunc,
   .time, .timeTz, .timestamp, .timestampTz]

/-- `pathPrivate + 2`: value of the first named token -/
def firstNamed : Nat := 57346

/-- What the generated parser makes of a rune that `Lex` returns as its own token value
    (`pathlex1`): `pathTok1` for runes below 126, `pathTok2` for runes from `pathPrivate` on —
    the private-use runes U+E002 … U+E031 would be *taken for the named tokens*, which is why
    `Lex` refuses the whole range (`isPrivateTokenRune`) —, `$unk` otherwise. -/
def tokOfRune (c : Char) : Tok :=
  let n := c.toNat
  if n = 36 then .dollar else if n = 37 then .percent else if n = 40 then .lparen
  else if n = 41 then .rparen else if n = 42 then .star else if n = 43 then .plus
  else if n = 44 then .comma else if n = 45 then .minus else if n = 46 then .dot
  else if n = 47 then .slash else if n = 63 then .question else if n = 64 then .at
  else if n = 91 then .lbrack else if n = 93 then .rbrack else if n = 123 then .lbrace
  else if n = 125 then .rbrace
  else if firstNamed ≤ n && n < firstNamed + kwTable.length then kwTable.getD (n - firstNamed) .unk
  else .unk

/-- `pathPrivate` -/
def pathPrivate : Nat := 57344

/-- `len(pathTok2)`: `error`, `$unk`, the 48 named tokens, `UMINUS` -/
def pathTok2Len : Nat := 51

/-- `ch >= pathPrivate && ch < pathPrivate+rune(len(pathTok2))`: the runes U+E000 … U+E032, which
    `Lex` reports as invalid characters instead of handing them to the parser -/
def isPrivateTokenRune (c : Char) : Bool :=
  pathPrivate ≤ c.toNat && c.toNat < pathPrivate + pathTok2Len

/-! ## Lexer state and `next` -/

structure LState where
  /-- source not yet read by `next` -/
  rest : List Src
  /-- `l.ch`, the look-ahead rune; `none` = `noChar`/`stopTok` -/
  ch : Option Char
  /-- `len(l.errors) > 0` (the parser's own `Error` calls set it too) -/
  err : Bool
  /-- model bookkeeping, no counterpart in Go: a loop of the model ran out of its fuel.  The fuel
      of every loop is the number of runes left plus a constant and every iteration reads a rune,
      so this never becomes `true`; the parser turns it into `R.fuel` so that it cannot go unnoticed. -/
  oof : Bool := false
deriving Repr, Inhabited

def LState.init (bs : List UInt8) : LState := { rest := decodeAll bs, ch := none, err := false }

/-- `(*lexer).next` -/
def next (s : LState) : Option Char × LState :=
  match s.rest with
  | [] => (none, s)
  | .bad :: r => (none, { s with rest := r, err := true })
  | .ch c :: r =>
    if c.toNat = 0 then (none, { s with rest := r, err := true })
    else (some c, { s with rest := r })

def setErr (s : LState) : LState := { s with err := true }

/-- a loop of the model ran out of fuel -/
def setOof (s : LState) : LState := { s with oof := true }

/-! ## Character classes -/

/-- `lower`: `('a' - 'A') | ch` on the code point -/
def lowerBit (c : Char) : Char := Char.ofNat (c.toNat ||| 0x20)

def isDecimal (c : Char) : Bool := '0' ≤ c && c ≤ '9'
def isHex (c : Char) : Bool := isDecimal c || ('a' ≤ lowerBit c && lowerBit c ≤ 'f')

def isDecimalR : Option Char → Bool
  | some c => isDecimal c
  | none => false

def isWhitespace (c : Char) : Bool := c = '\t' || c = '\n' || c = '\r' || c = ' '

/-- `hexChar`: value of a hex digit, `none` for `-1` -/
def hexChar : Option Char → Option Nat
  | some c =>
    if '0' ≤ c && c ≤ '9' then some (c.toNat - 48)
    else if 'a' ≤ c && c ≤ 'f' then some (c.toNat - 87)
    else if 'A' ≤ c && c ≤ 'F' then some (c.toNat - 55)
    else none
  | none => none

section
variable (o : Oracles)

/-- `isIdentRune(ch, 0)` -/
def isIdentStart : Option Char → Bool
  | some c => c = '_' || c = '\\' || o.xidStart c
  | none => false

/-- `isIdentRune(ch, 1)` -/
def isIdentCont : Option Char → Bool
  | some c => c = '_' || c = '\\' || o.xidContinue c
  | none => false

/-- `isVariableRune` -/
def isVariableRune : Option Char → Bool
  | some c => o.xidContinue c
  | none => false

/-! ## Keywords (`identToken`) -/

def identToken (ident : List Char) : Tok :=
  if ident = "null".toList then .null
  else if ident = "true".toList then .true_
  else if ident = "false".toList then .false_
  else
    let l := String.ofList (ident.map o.toLower)
    if l = "is" then .is else if l = "to" then .to else if l = "abs" then .abs
    else if l = "lax" then .lax else if l = "date" then .date else if l = "flag" then .flag
    else if l = "last" then .last else if l = "size" then .size else if l = "time" then .time
    else if l = "type" then .type else if l = "with" then .with_ else if l = "floor" then .floor
    else if l = "bigint" then .bigint else if l = "double" then .double
    else if l = "exists" then .exists else if l = "number" then .number
    else if l = "starts" then .starts else if l = "strict" then .strict
    else if l = "string" then .stringfunc else if l = "boolean" then .boolean
    else if l = "ceiling" then .ceiling else if l = "decimal" then .decimal
    else if l = "integer" then .integer else if l = "time_tz" then .timeTz
    else if l = "unknown" then .unknown else if l = "datetime" then .datetime
    else if l = "keyvalue" then .keyvalue else if l = "timestamp" then .timestamp
    else if l = "like_regex" then .likeRegex else if l = "timestamp_tz" then .timestampTz
    else .ident

end

/-! ## Escapes (`scanEscape`, `scanHex`, `scanUnicode`, `decodeUnicode`) -/

/-- `utf8.EncodeRune` followed by decoding: an invalid code point becomes U+FFFD -/
def runeOfNat (n : Nat) : Char :=
  if n < 0xD800 || (0xE000 ≤ n && n < 0x110000) then Char.ofNat n else Char.ofNat 0xFFFD

/-- `utf16.IsSurrogate` -/
def isSurrogate (n : Nat) : Bool := 0xD800 ≤ n && n < 0xE000

/-- `utf16.DecodeRune`; `none` for U+FFFD (not a pair) -/
def decodePair (r1 r2 : Nat) : Option Nat :=
  if 0xD800 ≤ r1 && r1 < 0xDC00 && 0xDC00 ≤ r2 && r2 < 0xE000 then
    some ((r1 - 0xD800) * 1024 + (r2 - 0xDC00) + 0x10000)
  else none

/-- the `\u{…}` loop of `decodeUnicode`: `c` is the rune just read, `i` the number of digits so far -/
def braceDigits : Nat → Nat → Option Char → Nat → LState → Option Nat × LState
  | 0, _, _, _, s => (none, setOof s)
  | f + 1, i, c, rr, s =>
    if i < 6 && c ≠ some '}' then
      match hexChar c with
      | none => (none, setErr s)
      | some d =>
        let (c', s') := next s
        braceDigits f (i + 1) c' (rr * 16 + d) s'
    else if c ≠ some '}' then (none, setErr s)
    else (some rr, s)

/-- three more digits of `\uNNNN` -/
def fixedDigits : Nat → Nat → LState → Option Nat × LState
  | 0, rr, s => (some rr, s)
  | k + 1, rr, s =>
    let (c, s') := next s
    match hexChar c with
    | none => (none, setErr s')
    | some d => fixedDigits k (rr * 16 + d) s'

/-- `decodeUnicode`: the code unit, or `none` (Go: `stopTok`) after recording an error -/
def decodeUnicode (s : LState) : Option Nat × LState :=
  let (ch, s1) := next s
  let (r, s2) :=
    if ch = some '{' then
      let (c, s2) := next s1
      braceDigits 8 0 c 0 s2
    else
      match hexChar ch with
      | none => (none, setErr s1)
      | some d => fixedDigits 3 d s1
  match r with
  | none => (none, s2)
  | some rr =>
    if rr > 0x10FFFF then (none, setErr s2)          -- `rr > unicode.MaxRune`
    else if rr = 0 then (none, setErr s2)
    else (some rr, s2)

/-- result of an escape: the next look-ahead rune (`none` = `stopTok`) and the rune to append -/
structure EscR where
  ch : Option Char
  out : Option Char
  st : LState

/-- `scanUnicode`; `out = none` with `ch = none` is the error/stop outcome -/
def scanUnicode (s : LState) : EscR :=
  match decodeUnicode s with
  | (none, s1) => ⟨none, none, s1⟩
  | (some rr, s1) =>
    if isSurrogate rr then
      let (c1, s2) := next s1
      if c1 ≠ some '\\' then ⟨none, none, setErr s2⟩
      else
        let (c2, s3) := next s2
        if c2 ≠ some 'u' then
          -- "Backtrack to \": the rune just read is handed back to the source; an error it
          -- raised while being read stays recorded
          ⟨none, none, setErr { s2 with err := s3.err }⟩
        else
          match decodeUnicode s3 with
          | (none, s4) => ⟨none, none, s4⟩
          | (some rr1, s4) =>
            match decodePair rr rr1 with
            | some d => let (c, s5) := next s4; ⟨c, some (runeOfNat d), s5⟩
            | none => ⟨none, none, setErr s4⟩
    else
      let (c, s2) := next s1
      ⟨c, some (runeOfNat rr), s2⟩

/-- `scanHex` -/
def scanHex (s : LState) : EscR :=
  let (a, s1) := next s
  match hexChar a with
  | none => ⟨none, none, setErr s1⟩
  | some c1 =>
    let (b, s2) := next s1
    match hexChar b with
    | none => ⟨none, none, setErr s2⟩
    | some c2 =>
      let d := c1 * 16 + c2
      if d > 0 then let (c, s3) := next s2; ⟨c, some (Char.ofNat d), s3⟩
      else ⟨none, none, setErr s2⟩

/-- `scanEscape` applied to the string buffer `buf` (kept reversed).  The buffer is reset when the
    rune after the escape is `stopTok` *and* an error is on record (`ch == stopTok && l.hasError()`);
    at the plain end of the input the text scanned so far is kept. -/
def scanEscape (buf : List Char) (s : LState) : Option Char × List Char × LState :=
  let (ch, s1) := next s
  let r : EscR :=
    match ch with
    | none => ⟨none, none, setErr s1⟩
    | some c =>
      let simple (x : Char) : EscR := let (c', s2) := next s1; ⟨c', some x, s2⟩
      if c = 'b' then simple (Char.ofNat 8)
      else if c = 'f' then simple (Char.ofNat 12)
      else if c = 'n' then simple '\n'
      else if c = 'r' then simple '\r'
      else if c = 't' then simple '\t'
      else if c = 'v' then simple (Char.ofNat 11)
      else if c = 'x' then scanHex s1
      else if c = 'u' then scanUnicode s1
      else simple c
  let buf' := match r.out with | some x => x :: buf | none => buf
  match r.ch with
  | none => if r.st.err then (none, [], r.st) else (none, buf', r.st)
  | some c' => (some c', buf', r.st)

/-! ## Scanners -/

/-- result of a scanner: token, token text, next look-ahead rune, state -/
structure ScanR where
  tok : Tok
  text : List Char
  ch : Option Char
  st : LState

section
variable (o : Oracles)

/-- the loop of `scanIdent` (`buf` reversed) -/
def identLoop : Nat → Option Char → List Char → LState → Option Char × List Char × LState
  | 0, ch, buf, s => (ch, buf, setOof s)
  | f + 1, ch, buf, s =>
    if isIdentCont o ch then
      match ch with
      | some c =>
        if c = '\\' then
          let (ch', buf', s') := scanEscape buf s
          identLoop f ch' buf' s'
        else
          let (ch', s') := next s
          identLoop f ch' (c :: buf) s'
      | none => (ch, buf, s)
    else (ch, buf, s)

/-- `scanIdent` -/
def scanIdent (c : Char) (s : LState) : ScanR :=
  let (ch1, buf1, s1) :=
    if c = '\\' then scanEscape [] s
    else let (ch', s') := next s; (ch', [c], s')
  let (ch2, buf2, s2) := identLoop o (s1.rest.length + 3) ch1 buf1 s1
  if s2.err then ⟨.stop, [], ch2, s2⟩
  else
    let text := buf2.reverse
    ⟨identToken o text, text, ch2, s2⟩

/-- the loop of `scanString`; `ch` is the rune after the opening quote / last consumed rune -/
def stringLoop : Nat → Tok → Option Char → List Char → LState → ScanR
  | 0, _, ch, _, s => ⟨.stop, [], ch, setOof s⟩
  | f + 1, ret, ch, buf, s =>
    match ch with
    | none => ⟨.stop, [], none, setErr s⟩
    | some c =>
      if c = '"' then
        let (ch', s') := next s
        ⟨ret, buf.reverse, ch', s'⟩
      else if c = '\n' then ⟨.stop, [], ch, setErr s⟩
      else if c = '\\' then
        let (ch', buf', s') := scanEscape buf s
        stringLoop f ret ch' buf' s'
      else
        let (ch', s') := next s
        stringLoop f ret ch' (c :: buf) s'

/-- `scanString` -/
def scanString (ret : Tok) (s : LState) : ScanR :=
  let (ch, s1) := next s
  stringLoop (s1.rest.length + 3) ret ch [] s1

def variableLoop : Nat → Option Char → List Char → LState → Option Char × List Char × LState
  | 0, ch, buf, s => (ch, buf, setOof s)
  | f + 1, ch, buf, s =>
    match ch with
    | some c =>
      if o.xidContinue c then
        let (ch', s') := next s
        variableLoop f ch' (c :: buf) s'
      else (ch, buf, s)
    | none => (ch, buf, s)

/-- `scanVariable` -/
def scanVariable (s : LState) : ScanR :=
  let (ch, s1) := next s
  if ch = some '"' then scanString .variable s1
  else if isVariableRune o ch then
    let (ch', buf, s2) := variableLoop o (s1.rest.length + 3) ch [] s1
    ⟨.variable, buf.reverse, ch', s2⟩
  else ⟨.dollar, ['$'], ch, s1⟩

/-- the loop of `scanComment`, entered with the rune after `/*`; returns the rune after the
    comment (`none` after "unexpected end of comment") -/
def commentLoop : Nat → Option Char → LState → Option Char × LState
  | 0, _, s => (none, setOof s)
  | f + 1, ch, s =>
    match ch with
    | none => (none, setErr s)
    | some c0 =>
      let (ch', s') := next s
      if c0 = '*' && ch' = some '/' then next s'
      else commentLoop f ch' s'

/-- `scanOperator` -/
def scanOperator (c : Char) (s : LState) : ScanR :=
  let (nx, s1) := next s
  let two (t : Tok) : ScanR := let (ch', s2) := next s1; ⟨t, [], ch', s2⟩
  let one (t : Tok) : ScanR := ⟨t, [c], nx, s1⟩
  if c = '=' then (if nx = some '=' then two .equal else one (tokOfRune c))
  else if c = '>' then (if nx = some '=' then two .greaterEq else one .greater)
  else if c = '<' then
    (if nx = some '=' then two .lessEq else if nx = some '>' then two .notEq else one .less)
  else if c = '!' then (if nx = some '=' then two .notEq else one .not)
  else if c = '&' then (if nx = some '&' then two .and else one (tokOfRune c))
  else if c = '|' then (if nx = some '|' then two .or else one (tokOfRune c))
  else if c = '*' then (if nx = some '*' then two .any else one (tokOfRune c))
  else one (tokOfRune c)

/-! ### Numbers -/

/-- `digits`: consumes `{digit | '_'}`; `acc` is the raw token text so far (reversed).
    Returns the next rune, the digit/separator bit set, the first invalid digit, text, state. -/
def digitsLoop (hex : Bool) (maxCh : Nat) :
    Nat → Option Char → Nat → Option Char → List Char → LState →
    Option Char × Nat × Option Char × List Char × LState
  | 0, ch, ds, inv, acc, s => (ch, ds, inv, acc, setOof s)
  | f + 1, ch, ds, inv, acc, s =>
    match ch with
    | some c =>
      if c = '_' then
        let (ch', s') := next s
        digitsLoop hex maxCh f ch' (ds ||| 2) inv (c :: acc) s'
      else if (if hex then isHex c else isDecimal c) then
        let inv' := if !hex && c.toNat ≥ maxCh && inv.isNone then some c else inv
        let (ch', s') := next s
        digitsLoop hex maxCh f ch' (ds ||| 1) inv' (c :: acc) s'
      else (ch, ds, inv, acc, s)
    | none => (ch, ds, inv, acc, s)

def digits (base : Nat) (ch : Option Char) (inv : Option Char) (acc : List Char) (s : LState) :
    Option Char × Nat × Option Char × List Char × LState :=
  digitsLoop (base > 10) (48 + base) (s.rest.length + 3) ch 0 inv acc s

/-- the scan of `invalidSep`: `d` is the class of the previous character
    (`'_'`, `'0'` = digit or prefix, `'.'` = anything else); `true` = an invalid separator exists -/
def invalidSepLoop (hexPrefix : Bool) : List Char → Char → Bool
  | [], d => d = '_'
  | c :: cs, p =>
    if c = '_' then (if p ≠ '0' then true else invalidSepLoop hexPrefix cs '_')
    else if isDecimal c || (hexPrefix && isHex c) then invalidSepLoop hexPrefix cs '0'
    else if p = '_' then true
    else invalidSepLoop hexPrefix cs '.'

/-- `invalidSep(x) >= 0` -/
def invalidSep (x : List Char) : Bool :=
  match x with
  | '0' :: c1 :: rest =>
    let x1 := lowerBit c1
    if x1 = 'x' || x1 = 'o' || x1 = 'b' then invalidSepLoop (x1 = 'x') rest '0'
    else invalidSepLoop false x '.'
  | _ => invalidSepLoop false x '.'

def numErr (s : LState) : ScanR := ⟨.stop, [], none, setErr s⟩

/-- the final checks of `scanNumber` (invalid digit, separators, trailing junk) -/
def numFinish (tok : Tok) (ch : Option Char) (digSep : Nat) (inv : Option Char) (acc : List Char)
    (s : LState) : ScanR :=
  if tok = .int && inv.isSome then numErr s
  else if digSep &&& 2 ≠ 0 && invalidSep acc.reverse then numErr s
  else if isIdentStart o ch then numErr s
  else ⟨tok, acc.reverse, ch, s⟩

/-- the "fractional part" block of `scanNumber`: token so far, current rune, digit/separator bits,
    first invalid digit, text, state -/
def fracPart (tok0 : Tok) (seenDot : Bool) (base : Nat) (ch : Option Char) (digSep : Nat)
    (inv : Option Char) (acc : List Char) (s : LState) :
    Tok × Option Char × Nat × Option Char × List Char × LState :=
  if seenDot then
    let (ch', ds, inv', acc', s') := digits base ch inv acc s
    (Tok.numeric, ch', digSep ||| ds, inv', acc', s')
  else (tok0, ch, digSep, inv, acc, s)

/-- the "exponent" block of `scanNumber` and the final checks.  `plainPrefix` is
    `prefix == 0 || prefix == '0'`. -/
def expPart (plainPrefix : Bool) (tok1 : Tok) (ch1 : Option Char) (digSep1 : Nat)
    (inv1 : Option Char) (acc1 : List Char) (s1 : LState) : ScanR :=
  let e := ch1.map lowerBit
  if e = some 'e' then
    if !plainPrefix then numErr s1
    else
      let c0 := ch1.getD 'e'
      let (ch2, s2) := next s1
      let acc2 := c0 :: acc1
      let (ch3, acc3, s3) :=
        if ch2 = some '+' || ch2 = some '-' then
          let (ch', s') := next s2
          (ch', ch2.getD '+' :: acc2, s')
        else (ch2, acc2, s2)
      let (ch4, ds, _, acc4, s4) := digits 10 ch3 none acc3 s3
      if ds &&& 1 = 0 then numErr s4
      else numFinish o .numeric ch4 (digSep1 ||| ds) inv1 acc4 s4
  else if isIdentStart o e then numErr s1
  else numFinish o tok1 ch1 digSep1 inv1 acc1 s1

/-- the part of `scanNumber` from "fractional part" on -/
def scanNumberTail (tok0 : Tok) (seenDot : Bool) (base : Nat) (plainPrefix : Bool)
    (ch : Option Char) (digSep : Nat) (inv : Option Char) (acc : List Char) (s : LState) : ScanR :=
  let (tok1, ch1, digSep1, inv1, acc1, s1) := fracPart tok0 seenDot base ch digSep inv acc s
  expPart o plainPrefix tok1 ch1 digSep1 inv1 acc1 s1

/-- the `if ch == '0'` block of `scanNumber`, entered on the digit `0` (`acc` = text before it):
    base, "prefix is 0 or '0'", digit/separator bits so far, current rune, text, state;
    `none` = one of the two errors of that block -/
def zeroPrefix (acc : List Char) (s : LState) :
    Option (Nat × Bool × Nat × Option Char × List Char × LState) :=
  let (ch, s1) := next s
  let acc1 := '0' :: acc
  let lc := ch.map lowerBit
  if lc = some 'x' || lc = some 'o' || lc = some 'b' then
    let (ch', s2) := next s1
    let base := if lc = some 'x' then 16 else if lc = some 'o' then 8 else 2
    some (base, false, 0, ch', (ch.getD 'x') :: acc1, s2)
  else if lc = some '.' then some (8, true, 1, ch, acc1, s1)
  else if ch = some '_' then none
  else if isDecimalR ch then none
  else some (8, true, 1, ch, acc1, s1)

/-- the integer part of `scanNumber` after the prefix, and everything after it -/
def scanNumberBody (base : Nat) (plainPrefix : Bool) (digSep0 : Nat) (ch : Option Char)
    (acc1 : List Char) (s1 : LState) : ScanR :=
  if ch = some '_' then numErr s1
  else
    let (ch2, ds, inv, acc2, s2) := digits base ch none acc1 s1
    let digSep := digSep0 ||| ds
    if digSep &&& 1 = 0 then numErr s2
    else if ch2 = some '.' then
      if !plainPrefix then ⟨.int, acc2.reverse, ch2, s2⟩
      else
        let (ch3, s3) := next s2
        scanNumberTail o .int true base plainPrefix ch3 digSep inv ('.' :: acc2) s3
    else scanNumberTail o .int false base plainPrefix ch2 digSep inv acc2 s2

/-- `scanNumber(ch, seenDot)`; `acc` is the token text already consumed (`['.']` when entered
    from the `'.'` case of `Lex`), `c` the current rune (a decimal digit) -/
def scanNumber (c : Char) (seenDot : Bool) (acc : List Char) (s : LState) : ScanR :=
  if seenDot then scanNumberTail o .numeric true 10 true (some c) 0 none acc s
  else if c = '0' then
    match zeroPrefix acc s with
    | none => numErr (next s).2          -- the rune after the `0` has been read
    | some (base, plainPrefix, digSep0, ch, acc1, s1) =>
      scanNumberBody o base plainPrefix digSep0 ch acc1 s1
  else scanNumberBody o 10 true 0 (some c) acc s

/-! ## `Lex` -/

def skipWs : Nat → Option Char → LState → Option Char × LState
  | 0, ch, s => (ch, setOof s)
  | f + 1, ch, s =>
    match ch with
    | some c => if isWhitespace c then let (ch', s') := next s; skipWs f ch' s' else (ch, s)
    | none => (ch, s)

/-- the body of `Lex` from the label `redo`; `ch` is the current rune -/
def lexFrom : Nat → Option Char → LState → ScanR
  | 0, _, s => ⟨.stop, [], none, setOof s⟩
  | f + 1, ch0, s0 =>
    let (ch, s) := skipWs (s0.rest.length + 3) ch0 s0
    match ch with
    | none => ⟨.stop, [], none, s⟩
    | some c =>
      if isIdentStart o ch then scanIdent o c s
      else if isDecimal c then scanNumber o c false [] s
      else if c = '"' then scanString .string s
      else if c = '$' then scanVariable o s
      else if c = '/' then
        let (ch1, s1) := next s
        if ch1 = some '*' then
          let (ch2, s2) := next s1
          let (ch3, s3) := commentLoop (s2.rest.length + 3) ch2 s2
          lexFrom f ch3 s3
        else ⟨.slash, ['/'], ch1, s1⟩
      else if c = '.' then
        let (ch1, s1) := next s
        match ch1 with
        | some d => if isDecimal d then scanNumber o d true ['.'] s1 else ⟨.dot, ['.'], ch1, s1⟩
        | none => ⟨.dot, ['.'], ch1, s1⟩
      else if isPrivateTokenRune c then
        -- `l.next(); l.errorf("invalid character %q", ch); tok, ch = stopTok, stopTok`
        let (_, s1) := next s
        ⟨.stop, [], none, setErr s1⟩
      else scanOperator c s

/-- `(*lexer).Lex`: token, `lval.str`, new state -/
def lex (s : LState) : Tok × List Char × LState :=
  let (ch, s1) := match s.ch with
    | some c => (some c, s)
    | none => next s
  let r := lexFrom o (s1.rest.length + 3) ch s1
  (r.tok, r.text, { r.st with ch := r.ch })

end

end Lex
end Sqljson
