import Sqljson.Model.Num
import Sqljson.Model.Time
/-!
# Executor — mirror of `path/exec`, function by function

Conventions (DESIGN §3.3a):
* the Executor's mutable fields are the record `St`, threaded in and out of every function;
  a Go `defer restore()` is a restore at every exit of the Lean function;
* `found : Option (List Item)` is the Go `*valueList` (`none` = nil pointer);
* recursion is on an explicit `fuel`; running out sets the sticky flag `St.oof`;
* a Go panic sets the sticky flag `St.panicked`;
* the context poll at the top of `executeItemOptUnwrapTarget` consumes `St.budget`
  (`none` = a context that is never done) and sets the sticky flag `St.sawCancel` when it fails;
* the mutual block contains only the dispatchers `xItem`, `xBool`, `xAny`; every other Go function
  is a non-recursive definition that receives the dispatchers (at smaller fuel) as parameters.
-/

namespace Sqljson
namespace Exec

inductive Hard
  | noVar | lastOutside | subscriptOutside | subscriptNotBinary | tzRequired | template
  | precision | scale | nodeType | doubleArg
deriving Repr, DecidableEq, Inhabited

inductive Err
  | verbose            -- wraps ErrVerbose (suppressible)
  | hard (k : Hard)    -- wraps ErrExecution only
  | cancelled          -- wraps ErrExecution and ctx.Err()
  | invalid            -- wraps ErrInvalid
deriving Repr, DecidableEq, Inhabited

def Err.isVerbose : Err → Bool | .verbose => true | _ => false

inductive Status | ok | notFound | failed
deriving Repr, DecidableEq, Inhabited

inductive Pred | f | t | unknown
deriving Repr, DecidableEq, Inhabited

def predFrom (b : Bool) : Pred := if b then .t else .f

/-- per-call immutable context -/
structure Ctx where
  root : Item
  vars : Option (List (List Char × Item))     -- `none` = nil map
  lax : Bool
  useTZ : Bool
  env : Time.Env
  /-- `RegexNode.Regexp().MatchString(s)`: `none` = `MustCompile` panics -/
  regexMatch : List Char → Nat → List Char → Option Bool
  /-- heap address of a container (`addrOf`); abstract -/
  addrOf : Item → Nat

/-- the mutable Executor fields -/
structure St where
  current : Item
  baseAddr : Nat
  baseId : Int
  lastGenId : Int
  innermost : Int
  ignoreSE : Bool
  verbose : Bool
  budget : Option Nat
  sawCancel : Bool
  panicked : Bool
  oof : Bool
deriving Repr, Inhabited

structure Res where
  st : St
  found : Option (List Item)
  status : Status
  err : Option Err
deriving Repr, Inhabited

structure PRes where
  st : St
  out : Pred
  err : Option Err
deriving Repr, Inhabited

abbrev Found := Option (List Item)

def Found.append (f : Found) (v : Item) : Found := f.map (· ++ [v])
def Found.appendAll (f : Found) (vs : List Item) : Found := f.map (· ++ vs)

/-- dispatcher types (the recursive calls available to a helper) -/
abbrev ItemK := St → Node → Item → Found → Bool → Res
abbrev BoolK := St → Node → Item → Bool → PRes
abbrev AnyK := St → Option Node → List Item → Found → Nat → Nat → Nat → Bool → Bool → Res

def Res.mk' (s : St) (f : Found) (st : Status) (e : Option Err) : Res := ⟨s, f, st, e⟩

/-- `exec.returnVerboseError(err)` -/
def returnVerboseError (s : St) (f : Found) : Res :=
  if s.verbose then ⟨s, f, .failed, some .verbose⟩ else ⟨s, f, .failed, none⟩

/-- `exec.returnError(err)` -/
def returnError (s : St) (f : Found) (e : Err) : Res :=
  if s.verbose || !e.isVerbose then ⟨s, f, .failed, some e⟩ else ⟨s, f, .failed, none⟩

/-- structural error, or not-found when structural errors are ignored -/
def structural (s : St) (f : Found) : Res :=
  if !s.ignoreSE then returnVerboseError s f else ⟨s, f, .notFound, none⟩

/-- `exec.executeItem(node, value, found)` -/
def executeItem (c : Ctx) (item : ItemK) (s : St) (n : Node) (v : Item) (f : Found) : Res :=
  item s n v f c.lax

/-- `exec.executeNextItem(cur, next, value, found)` with `next = cur.Next()` -/
def executeNextItem (c : Ctx) (item : ItemK) (s : St) (nx : Option Node) (v : Item) (f : Found) : Res :=
  match nx with
  | some n => executeItem c item s n v f
  | none => ⟨s, f.append v, .ok, none⟩

/-- `setTempBaseObject` + deferred restore around `k` -/
def withBaseObject (s : St) (addr : Nat) (id : Int) (k : St → Res) : Res :=
  let r := k { s with baseAddr := addr, baseId := id }
  { r with st := { r.st with baseAddr := s.baseAddr, baseId := s.baseId } }

/-- `execLiteralConst` / `execLiteral`: a literal value followed by the rest of the chain -/
def execLiteral (c : Ctx) (item : ItemK) (s : St) (nx : Option Node) (v : Item) (f : Found) : Res :=
  if nx.isNone && f.isNone then ⟨s, f, .ok, none⟩ else executeNextItem c item s nx v f

/-- `execVariable` -/
def execVariable (c : Ctx) (item : ItemK) (s : St) (name : List Char) (nx : Option Node) (f : Found) : Res :=
  match c.vars.bind (Item.lookup name) with
  | some val =>
    withBaseObject s (c.addrOf (.obj (c.vars.getD []))) 1 fun s' => executeNextItem c item s' nx val f
  | none => ⟨s, f, .failed, some (.hard .noVar)⟩

/-- `executeItemUnwrapTargetArray(node, value, found)` for an array value -/
def unwrapTargetArray (any : AnyK) (s : St) (n : Node) (xs : List Item) (f : Found) : Res :=
  any s (some n) xs f 1 1 1 false false

/-- `execKeyNode` -/
def execKeyNode (c : Ctx) (item : ItemK) (any : AnyK) (s : St) (n : Node) (key : List Char)
    (nx : Option Node) (v : Item) (f : Found) (unwrap : Bool) : Res :=
  match v with
  | .obj kvs =>
    match Item.lookup key kvs with
    | some val => executeNextItem c item s nx val f
    | none =>
      if !s.ignoreSE then
        (if !s.verbose then ⟨s, f, .failed, none⟩ else ⟨s, f, .failed, some .verbose⟩)
      else ⟨s, f, .notFound, none⟩
  | .arr xs =>
    if unwrap then any s (some n) xs f 1 1 1 false false
    else structural s f
  | _ => structural s f

def members (kvs : List (List Char × Item)) : List Item := kvs.map (·.2)

/-- `execAnyKey` -/
def execAnyKey (c : Ctx) (any : AnyK) (s : St) (n : Node) (nx : Option Node) (v : Item) (f : Found)
    (unwrap : Bool) : Res :=
  match v with
  | .obj kvs => any s nx (members kvs) f 1 1 1 false c.lax
  | .arr xs => if unwrap then unwrapTargetArray any s n xs f else structural s f
  | _ => structural s f

/-- `execAnyArray` -/
def execAnyArray (c : Ctx) (item : ItemK) (any : AnyK) (s : St) (nx : Option Node) (v : Item) (f : Found) : Res :=
  match v with
  | .arr xs => any s nx xs f 1 1 1 false c.lax
  | _ =>
    if c.lax then executeNextItem c item s nx v f
    else structural s f

/-- `execLastConst` -/
def execLastConst (c : Ctx) (item : ItemK) (s : St) (nx : Option Node) (f : Found) : Res :=
  if s.innermost < 0 then ⟨s, f, .failed, some (.hard .lastOutside)⟩
  else if nx.isNone && f.isNone then ⟨s, f, .ok, none⟩
  else executeNextItem c item s nx (.int (s.innermost - 1)) f

/-- `execConstNode` -/
def execConstNode (c : Ctx) (item : ItemK) (any : AnyK) (s : St) (n : Node) (k : Const)
    (nx : Option Node) (v : Item) (f : Found) (unwrap : Bool) : Res :=
  match k with
  | .null => execLiteral c item s nx .null f
  | .true_ => execLiteral c item s nx (.bool true) f
  | .false_ => execLiteral c item s nx (.bool false) f
  | .root => withBaseObject s (c.addrOf c.root) 0 fun s' => executeNextItem c item s' nx c.root f
  | .current => executeNextItem c item s nx s.current f
  | .anyKey => execAnyKey c any s n nx v f unwrap
  | .anyArray => execAnyArray c item any s nx v f
  | .last => execLastConst c item s nx f

/-- the unwrapping step of `executeItemOptUnwrapResult`: arrays in the sequence are replaced by
    their elements (`executeItemUnwrapTargetArray(nil, item, found)` only appends) -/
def unwrapSeq : List Item → List Item
  | [] => []
  | .arr xs :: rest => xs ++ unwrapSeq rest
  | x :: rest => x :: unwrapSeq rest

/-- `executeItemOptUnwrapResult(node, value, unwrap, found)`; `found` is never nil here -/
def optUnwrapResult (c : Ctx) (item : ItemK) (s : St) (n : Node) (v : Item) (unwrap : Bool)
    (f : List Item) : Res :=
  if unwrap && c.lax then
    let r := executeItem c item s n v (some [])
    if r.status = .failed then ⟨r.st, some f, .failed, r.err⟩
    else ⟨r.st, some (f ++ unwrapSeq (r.found.getD [])), .ok, none⟩
  else executeItem c item s n v (some f)

/-- `executeItemOptUnwrapResultSilent` -/
def optUnwrapResultSilent (c : Ctx) (item : ItemK) (s : St) (n : Node) (v : Item) (unwrap : Bool)
    (f : Found) : Res :=
  let r :=
    match f with
    | some l => optUnwrapResult c item { s with verbose := false } n v unwrap l
    | none =>
      -- only reached with unwrap = false (lax `exists`): plain executeItem with nil found
      executeItem c item { s with verbose := false } n v none
  { r with st := { r.st with verbose := s.verbose } }

/-! ## predicates -/

/-- `compareBool` -/
def compareBool (l : Bool) (r : Item) : Option Int :=
  match r with
  | .bool r => some (if l = r then 0 else if l then 1 else -1)
  | _ => none

/-- `applyCompare(op, cmp)` -/
def applyCompare (op : BinOp) (cmp : Int) : Pred × Option Err :=
  match op with
  | .eq => (predFrom (cmp = 0), none)
  | .ne => (predFrom (cmp ≠ 0), none)
  | .lt => (predFrom (cmp < 0), none)
  | .gt => (predFrom (cmp > 0), none)
  | .le => (predFrom (cmp ≤ 0), none)
  | .ge => (predFrom (cmp ≥ 0), none)
  | _ => (.unknown, some .invalid)

/-- outcome of a predicate callback; `panic` = the Go code panics -/
inductive CbOut | val (p : Pred) (e : Option Err) | panic
deriving Repr

/-- `applyCompare` as a callback outcome -/
def cmpOut (op : BinOp) (cmp : Int) : CbOut := .val (applyCompare op cmp).1 (applyCompare op cmp).2

def isNumber : Item → Bool | .int _ | .flt _ | .jnum _ => true | _ => false

/-- `parsableNumber(v)`: false for a json.Number that is neither an int64 nor a float64 -/
def parsableNumber : Item → Bool
  | .jnum t => (match Num.jcast t with | .bad => false | _ => true)
  | _ => true

/-- the numeric case of `compareItems`: `left` is an int64, float64 or json.Number -/
def compareNumberItems (op : BinOp) (l r : Item) : CbOut :=
  if isNumber r then
    if !parsableNumber l || !parsableNumber r then .val .unknown none else
    match Num.compareNumeric l r with
    | some cmp => cmpOut op cmp
    | none => .panic
  else .val .unknown none

/-- `exec.compareItems(node, left, right)` -/
def compareItems (c : Ctx) (op : BinOp) (l r : Item) : CbOut :=
  match l, r with
  | .null, .null => cmpOut op 0
  | .null, _ => .val (predFrom (op = .ne)) none
  | _, .null => .val (predFrom (op = .ne)) none
  | .bool a, _ =>
    match compareBool a r with
    | some cmp => cmpOut op cmp
    | none => .val .unknown none
  | .int _, _ | .flt _, _ | .jnum _, _ => compareNumberItems op l r
  | .str a, .str b =>
    let cmp : Int := match Item.strCmp a b with | .lt => -1 | .eq => 0 | .gt => 1
    if op = .eq then .val (predFrom (cmp = 0)) none
    else cmpOut op cmp
  | .str _, _ => .val .unknown none
  | .dt a, _ =>
    match r with
    | .dt b =>
      match Time.compareDatetime c.env c.useTZ a b with
      | .ok cmp => if cmp < -1 then .val .unknown none else cmpOut op cmp
      | .error _ => .val .unknown (some (.hard .tzRequired))
    | _ => .val .unknown (some .invalid)     -- unknownDateTime(val2): ErrInvalid
  | .arr _, _ | .obj _, _ => .val .unknown none

def isPrefix : List Char → List Char → Bool
  | [], _ => true
  | _ :: _, [] => false
  | a :: as, b :: bs => a = b && isPrefix as bs

/-- `executeStartsWith(whole, initial)` -/
def startsWith (whole initial : Item) : CbOut :=
  match whole, initial with
  | .str s, .str p => .val (predFrom (isPrefix p s)) none
  | _, _ => .val .unknown none

/-- `executeLikeRegex` -/
def likeRegex (c : Ctx) (pattern : List Char) (flags : Nat) (v : Item) : CbOut :=
  match v with
  | .str s =>
    match c.regexMatch pattern flags s with
    | some b => .val (predFrom b) none
    | none => .panic
  | _ => .val .unknown none

/-- state of the pair loop of `executePredicate` -/
structure PairAcc where
  hasErr : Bool
  found : Bool
  done : Option (Pred × Option Err × Bool)   -- early return: outcome, error, panicked

/-- one callback application inside the double loop -/
def pairStep (strict : Bool) (cb : Item → Item → CbOut) (acc : PairAcc) (l r : Item) : PairAcc :=
  match acc.done with
  | some _ => acc
  | none =>
    match cb l r with
    | .panic => { acc with done := some (.unknown, some .invalid, true) }
    | .val p e =>
      match e with
      | some e => { acc with done := some (.unknown, some e, false) }
      | none =>
        match p with
        | .unknown => if strict then { acc with done := some (.unknown, none, false) } else { acc with hasErr := true }
        | .t => if !strict then { acc with done := some (.t, none, false) } else { acc with found := true }
        | .f => acc

def pairLoop (strict : Bool) (cb : Item → Item → CbOut) (ls rs : List Item) : PairAcc :=
  ls.foldl (fun acc l => rs.foldl (fun acc r => pairStep strict cb acc l r) acc) ⟨false, false, none⟩

/-- the pair loop of `executePredicate` and its final verdict, from state `s` -/
def predicateTail (c : Ctx) (s : St) (cb : Item → Item → CbOut) (lSeq rSeq : List Item) : PRes :=
  let acc := pairLoop (!c.lax) cb lSeq rSeq
  match acc.done with
  | some (p, e, pk) => ⟨{ s with panicked := s.panicked || pk }, p, e⟩
  | none =>
    if acc.found then ⟨s, .t, none⟩
    else if acc.hasErr then ⟨s, .unknown, none⟩
    else ⟨s, .f, none⟩

/-- `exec.executePredicate(pred, left, right, value, unwrapRightArg, callback)` -/
def executePredicate (c : Ctx) (item : ItemK) (s : St) (left : Node) (right : Option Node) (v : Item)
    (unwrapRight : Bool) (cb : Item → Item → CbOut) : PRes :=
  let rl := optUnwrapResultSilent c item s left v true (some [])
  if rl.status = .failed then ⟨rl.st, .unknown, rl.err⟩ else
  match right with
  | some rn =>
    let rr := optUnwrapResultSilent c item rl.st rn v unwrapRight (some [])
    if rr.status = .failed then ⟨rr.st, .unknown, rr.err⟩
    else predicateTail c rr.st cb (rl.found.getD []) (rr.found.getD [])
  | none => predicateTail c rl.st cb (rl.found.getD []) [.null]

def isCompareOp : BinOp → Bool
  | .eq | .ne | .lt | .gt | .le | .ge => true
  | _ => false

/-- `exec.executeBinaryBoolItem` -/
def executeBinaryBoolItem (c : Ctx) (item : ItemK) (bool : BoolK) (s : St) (op : BinOp)
    (l r : Option Node) (v : Item) : PRes :=
  match l with
  | none => ⟨{ s with panicked := true }, .unknown, some .invalid⟩   -- nil operand: nil dereference
  | some l =>
    match op with
    | .and =>
      match r with
      | none => ⟨{ s with panicked := true }, .unknown, some .invalid⟩
      | some r =>
        let a := bool s l v false
        if a.out = .f || a.err.isSome then a
        else
          let b := bool a.st r v false
          if b.out = .t then ⟨b.st, a.out, b.err⟩ else b
    | .or =>
      match r with
      | none => ⟨{ s with panicked := true }, .unknown, some .invalid⟩
      | some r =>
        let a := bool s l v false
        if a.out = .t || a.err.isSome then a
        else
          let b := bool a.st r v false
          if b.out = .f then ⟨b.st, a.out, a.err⟩ else b
    | .startsWith => executePredicate c item s l r v false startsWith
    | op =>
      if isCompareOp op then executePredicate c item s l r v true (compareItems c op)
      else ⟨s, .unknown, some .invalid⟩

/-- `exec.executeUnaryBoolItem` -/
def executeUnaryBoolItem (c : Ctx) (item : ItemK) (bool : BoolK) (s : St) (op : UnOp)
    (operand : Option Node) (v : Item) : PRes :=
  match op, operand with
  | .not, some x =>
    let a := bool s x v false
    match a.out with
    | .unknown => a
    | .t => ⟨a.st, .f, none⟩
    | .f => ⟨a.st, .t, none⟩
  | .isUnknown, some x =>
    let a := bool s x v false
    if a.err = some .cancelled then ⟨a.st, .unknown, a.err⟩
    else ⟨a.st, predFrom (a.out = .unknown), none⟩
  | .exists, some x =>
    if !c.lax then
      let r := optUnwrapResultSilent c item s x v false (some [])
      if r.status = .failed then ⟨r.st, .unknown, r.err⟩
      else if (r.found.getD []).isEmpty then ⟨r.st, .f, none⟩
      else ⟨r.st, .t, none⟩
    else
      let r := optUnwrapResultSilent c item s x v false none
      if r.status = .failed then ⟨r.st, .unknown, r.err⟩
      else if r.status = .ok then ⟨r.st, .t, none⟩
      else ⟨r.st, .f, none⟩
  | .not, none | .isUnknown, none | .exists, none =>
    ⟨{ s with panicked := true }, .unknown, some .invalid⟩
  | _, _ => ⟨s, .unknown, some .invalid⟩

/-- `exec.executeBoolItem(node, value, canHaveNext)` (the body; the dispatcher `xBool` passes
    itself and `xItem` at smaller fuel) -/
def executeBoolItem (c : Ctx) (item : ItemK) (bool : BoolK) (s : St) (n : Node) (v : Item)
    (canHaveNext : Bool) : PRes :=
  if !canHaveNext && n.next.isSome then ⟨s, .unknown, some .invalid⟩ else
  match n with
  | .binary op l r _ => executeBinaryBoolItem c item bool s op l r v
  | .unary op x _ => executeUnaryBoolItem c item bool s op x v
  | .regex x pat fl _ => executePredicate c item s x none v false (fun l _ => likeRegex c pat fl l)
  | _ => ⟨s, .unknown, some .invalid⟩

/-- the JSON value of a predicate outcome: `true`, `false`, or `null` for unknown -/
def predItem : Pred → Item
  | .unknown => .null
  | .t => .bool true
  | .f => .bool false

/-- `exec.appendBoolResult` -/
def appendBoolResult (c : Ctx) (item : ItemK) (nx : Option Node) (f : Found) (p : PRes) : Res :=
  match p.err with
  | some e => ⟨p.st, f, .failed, some e⟩
  | none =>
    if nx.isNone && f.isNone then ⟨p.st, f, .ok, none⟩
    else
      executeNextItem c item p.st nx (predItem p.out) f

/-- `exec.executeNestedBoolItem` -/
def executeNestedBoolItem (bool : BoolK) (s : St) (n : Node) (v : Item) : PRes :=
  let r := bool { s with current := v } n v false
  { r with st := { r.st with current := s.current } }

/-! ## arithmetic -/

/-- loop body of `execUnaryMathExpr`; `some r` = return `r` now -/
structure UAcc where
  st : St
  found : Found
  res : Status
  ret : Option Res

def unaryStep (c : Ctx) (item : ItemK) (cb : Num.UCallback) (nx : Option Node) (a : UAcc) (v : Item) : UAcc :=
  match a.ret with
  | some _ => a
  | none =>
    let probe := a.found.isNone && nx.isNone
    let early : UAcc := { a with ret := some ⟨a.st, a.found, .ok, none⟩ }
    let go (val : Item) : UAcc :=
      let r := executeNextItem c item a.st nx val a.found
      if r.status = .failed then { a with st := r.st, found := r.found, ret := some r }
      else if r.status = .ok then
        (if a.found.isNone then { a with st := r.st, found := r.found, ret := some ⟨r.st, r.found, .ok, none⟩ }
         else { a with st := r.st, found := r.found, res := .ok })
      else { a with st := r.st, found := r.found }
    let bad : UAcc := { a with ret := some (returnVerboseError a.st a.found) }
    match v with
    | .int i => if probe then early else go (.int (Num.applyI cb i))
    | .flt x => if probe then early else go (.flt (Num.applyF cb x))
    | .jnum t =>
      if probe then early
      else match Num.castJSONNumber t cb with
        | some val => go val
        | none => bad
    | other => if probe then go other else bad

/-- `exec.execUnaryMathExpr` -/
def execUnaryMathExpr (c : Ctx) (item : ItemK) (s : St) (operand : Option Node) (nx : Option Node)
    (v : Item) (cb : Num.UCallback) (f : Found) : Res :=
  match operand with
  | none => ⟨{ s with panicked := true }, f, .failed, some .invalid⟩
  | some x =>
    let r := optUnwrapResult c item s x v true []
    if r.status = .failed then ⟨r.st, f, .failed, r.err⟩
    else
      let a := (r.found.getD []).foldl (unaryStep c item cb nx) ⟨r.st, f, .notFound, none⟩
      match a.ret with
      | some res => res
      | none => ⟨a.st, a.found, a.res, none⟩

def nonFiniteItem : Item → Bool
  | .flt d => d.isInf || d.isNaN
  | _ => false

/-- `exec.execBinaryMathExpr` -/
def execBinaryMathExpr (c : Ctx) (item : ItemK) (s : St) (op : BinOp) (l r : Option Node)
    (nx : Option Node) (v : Item) (f : Found) : Res :=
  match l, r with
  | some l, some r =>
    let rl := optUnwrapResult c item s l v true []
    if rl.status = .failed then ⟨rl.st, f, .failed, rl.err⟩ else
    match rl.found.getD [] with
    | [lv] =>
      let rr := optUnwrapResult c item rl.st r v true []
      if rr.status = .failed then ⟨rr.st, f, .failed, rr.err⟩ else
      match rr.found.getD [] with
      | [rv] =>
        match Num.mathOp lv rv op with
        | .error _ => returnVerboseError rr.st f
        | .ok val =>
          if nonFiniteItem val then returnVerboseError rr.st f
          else if nx.isNone && f.isNone then ⟨rr.st, f, .ok, none⟩
          else executeNextItem c item rr.st nx val f
      | _ => returnVerboseError rr.st f
    | _ => returnVerboseError rl.st f
  | _, _ => ⟨{ s with panicked := true }, f, .failed, some .invalid⟩

/-! ## item methods -/

def typeName : Item → List Char
  | .obj _ => "object".toList
  | .arr _ => "array".toList
  | .str _ => "string".toList
  | .int _ | .flt _ | .jnum _ => "number".toList
  | .bool _ => "boolean".toList
  | .null => "null".toList
  | .dt d =>
    match d.kind with
    | .date => "date".toList
    | .time => "time without time zone".toList
    | .timetz => "time with time zone".toList
    | .timestamp => "timestamp without time zone".toList
    | .timestamptz => "timestamp with time zone".toList

/-- `execMethodSize` -/
def execMethodSize (c : Ctx) (item : ItemK) (s : St) (nx : Option Node) (v : Item) (f : Found) : Res :=
  match v with
  | .arr xs => executeNextItem c item s nx (.int xs.length) f
  | _ =>
    if !c.lax then structural s f   -- below `.**` the item is skipped (repair D32), otherwise an error
    else executeNextItem c item s nx (.int 1) f

/-- outcome of the value conversion of an item method -/
inductive Conv
  | val (v : Item)      -- converted value, continue with the next item
  | verbose             -- `returnVerboseError`
  | hard (k : Hard)     -- returned directly with `ErrExecution`
  | viaReturnError (e : Err)   -- `exec.returnError(err)`
deriving Repr

def nonFinite (f : F64) : Bool := f.isInf || f.isNaN

/-- `.double()` on a non-array -/
def convDouble : Item → Conv
  | .int i => let d := F64.ofInt i; if nonFinite d then .verbose else .val (.flt d)
  | .flt d => if nonFinite d then .verbose else .val (.flt d)
  | .jnum t =>
    match Decimal.jnumFloat64 t with
    | .ok d => if nonFinite d then .verbose else .val (.flt d)
    | .error _ => .verbose
  | .str t =>
    match Decimal.parseFloat t with
    | .ok d => if nonFinite d then .verbose else .val (.flt d)
    | .error _ => .verbose
  | _ => .verbose

def int32Check (i : Int) : Conv := if i > Num.maxInt32 || i < Num.minInt32 then .verbose else .val (.int i)

/-- `.integer()` on a non-array -/
def convInteger : Item → Conv
  | .int i => int32Check i
  | .flt d => int32Check (F64.toInt64 (F64.round d))
  | .jnum t =>
    match Decimal.jnumInt64 t with
    | .ok i => int32Check i
    | .error _ =>
      match Decimal.jnumFloat64 t with
      | .ok d => int32Check (F64.toInt64 (F64.round d))
      | .error _ => .verbose
  | .str t =>
    match Decimal.parseInt10 32 t with
    | .ok i => int32Check i
    | .error _ => .verbose
  | _ => .verbose

/-- the float64 range test of `.bigint()`: `val >= MaxInt64 || val < MinInt64 || Inf || NaN`
    (the constants are converted to float64, i.e. ±2^63) -/
def bigintOutOfRange (d : F64) : Bool :=
  F64.gt d F64.maxInt64F || F64.feq d F64.maxInt64F || F64.lt d F64.minInt64F || nonFinite d

/-- `.bigint()` on a non-array -/
def convBigInt : Item → Conv
  | .int i => .val (.int i)
  | .flt d => if bigintOutOfRange d then .verbose else .val (.int (F64.toInt64 (F64.round d)))
  | .jnum t =>
    match Decimal.jnumInt64 t with
    | .ok i => .val (.int i)
    | .error _ =>
      match Decimal.jnumFloat64 t with
      | .ok d => if bigintOutOfRange d then .verbose else .val (.int (F64.toInt64 (F64.round d)))
      | .error _ => .verbose
  | .str t =>
    match Decimal.parseInt10 64 t with
    | .ok i => .val (.int i)
    | .error _ => .verbose
  | _ => .verbose

/-- `.string()` on a non-array -/
def convString : Item → Conv
  | .str t => .val (.str t)
  | .dt d => .val (.str (Time.toString d))
  | .jnum t => .val (.str t)
  | .int i => .val (.str (Decimal.formatInt i))
  | .flt d => .val (.str (Decimal.formatF d))
  | .bool b => .val (.str (if b then "true".toList else "false".toList))
  | _ => .verbose

/-- simple case folding as far as `strings.EqualFold` against the ASCII words below can see it:
    ASCII letters, U+017F (ſ ↔ s) and U+212A (K ↔ k) -/
def foldC (ch : Char) : Char :=
  if ch = Char.ofNat 0x17F then 's' else if ch = Char.ofNat 0x212A then 'k' else Decimal.lowerC ch

def equalFold (s : List Char) (w : String) : Bool := s.map foldC == w.toList

/-- `execBooleanString` -/
def booleanString (t : List Char) : Option Bool :=
  match t with
  | [] => none
  | ch :: rest =>
    let single := rest.isEmpty
    if ch = 't' || ch = 'T' then (if single || equalFold t "true" then some true else none)
    else if ch = 'f' || ch = 'F' then (if single || equalFold t "false" then some false else none)
    else if ch = 'y' || ch = 'Y' then (if single || equalFold t "yes" then some true else none)
    else if ch = 'n' || ch = 'N' then (if single || equalFold t "no" then some false else none)
    else if ch = 'o' || ch = 'O' then
      (if equalFold t "on" then some true else if equalFold t "off" then some false else none)
    else if ch = '1' then (if single then some true else none)
    else if ch = '0' then (if single then some false else none)
    else none

def isIntegral (d : F64) : Bool := F64.feq d (F64.trunc d)

/-- `.boolean()` on a non-array -/
def convBoolean : Item → Conv
  | .bool b => .val (.bool b)
  | .int i => .val (.bool (i ≠ 0))
  | .flt d => if !isIntegral d then .verbose else .val (.bool (!F64.feq d F64.zero))
  | .jnum t =>
    match Decimal.jnumFloat64 t with
    | .ok d => if !isIntegral d then .verbose else .val (.bool (!F64.feq d F64.zero))
    | .error _ => .verbose
  | .str t =>
    match booleanString t with
    | some b => .val (.bool b)
    | none => .verbose
  | _ => .verbose

/-- `.abs() .floor() .ceiling()` on a non-array -/
def convNumericItem (cb : Num.UCallback) : Item → Conv
  | .int i => .val (.int (Num.applyI cb i))
  | .flt d => .val (.flt (Num.applyF cb d))
  | .jnum t =>
    match Num.castJSONNumber t cb with
    | some v => .val v
    | none => .verbose
  | _ => .verbose

/-- `getNodeInt32(node, meth, field)` -/
def getNodeInt32 (n : Node) : Except Err Int :=
  match n with
  | .integer i _ => if i > Num.maxInt32 || i < Num.minInt32 then .error .verbose else .ok i
  | _ => .error (.hard .nodeType)

/-- count of the characters `1`…`9` before the decimal point -/
def countNonZeroDigits : List Char → Nat
  | [] => 0
  | ch :: rest => if ch = '.' then 0 else (if '1' ≤ ch && ch ≤ '9' then 1 else 0) + countNonZeroDigits rest

/-- `exec.executeDecimalMethod(node, value, num)` -/
def executeDecimalMethod (l r : Option Node) (num : F64) : Except Err F64 :=
  match l with
  | none => .ok num
  | some ln =>
    match getNodeInt32 ln with
    | .error e => .error e
    | .ok precision =>
      if precision < 1 || precision > 1000 then .error (.hard .precision) else
      let scaleR : Except Err Int :=
        match r with
        | none => .ok 0
        | some rn =>
          match getNodeInt32 rn with
          | .error e => .error e
          | .ok sc => if sc < -1000 || sc > 1000 then .error (.hard .scale) else .ok sc
      match scaleR with
      | .error e => .error e
      | .ok scale =>
        let ratio := F64.pow10 scale
        let scaled := F64.mul num ratio
        -- when num*ratio overflows (ratio finite), num has no digits beyond the scale: unchanged
        let rounded := if scaled.isInf && !ratio.isInf then num else F64.div (F64.round scaled) ratio
        -- rounding up at a negative scale can leave the float64 range
        if rounded.isInf then .error .verbose else
        let count : Int := countNonZeroDigits (Decimal.formatF rounded)
        if count > 0 && count > precision - scale then .error .verbose else .ok rounded

/-- `.number()` / `.decimal(p,s)` on a non-array; `dec = some (l, r)` for `.decimal` -/
def convNumber (dec : Option (Option Node × Option Node)) (v : Item) : Conv :=
  let num : Option (Except Unit F64) :=
    match v with
    | .flt d => some (.ok d)
    | .int i => some (.ok (F64.ofInt i))
    | .jnum t => some (match Decimal.jnumFloat64 t with | .ok d => .ok d | .error _ => .error ())
    | .str t => some (match Decimal.parseFloat t with | .ok d => .ok d | .error _ => .error ())
    | _ => none
  match num with
  | none => .verbose
  | some (.error _) => .verbose
  | some (.ok d) =>
    if nonFinite d then .verbose
    else
      match dec with
      | none => .val (.flt d)
      | some (l, r) =>
        match executeDecimalMethod l r d with
        | .ok d' => .val (.flt d')
        | .error e => .viaReturnError e

/-- common shape of the conversion methods: unwrap an array target in lax mode, otherwise convert -/
def execConvMethod (c : Ctx) (item : ItemK) (any : AnyK) (s : St) (n : Node) (nx : Option Node)
    (v : Item) (f : Found) (unwrap : Bool) (conv : Item → Conv) : Res :=
  match v with
  | .arr xs =>
    if unwrap then unwrapTargetArray any s n xs f else returnVerboseError s f
  | _ =>
    match conv v with
    | .val out => executeNextItem c item s nx out f
    | .verbose => returnVerboseError s f
    | .hard k => ⟨s, f, .failed, some (.hard k)⟩
    | .viaReturnError e => returnError s f e

/-- state of the member loop of `executeKeyValueMethod` -/
structure KVAcc where
  st : St
  found : Found
  res : Status
  ret : Option Res
  stop : Bool

/-- the `{"key","value","id"}` object of one member -/
def kvObj (id : Int) (kv : List Char × Item) : Item :=
  .obj [("id".toList, .int id), ("key".toList, .str kv.1), ("value".toList, kv.2)]

/-- `exec.lastGeneratedObjectID++; setTempBaseObject(obj, exec.lastGeneratedObjectID)` -/
def kvEnter (c : Ctx) (st : St) (obj : Item) : St :=
  { st with lastGenId := st.lastGenId + 1, baseAddr := c.addrOf obj, baseId := st.lastGenId + 1 }

def kvStep (c : Ctx) (item : ItemK) (nx : Option Node) (id : Int) (a : KVAcc) (kv : List Char × Item) : KVAcc :=
  if a.ret.isSome || a.stop then a else
  let r := executeNextItem c item (kvEnter c a.st (kvObj id kv)) nx (kvObj id kv) a.found
  if r.status = .failed then { a with st := r.st, found := r.found, res := r.status, ret := some r }
  else if r.status = .ok && a.found.isNone then { st := r.st, found := r.found, res := r.status, ret := none, stop := true }
  else { a with st := r.st, found := r.found, res := r.status }

/-- `exec.executeKeyValueMethod` -/
def executeKeyValueMethod (c : Ctx) (item : ItemK) (any : AnyK) (s : St) (n : Node) (nx : Option Node)
    (v : Item) (f : Found) (unwrap : Bool) : Res :=
  match v with
  | .arr xs => if unwrap then unwrapTargetArray any s n xs f else returnVerboseError s f
  | .obj kvs =>
    if kvs.isEmpty then ⟨s, f, .notFound, none⟩
    else if nx.isNone && f.isNone then ⟨s, f, .ok, none⟩
    else
      let a0 := c.addrOf v
      let off : Int := if a0 > s.baseAddr then (a0 - s.baseAddr : Nat) else (s.baseAddr - a0 : Nat)
      let id : Int := off + s.baseId * 10000000000
      let a := kvs.foldl (kvStep c item nx id) ⟨s, f, .ok, none, false⟩
      let restore (st : St) : St := { st with baseAddr := s.baseAddr, baseId := s.baseId }
      match a.ret with
      | some r => { r with st := restore r.st }
      | none => ⟨restore a.st, a.found, a.res, none⟩
  | _ => returnVerboseError s f

/-- `exec.execMethodNode` -/
def execMethodNode (c : Ctx) (item : ItemK) (any : AnyK) (s : St) (n : Node) (m : Method)
    (nx : Option Node) (v : Item) (f : Found) (unwrap : Bool) : Res :=
  match m with
  | .number => execConvMethod c item any s n nx v f unwrap (convNumber none)
  | .abs => execConvMethod c item any s n nx v f unwrap (convNumericItem .abs)
  | .floor => execConvMethod c item any s n nx v f unwrap (convNumericItem .floor)
  | .ceiling => execConvMethod c item any s n nx v f unwrap (convNumericItem .ceil)
  | .type => executeNextItem c item s nx (.str (typeName v)) f
  | .size => execMethodSize c item s nx v f
  | .double => execConvMethod c item any s n nx v f unwrap convDouble
  | .integer => execConvMethod c item any s n nx v f unwrap convInteger
  | .bigint => execConvMethod c item any s n nx v f unwrap convBigInt
  | .string => execConvMethod c item any s n nx v f unwrap convString
  | .boolean => execConvMethod c item any s n nx v f unwrap convBoolean
  | .keyvalue => executeKeyValueMethod c item any s n nx v f unwrap

def kindOfOp : UnOp → Option DTKind
  | .date => some .date | .time => some .time | .timeTZ => some .timetz
  | .timestamp => some .timestamp | .timestampTZ => some .timestamptz | _ => none

/-- `exec.parseDateTime(op, datetime, arg)` -/
def parseDateTime (c : Ctx) (op : UnOp) (src : List Char) (arg : Option Node) : Except Err DateTime :=
  let precR : Except Err Int :=
    match arg with
    | some a =>
      if op ≠ .datetime && op ≠ .date then
        match getNodeInt32 a with
        | .error e => .error e
        | .ok p => if p < 0 then .error .verbose else .ok (if p > 6 then 6 else p)
      else .ok (-1)
    | none => .ok (-1)
  match precR with
  | .error e => .error e
  | .ok p =>
    match Time.parseTime c.env src p with
    | some d => .ok d
    | none => .error .verbose

/-- `exec.executeDateTimeMethod` on a non-unwrapped value -/
def executeDateTimeMethod (c : Ctx) (item : ItemK) (s : St) (op : UnOp) (arg : Option Node)
    (nx : Option Node) (v : Item) (f : Found) : Res :=
  match v with
  | .str src =>
    let parsed : Except Err DateTime :=
      if op = .datetime && arg.isSome then .error (.hard .template) else parseDateTime c op src arg
    match parsed with
    | .error e => returnError s f e
    | .ok d =>
      let casted : Except Err DateTime :=
        match kindOfOp op with
        | none => .ok d
        | some k =>
          match Time.castTo c.env c.useTZ k d with
          | .ok d' => .ok d'
          | .error .notRecognized => .error .verbose
          | .error .tzRequired => .error (.hard .tzRequired)
      match casted with
      | .error e => returnError s f e
      | .ok d' =>
        if nx.isNone && f.isNone then ⟨s, f, .ok, none⟩ else executeNextItem c item s nx (.dt d') f
  | _ => returnVerboseError s f

/-! ## `.**` and the generic element loop -/

def collection : Item → Option (List Item)
  | .obj kvs => some (members kvs)
  | .arr xs => some xs
  | _ => none

/-- state of the loop of `executeAnyItem`; `ret` = early return -/
structure AAcc where
  st : St
  found : Found
  res : Status
  err : Option Err
  ret : Option Res

/-- the "check expression" half of one iteration of `executeAnyItem` -/
def anyVisit (item : ItemK) (node : Option Node) (level first last : Nat) (ignore unwrapNext : Bool)
    (a : AAcc) (v : Item) : AAcc :=
  if level ≥ first || (first = maxU32 && last = maxU32 && (collection v).isNone) then
    match node with
    | some n =>
      let r := item (if ignore then { a.st with ignoreSE := true } else a.st) n v a.found unwrapNext
      if r.status = .failed || (r.status = .ok && a.found.isNone) then
        { st := r.st, found := r.found, res := r.status, err := r.err, ret := some r }
      else { st := r.st, found := r.found, res := r.status, err := r.err, ret := none }
    | none =>
      match a.found with
      | some l => { a with found := some (l ++ [v]), res := .ok }
      | none => { a with ret := some ⟨a.st, none, .ok, none⟩ }
  else a

/-- the recursive half of one iteration of `executeAnyItem` -/
def anyDescend (any : AnyK) (node : Option Node) (level first last : Nat) (ignore unwrapNext : Bool)
    (a : AAcc) (v : Item) : AAcc :=
  if level < last then
    let r := any a.st node ((collection v).getD []) a.found (level + 1) first last ignore unwrapNext
    if r.status = .failed || (r.status = .ok && a.found.isNone) then
      { st := r.st, found := r.found, res := r.status, err := r.err, ret := some r }
    else { st := r.st, found := r.found, res := r.status, err := r.err, ret := none }
  else a

/-- one iteration of the loop of `executeAnyItem` for element `v` -/
def anyStep (item : ItemK) (any : AnyK) (node : Option Node) (level first last : Nat)
    (ignore unwrapNext : Bool) (a : AAcc) (v : Item) : AAcc :=
  match a.ret with
  | some _ => a
  | none =>
    let a1 := anyVisit item node level first last ignore unwrapNext a v
    match a1.ret with
    | some _ => a1
    | none => anyDescend any node level first last ignore unwrapNext a1 v

/-- `exec.executeAnyItem` (the body; `any` is the recursive call at smaller fuel) -/
def executeAnyItem (item : ItemK) (any : AnyK) (s : St) (node : Option Node) (vs : List Item)
    (f : Found) (level first last : Nat) (ignore unwrapNext : Bool) : Res :=
  if level > last then ⟨s, f, .notFound, none⟩ else
  let size := (f.getD []).length
  let a := vs.foldl (anyStep item any node level first last ignore unwrapNext) ⟨s, f, .notFound, none, none⟩
  let restore (st : St) : St := { st with ignoreSE := s.ignoreSE }
  match a.ret with
  | some r => { r with st := restore r.st }
  | none =>
    let res :=
      if a.found.isSome && a.res ≠ .failed && a.err.isNone && (a.found.getD []).length > size then .ok
      else a.res
    ⟨restore a.st, a.found, res, a.err⟩

/-- the `switch value := value.(type)` of `execAnyNode`: descend into a container -/
def anyInto (c : Ctx) (any : AnyK) (s1 : St) (first last : Nat) (nx : Option Node) (v : Item) (f1 : Found) : Res :=
  match v with
  | .obj kvs => any s1 nx (members kvs) f1 1 first last true c.lax
  | .arr xs => any s1 nx xs f1 1 first last true c.lax
  | _ => ⟨s1, f1, .notFound, none⟩

/-- `exec.execAnyNode` -/
def execAnyNode (c : Ctx) (item : ItemK) (any : AnyK) (s : St) (first last : Nat) (nx : Option Node)
    (v : Item) (f : Found) : Res :=
  if first = 0 then
    let r := executeNextItem c item { s with ignoreSE := true } nx v f
    if r.status = .failed || (r.status = .ok && f.isNone) then
      { r with st := { r.st with ignoreSE := s.ignoreSE } }
    else
      let r2 := anyInto c any r.st first last nx v r.found
      { r2 with st := { r2.st with ignoreSE := s.ignoreSE } }
  else anyInto c any s first last nx v f

/-! ## subscripts -/

/-- `exec.getArrayIndex(node, value)`: index, or the error to pass to `returnError` -/
def getArrayIndex (c : Ctx) (item : ItemK) (s : St) (n : Node) (v : Item) : St × Except Err Int :=
  let r := executeItem c item s n v (some [])
  if r.status = .failed then
    match r.err with
    | some e => (r.st, .error e)
    | none => (r.st, .error .verbose)   -- suppressed failure: reported as the subscript error
  else
    match r.found.getD [] with
    | [x] =>
      match Num.getJSONInt32 x with
      | .ok i => (r.st, .ok i)
      | .error .verbose => (r.st, .error .verbose)
      | .error .invalid => (r.st, .error .invalid)
    | _ => (r.st, .error .verbose)

/-- `exec.execSubscript(node, value, arraySize)` -/
def execSubscript (c : Ctx) (item : ItemK) (s : St) (sub : Node) (v : Item) (size : Int) :
    St × Except Err (Int × Int) :=
  match sub with
  | .binary .subscript (some l) r _ =>
    match getArrayIndex c item s l v with
    | (s1, .error e) => (s1, .error e)
    | (s1, .ok from_) =>
      let (s2, toR) : St × Except Err Int :=
        match r with
        | some rn => getArrayIndex c item s1 rn v
        | none => (s1, .ok from_)
      match toR with
      | .error e => (s2, .error e)
      | .ok to_ =>
        if !s2.ignoreSE && (from_ < 0 || from_ > to_ || to_ ≥ size) then (s2, .error .verbose)
        else
          let from' := if from_ < 0 then 0 else from_
          let to' := if to_ ≥ size then size - 1 else to_
          (s2, .ok (from', to'))
  | .binary .subscript none _ _ => ({ s with panicked := true }, .error .invalid)
  | _ => (s, .error (.hard .subscriptNotBinary))

/-- positions `from..to` of `xs` (both inclusive, already clipped to the array) -/
def sliceRange (xs : List Item) (from_ to_ : Int) : List Item :=
  if from_ > to_ then [] else (xs.drop from_.toNat).take (to_ - from_ + 1).toNat

/-- state of the loops of `execArrayIndex` -/
structure IAcc where
  st : St
  found : Found
  res : Status
  err : Option Err
  ret : Option Res

/-- inner loop body: one selected element; failure and probe success return from the function -/
def indexElemStep (c : Ctx) (item : ItemK) (nx : Option Node) (acc : IAcc) (v : Item) : IAcc :=
  if acc.ret.isSome then acc else
  match v with
  | .null => acc                       -- `if v == nil { continue }`
  | _ =>
    if nx.isNone && acc.found.isNone then { acc with ret := some ⟨acc.st, none, .ok, none⟩ }
    else
      let r := executeNextItem c item acc.st nx v acc.found
      if r.status = .failed || (r.status = .ok && acc.found.isNone) then
        { st := r.st, found := r.found, res := r.status, err := r.err, ret := some r }
      else { st := r.st, found := r.found, res := r.status, err := r.err, ret := none }

/-- outer loop body: one subscript -/
def indexSubStep (c : Ctx) (item : ItemK) (nx : Option Node) (xs : List Item) (v : Item)
    (a : IAcc) (sub : Node) : IAcc :=
  if a.ret.isSome then a else
  match execSubscript c item a.st sub v xs.length with
  | (s1, .error e) => { a with st := s1, ret := some (returnError s1 a.found e) }
  | (s1, .ok (from_, to_)) =>
    (sliceRange xs from_ to_).foldl (indexElemStep c item nx) { a with st := s1 }

/-- the array a subscript applies to: the value itself, or in lax mode (`autoWrap`) the one-element
    array of a non-array value; `none` = strict mode and not an array -/
def arrayOf (c : Ctx) (v : Item) : Option (List Item) :=
  match v with
  | .arr xs => some xs
  | _ => if c.lax then some [v] else none

/-- `exec.execArrayIndex` -/
def execArrayIndex (c : Ctx) (item : ItemK) (s : St) (subs : List Node) (nx : Option Node)
    (v : Item) (f : Found) : Res :=
  match arrayOf c v with
  | none => structural s f   -- strict mode, not an array: an error unless below `.**` (repair D31)
  | some xs =>
    let s0 := { s with innermost := xs.length }
    let a := subs.foldl (indexSubStep c item nx xs v) ⟨s0, f, .notFound, none, none⟩
    let restore (st : St) : St := { st with innermost := s.innermost }
    match a.ret with
    | some r => { r with st := restore r.st }
    | none => ⟨restore a.st, a.found, a.res, none⟩

/-! ## node dispatch -/

def isBoolBinOp : BinOp → Bool
  | .and | .or | .eq | .ne | .lt | .le | .gt | .ge | .startsWith => true
  | _ => false

def isMathBinOp : BinOp → Bool
  | .add | .sub | .mul | .div | .mod => true
  | _ => false

/-- `exec.execBinaryNode` -/
def execBinaryNode (c : Ctx) (item : ItemK) (bool : BoolK) (any : AnyK) (s : St) (n : Node) (op : BinOp)
    (l r : Option Node) (nx : Option Node) (v : Item) (f : Found) (unwrap : Bool) : Res :=
  if isBoolBinOp op then appendBoolResult c item nx f (bool s n v true)
  else if isMathBinOp op then execBinaryMathExpr c item s op l r nx v f
  else match op with
    | .decimal => execConvMethod c item any s n nx v f unwrap (convNumber (some (l, r)))
    | _ => ⟨s, f, .failed, some (.hard .subscriptOutside)⟩

def isDateTimeOp : UnOp → Bool
  | .datetime | .date | .time | .timeTZ | .timestamp | .timestampTZ => true
  | _ => false

/-- `exec.execUnaryNode` -/
def execUnaryNode (c : Ctx) (item : ItemK) (bool : BoolK) (any : AnyK) (s : St) (n : Node) (op : UnOp)
    (x : Option Node) (nx : Option Node) (v : Item) (f : Found) (unwrap : Bool) : Res :=
  match op with
  | .not | .isUnknown | .exists => appendBoolResult c item nx f (bool s n v true)
  | .filter =>
    match v, unwrap with
    | .arr xs, true => unwrapTargetArray any s n xs f
    | _, _ =>
      match x with
      | none => ⟨{ s with panicked := true }, f, .failed, some .invalid⟩
      | some cond =>
        let p := executeNestedBoolItem bool s cond v
        if p.err.isSome then ⟨p.st, f, .failed, p.err⟩
        else if p.out ≠ .t then ⟨p.st, f, .notFound, none⟩
        else executeNextItem c item p.st nx v f
  | .plus => execUnaryMathExpr c item s x nx v .self f
  | .minus => execUnaryMathExpr c item s x nx v .uminus f
  | _ =>   -- the six datetime methods
    match v, unwrap with
    | .arr xs, true => any s (some n) xs f 1 1 1 false false
    | _, _ => executeDateTimeMethod c item s op x nx v f

/-- the `switch` of `executeItemOptUnwrapTarget` -/
def dispatch (c : Ctx) (item : ItemK) (bool : BoolK) (any : AnyK) (s : St) (n : Node) (v : Item)
    (f : Found) (unwrap : Bool) : Res :=
  match n with
  | .const k nx => execConstNode c item any s n k nx v f unwrap
  | .str t nx => execLiteral c item s nx (.str t) f
  | .integer i nx => execLiteral c item s nx (.int i) f
  | .numeric x nx => execLiteral c item s nx (.flt x) f
  | .var name nx => execVariable c item s name nx f
  | .key k nx => execKeyNode c item any s n k nx v f unwrap
  | .binary op l r nx => execBinaryNode c item bool any s n op l r nx v f unwrap
  | .unary op x nx => execUnaryNode c item bool any s n op x nx v f unwrap
  | .regex _ _ _ nx => appendBoolResult c item nx f (bool s n v true)
  | .method m nx => execMethodNode c item any s n m nx v f unwrap
  | .any first last nx => execAnyNode c item any s first last nx v f
  | .arrayIndex subs nx => execArrayIndex c item s subs nx v f

/-- the context poll at the top of `executeItemOptUnwrapTarget`: `none` = cancelled -/
def poll (s : St) : Option St :=
  match s.budget with
  | none => some s
  | some 0 => none
  | some (b + 1) => some { s with budget := some b }

mutual
  /-- `exec.executeItemOptUnwrapTarget` -/
  def xItem (c : Ctx) : Nat → St → Node → Item → Found → Bool → Res
    | 0, s, _, _, f, _ => ⟨{ s with oof := true }, f, .failed, some .invalid⟩
    | fuel + 1, s, n, v, f, unwrap =>
      match poll s with
      | none => ⟨{ s with sawCancel := true }, f, .failed, some .cancelled⟩
      | some s' => dispatch c (xItem c fuel) (xBool c fuel) (xAny c fuel) s' n v f unwrap
  /-- `exec.executeBoolItem` -/
  def xBool (c : Ctx) : Nat → St → Node → Item → Bool → PRes
    | 0, s, _, _, _ => ⟨{ s with oof := true }, .unknown, some .invalid⟩
    | fuel + 1, s, n, v, chn => executeBoolItem c (xItem c fuel) (xBool c fuel) s n v chn
  /-- `exec.executeAnyItem` -/
  def xAny (c : Ctx) : Nat → St → Option Node → List Item → Found → Nat → Nat → Nat → Bool → Bool → Res
    | 0, s, _, _, f, _, _, _, _, _ => ⟨{ s with oof := true }, f, .failed, some .invalid⟩
    | fuel + 1, s, node, vs, f, level, first, last, ign, un =>
      executeAnyItem (xItem c fuel) (xAny c fuel) s node vs f level first last ign un
end

end Exec
end Sqljson
