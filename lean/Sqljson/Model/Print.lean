import Sqljson.Model.Ast
import Sqljson.Model.Decimal
/-!
# Printer — mirror of `AST.String()` and every `writeTo` of `path/ast/ast.go`

`toString isPrint a` is the text `a.String()` produces, or `none` where the Go code panics
(a nil operand that `writeTo` dereferences; a numeric node holding NaN/±Inf, which `NewNumeric`
can never build).  `isPrint` is `strconv.IsPrint`.

Strings are `List Char`, i.e. valid UTF-8: everything the lexer produces is (see `Lex`), so the
`\xNN` branch of `strconv.Quote` for undecodable bytes is not reachable from parsed paths and is
not modelled.  Strings are written by `ast.quote`: `strconv.Quote` with `\a` and `\U…` rewritten
to `\u0007` and `\u{…}`.
-/

namespace Sqljson
namespace Print

/-! ## `ast.quote` -/

def lowerHex (n : Nat) : Char :=
  if n < 10 then Char.ofNat (48 + n) else Char.ofNat (87 + n)

/-- `k` hex digits of `n`, most significant first -/
def hexDigits : Nat → Nat → List Char
  | 0, _ => []
  | k + 1, n => lowerHex (n / 16 ^ k % 16) :: hexDigits k n

/-- hex digits of an astral code point without leading zeros: `strings.TrimLeft(…, "0")` of the
    eight digits `strconv.Quote` writes after `\U` (five or six remain for U+10000 … U+10FFFF) -/
def hexTrim (n : Nat) : List Char :=
  if n < 0x100000 then hexDigits 5 n else hexDigits 6 n

/-- one rune of `ast.quote`: `appendEscapedRune` of `strconv.Quote` (`quote = '"'`,
    `ASCIIonly = graphicOnly = false`) with the two rewrites of `ast.quote` applied — `\a` is
    written `\u0007` and `\UXXXXXXXX` is written `\u{X…}` — so that every escape is one the
    path lexer reads back. -/
def escapeRune (isPrint : Char → Bool) (c : Char) : List Char :=
  if c = '"' || c = '\\' then ['\\', c]
  else if isPrint c then [c]
  else
    let n := c.toNat
    if n = 7 then '\\' :: 'u' :: hexDigits 4 n else if n = 8 then ['\\', 'b'] else if n = 12 then ['\\', 'f']
    else if n = 10 then ['\\', 'n'] else if n = 13 then ['\\', 'r'] else if n = 9 then ['\\', 't']
    else if n = 11 then ['\\', 'v']
    else if n < 32 || n = 127 then '\\' :: 'x' :: hexDigits 2 n
    else if n < 0x10000 then '\\' :: 'u' :: hexDigits 4 n
    else '\\' :: 'u' :: '{' :: (hexTrim n ++ ['}'])

/-- `ast.quote` (the package's replacement for `strconv.Quote`) -/
def quote (isPrint : Char → Bool) (s : List Char) : List Char :=
  '"' :: (s.flatMap (escapeRune isPrint) ++ ['"'])

/-! ## stringer tables (`ast_string.go`, `regex_string.go`) -/

def constStr : Const → List Char
  | .root => "$".toList | .current => "@".toList | .last => "last".toList
  | .anyArray => "[*]".toList | .anyKey => "*".toList | .true_ => "true".toList
  | .false_ => "false".toList | .null => "null".toList

def binStr : BinOp → List Char
  | .and => "&&".toList | .or => "||".toList | .eq => "==".toList | .ne => "!=".toList
  | .lt => "<".toList | .gt => ">".toList | .le => "<=".toList | .ge => ">=".toList
  | .startsWith => "starts with".toList | .add => "+".toList | .sub => "-".toList
  | .mul => "*".toList | .div => "/".toList | .mod => "%".toList | .subscript => "to".toList
  | .decimal => ".decimal()".toList

def unStr : UnOp → List Char
  | .exists => "exists".toList | .not => "!".toList | .isUnknown => "is unknown".toList
  | .plus => "+".toList | .minus => "-".toList | .filter => "?".toList
  | .datetime => ".datetime".toList | .date => ".date".toList | .time => ".time".toList
  | .timeTZ => ".time_tz".toList | .timestamp => ".timestamp".toList
  | .timestampTZ => ".timestamp_tz".toList

def methodStr : Method → List Char
  | .abs => ".abs()".toList | .size => ".size()".toList | .type => ".type()".toList
  | .floor => ".floor()".toList | .ceiling => ".ceiling()".toList | .double => ".double()".toList
  | .keyvalue => ".keyvalue()".toList | .bigint => ".bigint()".toList
  | .boolean => ".boolean()".toList | .integer => ".integer()".toList
  | .number => ".number()".toList | .string => ".string()".toList

/-- `regexFlags.String()` -/
def flagsStr (f : Nat) : List Char :=
  if f % 65536 = 0 then []
  else
    let bit (b : Nat) (c : Char) : List Char := if f / b % 2 = 1 then [c] else []
    " flag \"".toList ++ bit 1 'i' ++ bit 2 's' ++ bit 4 'm' ++ bit 8 'x' ++ bit 16 'q' ++ ['"']

/-! ## priorities -/

def binPriority : BinOp → Nat
  | .or => 0
  | .and => 1
  | .eq | .ne | .lt | .gt | .le | .ge | .startsWith => 2
  | .add | .sub => 3
  | .mul | .div | .mod => 4
  | .subscript | .decimal => 6

def unPriority : UnOp → Nat
  | .plus | .minus => 5
  | _ => 6

/-- `Node.priority()` -/
def priority : Node → Nat
  | .binary op _ _ _ => binPriority op
  | .unary op _ _ => unPriority op
  | _ => 6

/-- `fmt`'s `%v` of the `uint32` levels of `.**` -/
def natStr (n : Nat) : List Char := Nat.toDigits 10 n

/-- the `switch` of `AnyNode.writeTo` -/
def anyStr (first last : Nat) : List Char :=
  if first = 0 && last = maxU32 then "**".toList
  else if first = last then
    (if first = maxU32 then "**{last}".toList else "**{".toList ++ natStr first ++ ['}'])
  else if first = maxU32 then "**{last to ".toList ++ natStr last ++ ['}']
  else if last = maxU32 then "**{".toList ++ natStr first ++ " to last}".toList
  else "**{".toList ++ natStr first ++ " to ".toList ++ natStr last ++ ['}']

def parenIf (b : Bool) (s : List Char) : List Char := if b then '(' :: (s ++ [')']) else s

/-! ## `writeTo` and `String`

`Option` is the panic monad: `none` = the Go code dereferences a nil node. -/

section
variable (isPrint : Char → Bool)

/-- `n.String()` for the node types whose `String` is not `writeTo(buf, false, false)`:
    constants, methods, strings, keys, variables and numbers print themselves only (no `next`,
    no parentheses).  `none` = not such a node. -/
def simpleString? : Node → Option (Option (List Char))
  | .const k _ => some (some (constStr k))
  | .method m _ => some (some (methodStr m))
  | .str s _ => some (some (quote isPrint s))
  | .var s _ => some (some ('$' :: quote isPrint s))
  | .key s _ => some (some (quote isPrint s))
  | .numeric f _ => some (Decimal.jsonFloat f)
  | .integer i _ => some (some (Decimal.formatInt i))
  | _ => none

mutual
  /-- `n.writeTo(buf, inKey, withParens)` -/
  def writeTo : Node → Bool → Bool → Option (List Char)
    | .const k nx, inKey, _ => do
      let tail ← writeNext nx
      pure ((if k = .anyKey && inKey then ['.'] else []) ++ constStr k ++ tail)
    | .method m nx, _, _ => do
      let tail ← writeNext nx
      pure (methodStr m ++ tail)
    | .str s nx, _, _ => do
      let tail ← writeNext nx
      pure (quote isPrint s ++ tail)
    | .var s nx, _, _ => do
      let tail ← writeNext nx
      pure ('$' :: quote isPrint s ++ tail)
    | .key s nx, inKey, _ => do
      let tail ← writeNext nx
      pure ((if inKey then ['.'] else []) ++ quote isPrint s ++ tail)
    | .numeric f nx, _, _ => do
      let txt ← Decimal.jsonFloat f
      let tail ← writeNext nx
      pure (parenIf nx.isSome txt ++ tail)
    | .integer i nx, _, _ => do
      let tail ← writeNext nx
      pure (parenIf nx.isSome (Decimal.formatInt i) ++ tail)
    | .any a b nx, inKey, _ => do
      let tail ← writeNext nx
      pure ((if inKey then ['.'] else []) ++ anyStr a b ++ tail)
    | .binary op l r nx, _, withParens => do
      let body ←
        match op with
        | .decimal => do
          let ls ← stringOpt l
          let rs ← stringOpt r
          pure (".decimal(".toList ++ ls ++ (if r.isSome then ',' :: rs else []) ++ [')'])
        | .subscript => do
          let ls ← writeOpd l none
          if r.isSome then do
            let rs ← writeOpd r none
            pure (ls ++ " to ".toList ++ rs)
          else pure ls
        | _ => do
          let ls ← writeOpd l (some (binPriority op))
          let rs ← writeOpd r (some (binPriority op))
          pure (parenIf withParens (ls ++ ' ' :: binStr op ++ ' ' :: rs))
      let tail ← writeNext nx
      pure (body ++ tail)
    | .unary op x nx, _, withParens => do
      let body ←
        match op with
        | .exists => do
          let s ← writeOpd x none
          pure ("exists (".toList ++ s ++ [')'])
        | .not | .filter => do
          let s ← writeOpd x none
          pure (unStr op ++ '(' :: s ++ [')'])
        | .isUnknown => do
          let s ← writeOpd x none
          pure ('(' :: s ++ ") is unknown".toList)
        | .plus | .minus => do
          let s ← writeOpd x (some (unPriority op))
          pure (parenIf withParens (unStr op ++ s))
        | .datetime | .date | .time | .timeTZ | .timestamp | .timestampTZ => do
          let s ← stringOpt x
          pure (unStr op ++ '(' :: s ++ [')'])
      let tail ← writeNext nx
      pure (body ++ tail)
    | .regex x pat fl nx, _, withParens => do
      let s ← writeTo x false (priority x ≤ 6)
      let tail ← writeNext nx
      pure (parenIf withParens (s ++ " like_regex ".toList ++ quote isPrint pat ++ flagsStr fl) ++ tail)
    | .arrayIndex subs nx, _, _ => do
      let s ← writeSubs subs true
      let tail ← writeNext nx
      pure ('[' :: s ++ ']' :: tail)

  /-- `if next := n.Next(); next != nil { next.writeTo(buf, true, true) }` -/
  def writeNext : Option Node → Option (List Char)
    | none => some []
    | some n => writeTo n true true

  /-- an operand that `writeTo` dereferences: `x.writeTo(buf, false, x.priority() <= p)` for
      `some p`, `x.writeTo(buf, false, false)` for `none`; a nil operand panics -/
  def writeOpd : Option Node → Option Nat → Option (List Char)
    | none, _ => none
    | some x, some p => writeTo x false (priority x ≤ p)
    | some x, none => writeTo x false false

  /-- `x.String()` of an optional argument (`.decimal(…)`, `.datetime(…)`); nil prints nothing -/
  def stringOpt : Option Node → Option (List Char)
    | none => some []
    | some x =>
      match simpleString? isPrint x with
      | some r => r
      | none => writeTo x false false

  /-- the loop of `ArrayIndexNode.writeTo` -/
  def writeSubs : List Node → Bool → Option (List Char)
    | [], _ => some []
    | n :: ns, first => do
      let s ← writeTo n false false
      let rest ← writeSubs ns false
      pure ((if first then [] else [',']) ++ s ++ rest)
end

/-- `n.String()` -/
def nodeString (n : Node) : Option (List Char) :=
  match simpleString? isPrint n with
  | some r => r
  | none => writeTo isPrint n false false

/-- `(*AST).String()`; `none` = panic -/
def toString (a : AST) : Option (List Char) := do
  let s ← writeTo isPrint a.root false true
  pure ((if a.lax then [] else "strict ".toList) ++ s)

end

end Print
end Sqljson
