import Lean.Data.Json
import Sqljson.Driver.Codec
import Sqljson.Model.Api
import Sqljson.Model.Parse
import Sqljson.Props.Fuel
/-!
# Driver side of the `exec` correspondence stream

case:   {"op":"exec","ast":AST,"doc":item,"vars":null|[[name,item],…],"entry":"query|first|exists|match|eom",
         "silent":b,"usetz":b,"zone":{"initial":n,"trans":[[t,off],…]},"today":n,"cancel":null|k,
         "regex":[[pattern,flags,string,true|false|null],…]}
result: {"out":"items","v":[…]} | {"out":"first","v":item|null} | {"out":"bool","v":b} | {"out":"NULL"}
      | {"out":"error","class":"verbose|hard|cancelled|invalid"} | {"out":"panic"} | {"out":"skip","why":…}
-/

open Lean (Json)

namespace Sqljson
namespace ExecOps
open Codec

def fuelDefault : Nat := 100000

def zoneOf (j : Json) : Time.Zone :=
  let initial := (getInt? j "initial").getD 0
  let trans : List (Int × Int) :=
    match j.getObjVal? "trans" with
    | .ok (Json.arr ts) => ts.toList.filterMap fun t =>
        match t with
        | Json.arr #[a, b] => (match a.getInt?, b.getInt? with | .ok x, .ok y => some (x, y) | _, _ => none)
        | _ => none
    | _ => []
  ⟨initial, trans⟩

def varsOf (j : Json) : Except String (Option (List (List Char × Item))) :=
  match j with
  | Json.null => pure none
  | Json.arr ms => do
    let kvs ← ms.toList.mapM fun m =>
      match m with
      | Json.arr #[Json.str k, v] => do let v' ← itemOf v; pure (k.toList, v')
      | _ => .error "bad var"
    pure (some kvs)
  | _ => .error "bad vars"

structure RegexEntry where
  pattern : List Char
  flags : Nat
  str : List Char
  ans : Option Bool

def regexTable (j : Json) : List RegexEntry :=
  match j with
  | Json.arr rs => rs.toList.filterMap fun r =>
      match r with
      | Json.arr #[Json.str p, f, Json.str s, a] =>
        match f.getNat? with
        | .ok fl => some ⟨p.toList, fl, s.toList, (match a with | Json.bool b => some b | _ => none)⟩
        | _ => none
      | _ => none
  | _ => []

/-- oracle lookup; a miss answers `dflt` -/
def regexLookup (tbl : List RegexEntry) (dflt : Bool) (p : List Char) (fl : Nat) (s : List Char) : Option Bool :=
  match tbl.find? (fun e => e.pattern == p && e.flags == fl && e.str == s) with
  | some e => e.ans
  | none => some dflt

def entryOf : String → Option Api.Entry
  | "query" => some .query | "first" => some .first | "exists" => some .exists
  | "match" => some .match_ | "eom" => some .existsOrMatch | _ => none

/-- reduce the `id` of `.keyvalue()` triples to its base-object part: the offset part is derived from
    heap addresses (DESIGN §4.3); the driver runs with `addrOf = 0`, so the offset is 0 here -/
partial def maskIds : Item → Item
  | .arr xs => .arr (xs.map maskIds)
  | .obj kvs =>
    let kvs' : List (List Char × Item) := kvs.map fun (k, v) => (k, maskIds v)
    match kvs' with
    | [(k1, Item.int i), (k2, v2), (k3, v3)] =>
      if k1 == "id".toList && k2 == "key".toList && k3 == "value".toList then
        let v3' := match v2, v3 with
          | .str k, .int v => if k == "id".toList then Item.int (Int.tdiv v 10000000000) else v3
          | _, _ => v3
        .obj [(k1, .int (Int.tdiv i 10000000000)), (k2, v2), (k3, v3')]
      else .obj kvs'
    | _ => .obj kvs'
  | x => x

def errClass : Exec.Err → String
  | .verbose => "verbose" | .hard _ => "hard" | .cancelled => "cancelled" | .invalid => "invalid"

def outcomeJ : Api.Outcome → Json
  | .items xs => Json.mkObj [("out", "items"), ("v", Json.arr (xs.map (itemJ ∘ maskIds)).toArray)]
  | .first none => Json.mkObj [("out", "first"), ("v", Json.null)]
  | .first (some x) => Json.mkObj [("out", "first"), ("v", itemJ (maskIds x))]
  | .bool b => Json.mkObj [("out", "bool"), ("v", Json.bool b)]
  | .null => Json.mkObj [("out", "NULL")]
  | .error e => Json.mkObj [("out", "error"), ("class", Json.str (errClass e))]
  | .panic => Json.mkObj [("out", "panic")]
  | .outOfFuel => Json.mkObj [("out", "skip"), ("why", "out-of-fuel")]

/-- ASCII instance of the character oracles (what `xid`, `strconv.IsPrint`, `unicode.ToLower` are
    on ASCII); the path of an exec case was accepted by the Go parser, so its regexes compile. -/
def asciiOr : Oracles where
  xidStart c := ('a' ≤ c && c ≤ 'z') || ('A' ≤ c && c ≤ 'Z')
  xidContinue c := ('a' ≤ c && c ≤ 'z') || ('A' ≤ c && c ≤ 'Z') || ('0' ≤ c && c ≤ '9') || c = '_'
  isPrint c := 32 ≤ c.toNat && c.toNat < 127
  toLower c := if 'A' ≤ c && c ≤ 'Z' then Char.ofNat (c.toNat + 32) else c
  regexAccepts _ _ := true

/-- The tree of an exec case is the one the *Go* parser built for the case's text. For an ASCII
    text the parser model reads the text too: if it builds another tree (or none), the answer of
    the case is `ast-mismatch`, so that a defect of the parser or of the node constructors shows
    in every executor stream and not only in the parser streams. -/
def astAgrees (j : Json) (a : AST) : Bool :=
  match getStr? j "path" with
  | none => true
  | some txt =>
    let cs := txt.toList
    if cs.all (fun c => c.toNat < 128 && c.toNat ≠ 0) then
      match Parse.parse asciiOr (cs.map fun c => UInt8.ofNat c.toNat) with
      | .ok a' => Codec.astJ a' == Codec.astJ a
      | _ => false
    else true

def handleExec (j : Json) : Json :=
  let r : Except String Json := do
    let a ← astOf ((j.getObjVal? "ast").toOption.getD Json.null)
    if !astAgrees j a then
      return Json.mkObj [("out", "ast-mismatch")]
    let doc ← itemOf ((j.getObjVal? "doc").toOption.getD Json.null)
    let vars ← varsOf ((j.getObjVal? "vars").toOption.getD Json.null)
    let entry ← ((getStr? j "entry") >>= entryOf).elim (.error "bad entry") .ok
    let zone := zoneOf ((j.getObjVal? "zone").toOption.getD Json.null)
    let today := (getInt? j "today").getD 0
    let budget : Option Nat := (getInt? j "cancel").map Int.toNat
    let tbl := regexTable ((j.getObjVal? "regex").toOption.getD Json.null)
    let mk0 : Api.Opts := { vars := vars }
    -- never less than `fuelBound`, for which `FuelProps.fuel_adequate` proves the run finishes; by
    -- `FuelProps.run_unique` the answer does not depend on the fuel once it does
    let fuel := max (((getInt? j "fuel").map Int.toNat).getD fuelDefault) (FuelProps.fuelBound a doc mk0)
    let mk (d : Bool) : Api.Opts :=
      { vars := vars, silent := getBoolD j "silent" false, useTZ := getBoolD j "usetz" false,
        env := ⟨zone, today⟩, budget := budget, regexMatch := regexLookup tbl d }
    let o1 := outcomeJ (Api.run entry fuel a doc (mk false))
    let o2 := outcomeJ (Api.run entry fuel a doc (mk true))
    if o1 == o2 then pure o1
    else pure (Json.mkObj [("out", "skip"), ("why", "regex-oracle-miss")])
  match r with
  | .ok v => v
  | .error e => Json.mkObj [("out", "skip"), ("why", Json.str ("decode: " ++ e))]

end ExecOps
end Sqljson
