import Lean.Data.Json
import Sqljson.Model.Time
import Sqljson.Driver.Codec
/-!
# Driver ops of the datetime correspondence stream (`sqv gen-time` / `sqv run-time`)

`handleTime op case` returns the result object (without the id) for

* `time.parse`     {src, precision, zone, today}                → {"ok":true,"v":dt,"str":s} | {"ok":false}
* `time.cast`      {src, precision, target, usetz, zone, today} → {"v":dt,"str":s} | {"err":"parse"|"notRecognized"|"tzRequired"}
* `time.compare`   {a, b, usetz, zone, today}                   → {"cmp":n} | {"err":"parse"|"tzRequired"}
* `time.unmarshal` {kind, data:[byte,…]}                        → {"out":"ok","v":dt,"str":s} | {"out":"err"} | {"out":"panic"}
* `time.marshal`   {src, precision, zone, today}                → {"json":s} | {"err":"parse"}

and `none` for any other op.  Zone wire format: `{"initial":secs,"trans":[[unixStart,offset],…]}`.
-/

open Lean (Json)

namespace Sqljson
namespace TimeOps

open Sqljson.Codec Sqljson.Time

def jInt? (j : Json) : Option Int :=
  match j.getInt? with
  | .ok i => some i
  | _ => none

def pairOf (j : Json) : Option (Int × Int) :=
  match j with
  | Json.arr #[a, b] =>
    match jInt? a, jInt? b with
    | some x, some y => some (x, y)
    | _, _ => none
  | _ => none

def zoneOf (j : Json) : Option Zone :=
  match getInt? j "initial", j.getObjVal? "trans" with
  | some i, .ok (Json.arr ts) => (ts.toList.mapM pairOf).map fun tr => ⟨i, tr⟩
  | some i, _ => some ⟨i, []⟩
  | _, _ => none

/-- `zone` and `today` of a case (defaults: UTC, day 0) -/
def envOf (j : Json) : Env :=
  let z := match get? j "zone" with
    | some zj => (zoneOf zj).getD Zone.utc
    | none => Zone.utc
  ⟨z, (getInt? j "today").getD 0⟩

def strOf (j : Json) (k : String) : List Char := ((getStr? j k).getD "").toList

def precisionOf (j : Json) : Int := (getInt? j "precision").getD (-1)

def errStr : CastErr → String
  | .notRecognized => "notRecognized"
  | .tzRequired => "tzRequired"

def valFields (d : DateTime) : List (String × Json) :=
  [("v", dtJ d), ("str", strJ (Time.toString d))]

def errJ (e : String) : Json := Json.mkObj [("err", Json.str e)]

def opParse (j : Json) : Json :=
  match parseTime (envOf j) (strOf j "src") (precisionOf j) with
  | some d => Json.mkObj (("ok", Json.bool true) :: valFields d)
  | none => Json.mkObj [("ok", Json.bool false)]

def opCast (j : Json) : Json :=
  let env := envOf j
  match parseTime env (strOf j "src") (precisionOf j) with
  | none => errJ "parse"
  | some d =>
    match (getStr? j "target") >>= kindOf with
    | none => errJ "badTarget"
    | some k =>
      match castTo env (getBoolD j "usetz" false) k d with
      | .ok r => Json.mkObj (valFields r)
      | .error e => errJ (errStr e)

def opCompare (j : Json) : Json :=
  let env := envOf j
  let p := precisionOf j
  match parseTime env (strOf j "a") p, parseTime env (strOf j "b") p with
  | some a, some b =>
    match compareDatetime env (getBoolD j "usetz" false) a b with
    | .ok c => Json.mkObj [("cmp", Json.num c)]
    | .error e => errJ (errStr e)
  | _, _ => errJ "parse"

def bytesOf (j : Json) : List UInt8 :=
  match j.getObjVal? "data" with
  | .ok (Json.arr xs) => xs.toList.filterMap fun x => (jInt? x).map fun i => UInt8.ofNat i.toNat
  | _ => []

def opUnmarshal (j : Json) : Json :=
  match (getStr? j "kind") >>= kindOf with
  | none => errJ "badKind"
  | some k =>
    match unmarshalJSON k (bytesOf j) with
    | .ok d => Json.mkObj (("out", Json.str "ok") :: valFields d)
    | .err => Json.mkObj [("out", Json.str "err")]
    | .panic => Json.mkObj [("out", Json.str "panic")]

def opMarshal (j : Json) : Json :=
  match parseTime (envOf j) (strOf j "src") (precisionOf j) with
  | some d => Json.mkObj [("json", strJ (marshalJSON d))]
  | none => errJ "parse"

end TimeOps

def handleTime (op : String) (j : Json) : Option Json :=
  match op with
  | "time.parse" => some (TimeOps.opParse j)
  | "time.cast" => some (TimeOps.opCast j)
  | "time.compare" => some (TimeOps.opCompare j)
  | "time.unmarshal" => some (TimeOps.opUnmarshal j)
  | "time.marshal" => some (TimeOps.opMarshal j)
  | _ => none

end Sqljson
