import Lean.Data.Json
import Sqljson.Model.Ast
/-!
# JSON wire format shared by the Go harness (`sqv`) and the Lean driver

Items:  `null` | `true`/`false` | `{"i":"<decimal int64>"}` | `{"f":"<16 hex digits, IEEE bits>"}`
      | `{"n":"<json.Number text>"}` | `{"s":"<string>"}` | `[item,…]`
      | `{"o":[["key",item],…]}` (keys ascending) | `{"dt":{"k":kind,"sec":"<int>","nsec":n,"off":n}}`

Nodes:  `{"t":tag, …fields…, "next":node|null}`; a nil node is `null`.
-/

open Lean (Json)

namespace Sqljson
namespace Codec

def strJ (s : List Char) : Json := Json.str (String.ofList s)

def hexDigit (n : Nat) : Char := if n < 10 then Char.ofNat (48 + n) else Char.ofNat (87 + n)

def hex16 (n : Nat) : String :=
  String.ofList ((List.range 16).map fun i => hexDigit (n / 16 ^ (15 - i) % 16))

def parseHex (s : String) : Option Nat :=
  s.toList.foldl (fun acc c =>
    match acc with
    | none => none
    | some a =>
      if '0' ≤ c && c ≤ '9' then some (a * 16 + (c.toNat - 48))
      else if 'a' ≤ c && c ≤ 'f' then some (a * 16 + (c.toNat - 87))
      else if 'A' ≤ c && c ≤ 'F' then some (a * 16 + (c.toNat - 55))
      else none) (some 0)

def kindStr : DTKind → String
  | .date => "date" | .time => "time" | .timetz => "timetz"
  | .timestamp => "timestamp" | .timestamptz => "timestamptz"

def kindOf : String → Option DTKind
  | "date" => some .date | "time" => some .time | "timetz" => some .timetz
  | "timestamp" => some .timestamp | "timestamptz" => some .timestamptz | _ => none

def dtJ (d : DateTime) : Json :=
  Json.mkObj [("dt", Json.mkObj [("k", Json.str (kindStr d.kind)), ("sec", Json.str (toString d.sec)),
    ("nsec", Json.num (d.nsec : Int)), ("off", Json.num d.off)])]

mutual
  partial def itemJ : Item → Json
    | .null => Json.null
    | .bool b => Json.bool b
    | .int i => Json.mkObj [("i", Json.str (toString i))]
    | .flt f => Json.mkObj [("f", Json.str (hex16 f.toBits))]
    | .jnum s => Json.mkObj [("n", strJ s)]
    | .str s => Json.mkObj [("s", strJ s)]
    | .arr xs => Json.arr (xs.map itemJ).toArray
    | .obj kvs => Json.mkObj [("o", Json.arr (kvs.map fun (k, v) => Json.arr #[strJ k, itemJ v]).toArray)]
    | .dt d => dtJ d
end

def getStr? (j : Json) (k : String) : Option String :=
  match j.getObjVal? k with
  | .ok (Json.str s) => some s
  | _ => none

def getInt? (j : Json) (k : String) : Option Int :=
  match j.getObjVal? k with
  | .ok v => (match v.getInt? with | .ok i => some i | _ => none)
  | _ => none

def getBool? (j : Json) (k : String) : Option Bool :=
  match j.getObjVal? k with
  | .ok (Json.bool b) => some b
  | _ => none

def getBoolD (j : Json) (k : String) (d : Bool) : Bool := (getBool? j k).getD d

def get? (j : Json) (k : String) : Option Json :=
  match j.getObjVal? k with
  | .ok Json.null => none
  | .ok v => some v
  | _ => none

partial def itemOf (j : Json) : Except String Item :=
  match j with
  | Json.null => .ok .null
  | Json.bool b => .ok (.bool b)
  | Json.arr xs => do
      let ys ← xs.toList.mapM itemOf
      pure (.arr ys)
  | Json.obj _ =>
    if let some s := getStr? j "i" then
      match s.toInt? with | some i => .ok (.int i) | none => .error s!"bad int {s}"
    else if let some s := getStr? j "f" then
      match parseHex s with | some n => .ok (.flt (F64.ofBits n)) | none => .error s!"bad float {s}"
    else if let some s := getStr? j "n" then .ok (.jnum s.toList)
    else if let some s := getStr? j "s" then .ok (.str s.toList)
    else if let some (Json.arr ms) := get? j "o" then do
      let kvs ← ms.toList.mapM fun m =>
        match m with
        | Json.arr #[Json.str k, v] => do let v' ← itemOf v; pure (k.toList, v')
        | _ => .error "bad member"
      pure (.obj kvs)
    else if let some d := get? j "dt" then
      match getStr? d "k" >>= kindOf, getStr? d "sec" >>= String.toInt?, getInt? d "nsec", getInt? d "off" with
      | some k, some sec, some nsec, some off => .ok (.dt ⟨k, sec, nsec.toNat, off⟩)
      | _, _, _, _ => .error "bad datetime"
    else .error "bad item object"
  | _ => .error "bad item"

/-! ## AST -/

def constStr : Const → String
  | .root => "root" | .current => "current" | .last => "last" | .anyArray => "anyArray"
  | .anyKey => "anyKey" | .true_ => "true" | .false_ => "false" | .null => "null"

def constOf : String → Option Const
  | "root" => some .root | "current" => some .current | "last" => some .last
  | "anyArray" => some .anyArray | "anyKey" => some .anyKey | "true" => some .true_
  | "false" => some .false_ | "null" => some .null | _ => none

def binStr : BinOp → String
  | .and => "and" | .or => "or" | .eq => "eq" | .ne => "ne" | .lt => "lt" | .gt => "gt"
  | .le => "le" | .ge => "ge" | .startsWith => "startsWith" | .add => "add" | .sub => "sub"
  | .mul => "mul" | .div => "div" | .mod => "mod" | .subscript => "subscript" | .decimal => "decimal"

def binOf : String → Option BinOp
  | "and" => some .and | "or" => some .or | "eq" => some .eq | "ne" => some .ne | "lt" => some .lt
  | "gt" => some .gt | "le" => some .le | "ge" => some .ge | "startsWith" => some .startsWith
  | "add" => some .add | "sub" => some .sub | "mul" => some .mul | "div" => some .div
  | "mod" => some .mod | "subscript" => some .subscript | "decimal" => some .decimal | _ => none

def unStr : UnOp → String
  | .exists => "exists" | .not => "not" | .isUnknown => "isUnknown" | .plus => "plus"
  | .minus => "minus" | .filter => "filter" | .datetime => "datetime" | .date => "date"
  | .time => "time" | .timeTZ => "timeTZ" | .timestamp => "timestamp" | .timestampTZ => "timestampTZ"

def unOf : String → Option UnOp
  | "exists" => some .exists | "not" => some .not | "isUnknown" => some .isUnknown
  | "plus" => some .plus | "minus" => some .minus | "filter" => some .filter
  | "datetime" => some .datetime | "date" => some .date | "time" => some .time
  | "timeTZ" => some .timeTZ | "timestamp" => some .timestamp | "timestampTZ" => some .timestampTZ
  | _ => none

def methodStr : Method → String
  | .abs => "abs" | .size => "size" | .type => "type" | .floor => "floor" | .ceiling => "ceiling"
  | .double => "double" | .keyvalue => "keyvalue" | .bigint => "bigint" | .boolean => "boolean"
  | .integer => "integer" | .number => "number" | .string => "string"

def methodOf : String → Option Method
  | "abs" => some .abs | "size" => some .size | "type" => some .type | "floor" => some .floor
  | "ceiling" => some .ceiling | "double" => some .double | "keyvalue" => some .keyvalue
  | "bigint" => some .bigint | "boolean" => some .boolean | "integer" => some .integer
  | "number" => some .number | "string" => some .string | _ => none

mutual
  partial def nodeJ : Node → Json
    | .const k n => Json.mkObj [("t", "const"), ("k", Json.str (constStr k)), ("next", optJ n)]
    | .method m n => Json.mkObj [("t", "method"), ("m", Json.str (methodStr m)), ("next", optJ n)]
    | .str s n => Json.mkObj [("t", "str"), ("s", strJ s), ("next", optJ n)]
    | .var s n => Json.mkObj [("t", "var"), ("s", strJ s), ("next", optJ n)]
    | .key s n => Json.mkObj [("t", "key"), ("s", strJ s), ("next", optJ n)]
    | .numeric f n => Json.mkObj [("t", "numeric"), ("f", Json.str (hex16 f.toBits)), ("next", optJ n)]
    | .integer i n => Json.mkObj [("t", "integer"), ("i", Json.str (toString i)), ("next", optJ n)]
    | .any a b n => Json.mkObj [("t", "any"), ("first", Json.num (a : Int)), ("last", Json.num (b : Int)), ("next", optJ n)]
    | .binary op l r n => Json.mkObj [("t", "binary"), ("op", Json.str (binStr op)), ("l", optJ l), ("r", optJ r), ("next", optJ n)]
    | .unary op o n => Json.mkObj [("t", "unary"), ("op", Json.str (unStr op)), ("x", optJ o), ("next", optJ n)]
    | .regex o p f n => Json.mkObj [("t", "regex"), ("x", nodeJ o), ("pattern", strJ p), ("flags", Json.num (f : Int)), ("next", optJ n)]
    | .arrayIndex subs n => Json.mkObj [("t", "arrayIndex"), ("subs", Json.arr (subs.map nodeJ).toArray), ("next", optJ n)]
  partial def optJ : Option Node → Json
    | none => Json.null
    | some n => nodeJ n
end

def astJ (a : AST) : Json :=
  Json.mkObj [("root", nodeJ a.root), ("lax", Json.bool a.lax), ("pred", Json.bool a.pred)]

mutual
  partial def nodeOf (j : Json) : Except String Node := do
    let t ← (getStr? j "t").elim (.error "node without tag") .ok
    let nx ← optOf ((j.getObjVal? "next").toOption.getD Json.null)
    match t with
    | "const" => match getStr? j "k" >>= constOf with
      | some k => pure (.const k nx) | none => .error "bad const"
    | "method" => match getStr? j "m" >>= methodOf with
      | some m => pure (.method m nx) | none => .error "bad method"
    | "str" => match getStr? j "s" with | some s => pure (.str s.toList nx) | none => .error "bad str"
    | "var" => match getStr? j "s" with | some s => pure (.var s.toList nx) | none => .error "bad var"
    | "key" => match getStr? j "s" with | some s => pure (.key s.toList nx) | none => .error "bad key"
    | "numeric" => match getStr? j "f" >>= parseHex with
      | some b => pure (.numeric (F64.ofBits b) nx) | none => .error "bad numeric"
    | "integer" => match getStr? j "i" >>= String.toInt? with
      | some i => pure (.integer i nx) | none => .error "bad integer"
    | "any" => match getInt? j "first", getInt? j "last" with
      | some a, some b => pure (.any a.toNat b.toNat nx) | _, _ => .error "bad any"
    | "binary" => do
      let op ← (getStr? j "op" >>= binOf).elim (.error "bad binop") .ok
      let l ← optOf ((j.getObjVal? "l").toOption.getD Json.null)
      let r ← optOf ((j.getObjVal? "r").toOption.getD Json.null)
      pure (.binary op l r nx)
    | "unary" => do
      let op ← (getStr? j "op" >>= unOf).elim (.error "bad unop") .ok
      let x ← optOf ((j.getObjVal? "x").toOption.getD Json.null)
      pure (.unary op x nx)
    | "regex" => do
      let x ← nodeOf ((j.getObjVal? "x").toOption.getD Json.null)
      match getStr? j "pattern", getInt? j "flags" with
      | some p, some f => pure (.regex x p.toList f.toNat nx)
      | _, _ => .error "bad regex"
    | "arrayIndex" => do
      match j.getObjVal? "subs" with
      | .ok (Json.arr subs) => do
        let ss ← subs.toList.mapM nodeOf
        pure (.arrayIndex ss nx)
      | _ => .error "bad arrayIndex"
    | _ => .error s!"unknown node tag {t}"
  partial def optOf (j : Json) : Except String (Option Node) :=
    match j with
    | Json.null => pure none
    | _ => do let n ← nodeOf j; pure (some n)
end

def astOf (j : Json) : Except String AST := do
  let root ← nodeOf ((j.getObjVal? "root").toOption.getD Json.null)
  pure ⟨root, getBoolD j "lax" true, getBoolD j "pred" false⟩

end Codec
end Sqljson
