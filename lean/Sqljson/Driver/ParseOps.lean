import Lean.Data.Json
import Sqljson.Model.Ast
import Sqljson.Model.Lex
import Sqljson.Model.Print
import Sqljson.Model.Parse
import Sqljson.Driver.Codec
/-!
# Driver operations for the lexer / parser / printer correspondence stream

* `parse` `{bytes:[…], oracles}` → `{"out":"ok","ast":…,"str":…}` | `{"out":"err"}` | `{"out":"panic"}`
* `print` `{ast:…, oracles}`     → `{"str":…}` | `{"panic":true}`

Oracle wire format (per case; only the characters / patterns that matter for the case are listed,
anything not listed is `false` / maps to itself / is rejected):

```
{"xidStart":[cp,…], "xidContinue":[cp,…], "isPrint":[cp,…],
 "lower":[[cp,lowercp],…], "regex":[[pattern,flagBits,accepted],…]}
```
-/

open Lean (Json)

namespace Sqljson
namespace ParseOps

def natList (j : Json) (k : String) : List Nat :=
  match j.getObjVal? k with
  | .ok (Json.arr xs) => xs.toList.filterMap fun x => match x.getNat? with | .ok n => some n | _ => none
  | _ => []

def pairList (j : Json) (k : String) : List (Nat × Nat) :=
  match j.getObjVal? k with
  | .ok (Json.arr xs) => xs.toList.filterMap fun x =>
      match x with
      | Json.arr #[a, b] => (match a.getNat?, b.getNat? with | .ok m, .ok n => some (m, n) | _, _ => none)
      | _ => none
  | _ => []

def regexList (j : Json) (k : String) : List (List Char × Nat × Bool) :=
  match j.getObjVal? k with
  | .ok (Json.arr xs) => xs.toList.filterMap fun x =>
      match x with
      | Json.arr #[Json.str p, f, Json.bool b] => (match f.getNat? with | .ok n => some (p.toList, n, b) | _ => none)
      | _ => none
  | _ => []

def oraclesOf (j : Json) : Oracles :=
  let oj := (j.getObjVal? "oracles").toOption.getD Json.null
  let xs := natList oj "xidStart"
  let xc := natList oj "xidContinue"
  let pr := natList oj "isPrint"
  let lo := pairList oj "lower"
  let re := regexList oj "regex"
  { xidStart := fun c => xs.contains c.toNat
    xidContinue := fun c => xc.contains c.toNat
    isPrint := fun c => pr.contains c.toNat
    toLower := fun c => match lo.find? (fun p => p.1 = c.toNat) with
      | some (_, l) => Char.ofNat l
      | none => c
    regexAccepts := fun p f => match re.find? (fun e => e.1 = p && e.2.1 = f) with
      | some (_, _, b) => b
      | none => false }

def bytesOf (j : Json) : List UInt8 :=
  (natList j "bytes").map fun n => UInt8.ofNat n

def strOrNull : Option (List Char) → Json
  | some s => Json.str (String.ofList s)
  | none => Json.null

def handleParse (op : String) (j : Json) : Option Json :=
  match op with
  | "parse" =>
    let o := oraclesOf j
    let bytes := bytesOf j
    let fuelOut := Parse.ranOutOfFuel o bytes
    let extra : List (String × Json) := if fuelOut then [("fuel", Json.bool true)] else []
    match Parse.parse o bytes with
    | .ok a =>
      some (Json.mkObj ([("out", Json.str "ok"), ("ast", Codec.astJ a), ("str", strOrNull (Print.toString o.isPrint a))] ++ extra))
    | .err => some (Json.mkObj ([("out", Json.str "err")] ++ extra))
    | .panic => some (Json.mkObj ([("out", Json.str "panic")] ++ extra))
  | "print" =>
    let o := oraclesOf j
    match Codec.astOf ((j.getObjVal? "ast").toOption.getD Json.null) with
    | .ok a =>
      match Print.toString o.isPrint a with
      | some s => some (Json.mkObj [("str", Json.str (String.ofList s))])
      | none => some (Json.mkObj [("panic", Json.bool true)])
    | .error e => some (Json.mkObj [("error", Json.str e)])
  | _ => none

end ParseOps
end Sqljson
