import Sqljson
def main : IO Unit := IO.println "driver"
