import Sqljson.Driver.ExecOps
import Sqljson.Driver.TimeOps
import Sqljson.Driver.ParseOps
/-!
Driver: one JSON case per input line, one JSON result per output line (`{"id":…,…}`).
-/
open Lean (Json)
open Sqljson

def handle (j : Json) : Json :=
  let op := (Codec.getStr? j "op").getD ""
  let body : Json :=
    if op == "exec" then ExecOps.handleExec j
    else match handleTime op j with
      | some r => r
      | none =>
        match ParseOps.handleParse op j with
        | some r => r
        | none => Json.mkObj [("out", "skip"), ("why", Json.str ("unknown op " ++ op))]
  let id := (j.getObjVal? "id").toOption.getD Json.null
  body.setObjVal! "id" id

partial def loop (h : IO.FS.Stream) (out : IO.FS.Stream) : IO Unit := do
  let line ← h.getLine
  if line.isEmpty then return ()
  let t := line.trimAscii.toString
  if !t.isEmpty then
    match Json.parse t with
    | .ok j => out.putStrLn (handle j).compress
    | .error e => out.putStrLn (Json.mkObj [("out", "skip"), ("why", Json.str ("json: " ++ e))]).compress
  loop h out

def main : IO Unit := do
  let stdin ← IO.getStdin
  let stdout ← IO.getStdout
  loop stdin stdout
