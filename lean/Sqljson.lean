import Sqljson.Model.F64
import Sqljson.Model.Decimal
import Sqljson.Model.Json
import Sqljson.Model.Ast
import Sqljson.Driver.Codec
import Sqljson.Model.Time
