#!/usr/bin/env python3
"""Compare Go and Lean result streams per id. usage: compare.py cases go lean [max_show]"""
import json, sys
sys.setrecursionlimit(20000)
def load(p):
    d = {}
    with open(p) as f:
        for line in f:
            line = line.strip()
            if not line: continue
            j = json.loads(line)
            d[j.get("id")] = j
    return d
def canon(j):
    j = dict(j); j.pop("panic", None); j.pop("id", None)
    return j
def main():
    cases, go, lean = sys.argv[1:4]
    show = int(sys.argv[4]) if len(sys.argv) > 4 else 10
    G, L = load(go), load(lean)
    C = load(cases)
    n = skip = bad = 0
    why = {}
    shown = 0
    for i, g in G.items():
        l = L.get(i)
        n += 1
        if l is None:
            bad += 1
            if shown < show: print("MISSING lean result for", i); shown += 1
            continue
        if l.get("out") == "skip":
            skip += 1; why[l.get("why")] = why.get(l.get("why"), 0) + 1; continue
        if canon(g) != canon(l):
            bad += 1
            if shown < show:
                c = C.get(i, {})
                print("DISAGREE id=%s path=%r entry=%s silent=%s usetz=%s cancel=%s\n  doc=%s\n  vars=%s\n  go  =%s\n  lean=%s" % (
                    i, c.get("path"), c.get("entry"), c.get("silent"), c.get("usetz"), c.get("cancel"),
                    json.dumps(c.get("doc"), ensure_ascii=False), json.dumps(c.get("vars"), ensure_ascii=False),
                    json.dumps(canon(g), ensure_ascii=False), json.dumps(canon(l), ensure_ascii=False)))
                shown += 1
    print("cases=%d skipped=%d %s disagreements=%d" % (n, skip, why, bad))
    sys.exit(1 if bad else 0)
main()
