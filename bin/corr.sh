#!/bin/sh
# usage: corr.sh <profile> <seed> <n> [extra sqv flags]   — ad-hoc correspondence run
set -e
export GOFLAGS=-mod=mod GOPROXY=off GOSUMDB=off GOTOOLCHAIN=local
cd /verif/harness && go build -tags verif -o bin/sqv ./cmd/sqv
P=$1; S=$2; N=$3; shift 3
O=/verif/out/corr-$P-$S
mkdir -p $O
./bin/sqv exec-stream -seed $S -n $N -profile $P -cases $O/c.jsonl -out $O/go.jsonl -stats $O/stats.json "$@"
/verif/lean/.lake/build/bin/driver < $O/c.jsonl > $O/lean.jsonl
cat $O/stats.json; echo
/verif/bin/compare.py $O/c.jsonl $O/go.jsonl $O/lean.jsonl 8
