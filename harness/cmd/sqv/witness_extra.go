package main

// Witnesses of known findings that need more than one API call or a separate process.

import (
	"context"
	"fmt"
	"os"
	"os/exec"
	"reflect"
	"runtime/debug"
	"strings"

	"github.com/theory/sqljson/path"
)

func init() {
	// {"kind":"kv-collision"}: two different objects of one document get the same .keyvalue() id.
	// The id is baseID*10^10 + |addr(object) - addr(base)|: an object below the base and one the
	// same distance above it collide. The witness allocates maps and slices until it finds such a
	// triple (deterministic search, no timing involved).
	witnessFns["kv-collision"] = func(map[string]any) bool {
		const n = 30000
		maps := make([]map[string]any, n)
		byAddr := map[uintptr]int{}
		for i := range maps {
			maps[i] = map[string]any{"k": int64(i)}
			byAddr[reflect.ValueOf(maps[i]).Pointer()] = i
		}
		p := path.MustParse("$[*].keyvalue().id")
		for try := 0; try < n; try++ {
			s := make([]any, 2)
			base := reflect.ValueOf(s).Pointer()
			for a, i := range byAddr {
				if a >= base {
					continue
				}
				if j, ok := byAddr[base+(base-a)]; ok {
					s[0], s[1] = maps[i], maps[j]
					ids, err := p.Query(context.Background(), any(s))
					if err == nil && len(ids) == 2 && ids[0] == ids[1] {
						fmt.Printf("objects at %#x and %#x around the array at %#x both get id %v\n", a, base+(base-a), base, ids[0])
						return true
					}
				}
			}
		}
		return false
	}
	// {"kind":"deep","n":N}: a path of N subscripts overflows the goroutine stack (a fatal error,
	// not a panic: it cannot be recovered), so it runs in a child process whose maximum stack is
	// lowered to keep it cheap.
	witnessFns["deep"] = func(w map[string]any) bool {
		n := 200000
		if f, ok := w["n"].(float64); ok {
			n = int(f)
		}
		cmd := exec.Command(os.Args[0], "deep-child", fmt.Sprint(n))
		out, err := cmd.CombinedOutput()
		return err != nil && strings.Contains(string(out), "stack overflow")
	}
	register("deep-child", "(internal) evaluate a path of N subscripts with a small maximum stack", func(args []string) int {
		n := 200000
		if len(args) > 0 {
			fmt.Sscan(args[0], &n)
		}
		debug.SetMaxStack(16 << 20)
		p, err := path.Parse("$" + strings.Repeat("[0]", n))
		if err != nil {
			fmt.Println("parse:", err)
			return 0
		}
		_, err = p.Query(context.Background(), float64(1))
		fmt.Println("returned:", err)
		return 0
	})
}
