package main

// Go-side oracles of the datetime properties C17 and C18: the properties written
// as predicates over results of the public API only (path.Parse, Path.Query with
// exec.WithTZ / exec.WithSilent / exec.WithVars, types.ContextWithTZ,
// types.ParseTime, String, MarshalJSON / UnmarshalJSON, the New* constructors
// and the To* conversions). No model is involved. They search - starting from
// the cases handed over by bin/check - for a concrete failing input, and replay
// one; they never decide a property.
//
// Every violation object carries "check" (which predicate failed) and the
// complete input of that predicate (strings, method calls, zone id in the
// zoneFor format, usetz, ...); -replay re-evaluates exactly that predicate on
// exactly that input.

import (
	"context"
	"encoding/json"
	"fmt"
	"math/rand"
	"os"
	"regexp"
	"runtime"
	"sort"
	"strconv"
	"strings"
	"sync"
	"sync/atomic"
	"time"

	"github.com/theory/sqljson/path"
	"github.com/theory/sqljson/path/exec"
	"github.com/theory/sqljson/path/types"
)

func init() {
	oracles["C17"] = c17Oracle
	oracles["C18"] = c18Oracle
}

// otStats counts what a run evaluated (printed to stderr when SQV_ORACLE_STATS is set).
var otStats struct {
	queries, pairs, casts, precisions, triples, values, commutes, unmarshals, zonesDone atomic.Int64
}

func otPrintStats(prop string, start time.Time) {
	if os.Getenv("SQV_ORACLE_STATS") == "" {
		return
	}
	fmt.Fprintf(os.Stderr, "oracle %s: %.1fs, %d Query calls; checks: %d pairs, %d strings x 6 casts, %d precisions, %d triples, %d value round trips, %d zone round trips, %d UnmarshalJSON calls; %d zones completed\n",
		prop, time.Since(start).Seconds(), otStats.queries.Load(), otStats.pairs.Load(), otStats.casts.Load(), otStats.precisions.Load(),
		otStats.triples.Load(), otStats.values.Load(), otStats.commutes.Load(), otStats.unmarshals.Load(), otStats.zonesDone.Load())
}

// otWall is the wall-clock budget of the search phases of one oracle run.
const otWall = 42 * time.Second

// ---------------------------------------------------------------- kinds

var otMethodOfKind = map[string]string{
	"date": "date", "time": "time", "timetz": "time_tz", "timestamp": "timestamp", "timestamptz": "timestamp_tz",
}

var otKindOfMethod = map[string]string{
	"date": "date", "time": "time", "time_tz": "timetz", "timestamp": "timestamp", "timestamp_tz": "timestamptz",
}

var otAllKinds = []string{"date", "time", "timetz", "timestamp", "timestamptz"}

// otCalls are the argument-less method calls.
var otCalls = []string{"datetime()", "date()", "time()", "time_tz()", "timestamp()", "timestamp_tz()"}

func otKind(v any) string {
	switch v.(type) {
	case *types.Date:
		return "date"
	case *types.Time:
		return "time"
	case *types.TimeTZ:
		return "timetz"
	case *types.Timestamp:
		return "timestamp"
	case *types.TimestampTZ:
		return "timestamptz"
	}
	return ""
}

// otFamily: 1 = date / timestamp / timestamptz, 2 = time / timetz.
func otFamily(k string) int {
	switch k {
	case "date", "timestamp", "timestamptz":
		return 1
	case "time", "timetz":
		return 2
	}
	return 0
}

func otAware(k string) bool { return k == "timetz" || k == "timestamptz" }

// otCommon is the type two comparable kinds are compared in.
func otCommon(k1, k2 string) string {
	switch {
	case k1 == k2:
		return k1
	case k1 == "timestamptz" || k2 == "timestamptz":
		return "timestamptz"
	case otFamily(k1) == 1:
		return "timestamp"
	case k1 == "timetz" || k2 == "timetz":
		return "timetz"
	}
	return "time"
}

// otCastNeed says what the cast of a value of kind `from` to `to` needs:
// "ok" (always allowed), "tz" (crosses zone-less / zone-aware: only with
// WithTZ), "no" (no such cast).
func otCastNeed(from, to string) string {
	if from == to {
		return "ok"
	}
	switch from + ">" + to {
	case "date>timestamp", "timestamp>date", "timestamp>time", "timestamptz>timetz":
		return "ok"
	case "date>timestamptz", "time>timetz", "timetz>time", "timestamp>timestamptz",
		"timestamptz>date", "timestamptz>time", "timestamptz>timestamp":
		return "tz"
	}
	return "no"
}

// otCastAPI casts through the public To* conversions.
func otCastAPI(ctx context.Context, v types.DateTime, to string) (types.DateTime, bool) {
	if otKind(v) == to {
		return v, true
	}
	switch v := v.(type) {
	case *types.Date:
		switch to {
		case "timestamp":
			return v.ToTimestamp(ctx), true
		case "timestamptz":
			return v.ToTimestampTZ(ctx), true
		}
	case *types.Time:
		if to == "timetz" {
			return v.ToTimeTZ(ctx), true
		}
	case *types.TimeTZ:
		if to == "time" {
			return v.ToTime(ctx), true
		}
	case *types.Timestamp:
		switch to {
		case "date":
			return v.ToDate(ctx), true
		case "time":
			return v.ToTime(ctx), true
		case "timestamptz":
			return v.ToTimestampTZ(ctx), true
		}
	case *types.TimestampTZ:
		switch to {
		case "date":
			return v.ToDate(ctx), true
		case "time":
			return v.ToTime(ctx), true
		case "timetz":
			return v.ToTimeTZ(ctx), true
		case "timestamp":
			return v.ToTimestamp(ctx), true
		}
	}
	return nil, false
}

// otNew builds a value of the kind from a time.Time through the constructors.
func otNew(ctx context.Context, kind string, t time.Time) types.DateTime {
	switch kind {
	case "date":
		return types.NewDate(t)
	case "time":
		return types.NewTime(t)
	case "timetz":
		return types.NewTimeTZ(t)
	case "timestamp":
		return types.NewTimestamp(t)
	case "timestamptz":
		return types.NewTimestampTZ(ctx, t)
	}
	return nil
}

func otOffset(v types.DateTime) int {
	_, off := v.GoTime().Zone()
	return off
}

// otSame: same type, same instant, same offset, same text.
func otSame(a, b types.DateTime) bool {
	if a == nil || b == nil {
		return false
	}
	return otKind(a) == otKind(b) && otKind(a) != "" && a.GoTime().Equal(b.GoTime()) &&
		otOffset(a) == otOffset(b) && a.String() == b.String()
}

func otShowDT(v types.DateTime) any {
	if v == nil {
		return nil
	}
	t := v.GoTime()
	return J{"kind": otKind(v), "str": v.String(), "unix": strconv.FormatInt(t.Unix(), 10), "nsec": t.Nanosecond(), "off": otOffset(v)}
}

func otShowItem(v any) any {
	if dt, ok := v.(types.DateTime); ok && otKind(v) != "" {
		return otShowDT(dt)
	}
	return encItem(v)
}

// ---------------------------------------------------------------- zones and evaluation

// otEnv is one context time zone with the memos of one goroutine.
type otEnv struct {
	id    string // "UTC", "fixed:<secs>", or an IANA name (the zoneFor format)
	loc   *time.Location
	named bool
	ctx   context.Context
	paths map[string]*path.Path
	opnd  map[string]otOperand
	last  int // order code (see cmp3) of the last c17Pair evaluation
}

func otNewEnv(id string) (e *otEnv) {
	defer func() {
		if recover() != nil {
			e = nil
		}
	}()
	if id == "" {
		id = "UTC"
	}
	loc := zoneFor(id) // panics for an unknown name
	return &otEnv{
		id: id, loc: loc, named: id != "UTC" && !strings.HasPrefix(id, "fixed:"),
		ctx:   types.ContextWithTZ(context.Background(), loc),
		paths: map[string]*path.Path{}, opnd: map[string]otOperand{},
	}
}

func (e *otEnv) parse(text string) *path.Path {
	if p, ok := e.paths[text]; ok {
		return p
	}
	p, err := parseNoPanic(text)
	if err != nil {
		p = nil
	}
	e.paths[text] = p
	return p
}

// otOut is the outcome of one Query call.
type otOut struct {
	class string // "items", "panic", "nopath", or the class of the error (classify)
	items []any
	err   error
	pv    any
}

func (e *otEnv) query(text string, doc any, usetz, silent bool, vars map[string]any) (out otOut) {
	p := e.parse(text)
	if p == nil {
		return otOut{class: "nopath"}
	}
	defer func() {
		if r := recover(); r != nil {
			out = otOut{class: "panic", pv: r}
		}
	}()
	opts := make([]exec.Option, 0, 3)
	if usetz {
		opts = append(opts, exec.WithTZ())
	}
	if silent {
		opts = append(opts, exec.WithSilent())
	}
	if vars != nil {
		opts = append(opts, exec.WithVars(exec.Vars(vars)))
	}
	otStats.queries.Add(1)
	items, err := p.Query(e.ctx, doc, opts...)
	if err != nil {
		return otOut{class: classify(err, nil), err: err}
	}
	return otOut{class: "items", items: items}
}

// pred reads the outcome of a predicate path: "t", "f", "u" (unknown: selects
// nothing), "E:<class>" for an error, "x" for anything else.
func (o otOut) pred() string {
	if o.class != "items" {
		return "E:" + o.class
	}
	if len(o.items) != 1 {
		return "x"
	}
	switch v := o.items[0].(type) {
	case bool:
		if v {
			return "t"
		}
		return "f"
	case nil:
		return "u"
	}
	return "x"
}

func (o otOut) show() any {
	switch o.class {
	case "items":
		items := make([]any, len(o.items))
		for i, x := range o.items {
			items[i] = otShowItem(x)
		}
		return J{"items": items}
	case "panic":
		return J{"panic": fmt.Sprint(o.pv)}
	case "nopath":
		return J{"err": "path does not parse"}
	}
	return J{"err": o.err.Error(), "class": o.class}
}

// single returns the sole datetime item of an outcome.
func (o otOut) single() types.DateTime {
	if o.class != "items" || len(o.items) != 1 {
		return nil
	}
	if v, ok := o.items[0].(types.DateTime); ok && otKind(v) != "" {
		return v
	}
	return nil
}

// otOperand is `$.<call>` applied to one string.
type otOperand struct {
	out  otOut
	v    types.DateTime
	kind string
}

func (e *otEnv) operand(s, call string, usetz bool) otOperand {
	key := call + "|" + strconv.FormatBool(usetz) + "|" + s
	if r, ok := e.opnd[key]; ok {
		return r
	}
	out := e.query("$."+call, s, usetz, false, nil)
	r := otOperand{out: out, v: out.single()}
	r.kind = otKind(r.v)
	e.opnd[key] = r
	return r
}

// otWallFields are the civil fields of a zone-less value.
type otWallFields struct {
	y        int
	mo       time.Month
	d        int
	h, mi, s int
	ns       int
}

func otFieldsOf(t time.Time) otWallFields {
	y, mo, d := t.Date()
	h, mi, s := t.Clock()
	return otWallFields{y, mo, d, h, mi, s, t.Nanosecond()}
}

func (f otWallFields) in(loc *time.Location) time.Time {
	return time.Date(f.y, f.mo, f.d, f.h, f.mi, f.s, f.ns, loc)
}

// otResolve maps civil fields to the instant they denote in loc. exists = the
// local time occurs in the zone (it is not inside a gap); unique = it occurs
// exactly once (it is not inside an overlap either).
func otResolve(f otWallFields, loc *time.Location) (t time.Time, exists, unique bool) {
	t = f.in(loc)
	if otFieldsOf(t) != f {
		return t, false, false
	}
	unique = true
	_, off := t.Zone()
	for _, d := range []time.Duration{-36 * time.Hour, -3 * time.Hour, 3 * time.Hour, 36 * time.Hour} {
		_, off2 := t.Add(d).Zone()
		if off2 == off {
			continue
		}
		u := f.in(time.FixedZone("", off2))
		if otFieldsOf(u.In(loc)) == f && !u.Equal(t) {
			unique = false
		}
	}
	return t, true, unique
}

// inGap: a zone-less date or timestamp whose local time does not exist in loc.
func otInGap(v types.DateTime, loc *time.Location) bool {
	switch otKind(v) {
	case "date", "timestamp":
		_, exists, _ := otResolve(otFieldsOf(v.GoTime()), loc)
		return !exists
	}
	return false
}

func otViolation(prop, check, what string, e *otEnv, fields J) J {
	out := J{"property": prop, "check": check, "violates": what}
	if e != nil {
		out["zoneid"] = e.id
	}
	for k, v := range fields {
		out[k] = v
	}
	return out
}

// ---------------------------------------------------------------- pool

// otStr is a candidate source string; kind is the type the documented forms
// prescribe for it ("" when the string comes from a seed and nothing is known).
type otStr struct {
	s    string
	kind string
}

var otHourOffsets = func() []string {
	var out []string
	for h := -12; h <= 14; h++ {
		sign := "+"
		a := h
		if h < 0 {
			sign, a = "-", -h
		}
		if h%2 == 0 {
			out = append(out, fmt.Sprintf("%s%02d", sign, a))
		} else {
			out = append(out, fmt.Sprintf("%s%02d:00", sign, a))
		}
	}
	return out
}()

var otHalfOffsets = []string{"+05:30", "-03:30", "+09:30", "-09:30", "+05:45", "+10:30", "+12:45", "+13:45", "-02:30", "Z", "+00:00", "-00"}

const otDigits = "123456789"

// otBase is the zone-independent pool, in clusters (pairs are enumerated inside
// a cluster and sampled across clusters).
func otBase() map[string][]otStr {
	cl := map[string][]otStr{}
	add := func(c, kind string, ss ...string) {
		for _, s := range ss {
			cl[c] = append(cl[c], otStr{s, kind})
		}
	}
	// family 1 around the year boundary, plus extremes
	add("f1", "date", "2024-01-01", "2023-12-31", "2024-01-02", "2024-12-31", "2025-01-01", "2024-02-29", "2024-03-01",
		"0001-01-01", "9999-12-31", "1970-01-01", "2024-06-15")
	add("f1", "timestamp", "2023-12-31T23:59:59", "2024-01-01T00:00:00", "2024-01-01 00:00:00", "2023-12-31T23:59:59.9999995",
		"2023-12-31 23:59:59.999999", "2024-01-01T00:00:00.000001", "2023-12-31T12:00:00", "2024-01-01T12:00:00", "2024-01-01T14:00:00",
		"2024-02-29T12:00:00", "2024-02-28T23:59:59.5", "2024-02-29T00:00:00", "2024-12-31T23:59:59.999999999",
		"2024-06-15T12:34:56.123456789", "0001-01-01T00:00:00", "9999-12-31T23:59:59", "2024-06-15T00:00:00", "1970-01-01T00:00:00")
	for k := 1; k <= 9; k++ {
		add("f1", "timestamp", "2024-06-15T12:34:56."+otDigits[:k])
		add("f1", "timestamptz", "2024-06-15T12:34:56."+otDigits[:k]+"Z")
	}
	for i, off := range otHourOffsets {
		add("f1", "timestamptz", "2024-01-01T00:00:00"+off)
		if i%3 == 0 {
			add("f1", "timestamptz", "2023-12-31 23:59:59.5"+off)
		}
	}
	for _, off := range otHalfOffsets {
		add("f1", "timestamptz", "2024-01-01T00:00:00"+off)
	}
	add("f1", "timestamptz", "2023-12-31T23:59:59Z", "2024-01-01 00:00:00+00", "2023-12-31T12:00:00-12", "2024-01-01T14:00:00+14:00",
		"2023-12-31T19:00:00-05:00", "2024-01-01T05:30:00+05:30", "2023-12-31T23:59:59.9999995Z", "2024-06-15T12:34:56.123456789+02:00",
		"2024-02-29T23:59:59.5-08", "2024-06-15T00:00:00Z", "1970-01-01T00:00:00Z", "0001-01-01T00:00:00Z", "9999-12-31T23:59:59Z",
		"2024-02-29T00:00:00+05:30", "2024-03-01T00:00:00-03:30")
	// family 2
	add("f2", "time", "00:00:00", "23:59:59", "12:00:00", "12:34:56", "12:34:56.5", "12:34:56.4999995", "12:34:56.0000005",
		"12:34:56.0000004", "12:34:56.9999995", "12:34:56.999999999", "23:59:59.9999995", "23:59:59.5", "00:00:00.000001",
		"12:34:56.15", "12:34:56.25", "12:34:56.45", "06:30:00", "17:30:00")
	for k := 1; k <= 9; k++ {
		add("f2", "time", "12:34:56."+otDigits[:k])
		add("f2", "timetz", "12:34:56."+otDigits[:k]+"+01")
	}
	for _, off := range otHourOffsets {
		add("f2", "timetz", "12:00:00"+off)
	}
	for _, off := range otHalfOffsets {
		add("f2", "timetz", "12:00:00"+off)
	}
	add("f2", "timetz", "00:00:00+14:00", "23:59:59-12:00", "23:59:59.9999995+05:30", "12:34:56.123456789-05", "00:00:00Z", "23:59:59Z",
		"17:30:00+05:30", "07:00:00-05:00", "12:34:56.5+00", "12:34:56.4999995Z", "23:59:59.9999995-12")
	return cl
}

var otNamedZones = []string{"America/New_York", "Europe/Berlin", "Australia/Sydney", "Australia/Lord_Howe", "Pacific/Auckland", "Asia/Jerusalem"}

var otFixedZones = []string{"UTC", "fixed:-43200", "fixed:50400", "fixed:19800", "fixed:-12600", "fixed:3600"}

// otTransitionClusters: for each offset change of the zone in the year, the dates and wall-clock
// timestamps on and around it (inside the gap / overlap too) and the matching instants.
func otTransitionClusters(name string, loc *time.Location, year int) map[string][]otStr {
	z := &namedZone{name: name, loc: loc, cache: map[int][]transition{}}
	cl := map[string][]otStr{}
	for ti, tr := range z.inYear(year) {
		c := fmt.Sprintf("%s#%d.%d", name, year, ti)
		seen := map[string]bool{}
		add := func(kind, s string) {
			if !seen[s] {
				seen[s] = true
				cl[c] = append(cl[c], otStr{s, kind})
			}
		}
		before := offAt(loc, tr.at-1)
		width := int64(tr.off - before)
		if width < 0 {
			width = -width
		}
		deltas := []int64{-3601, -1800, -1, 0, 1, width / 2, width - 1, width, width + 1, 3600}
		for _, base := range []int{before, tr.off} {
			for i, d := range deltas {
				w := time.Unix(tr.at+int64(base)+d, 0).UTC()
				add("timestamp", w.Format("2006-01-02T15:04:05"))
				if i == 5 {
					add("timestamp", w.Format("2006-01-02 15:04:05")+".5")
					add("timestamp", w.Add(-time.Second).Format("2006-01-02T15:04:05")+".9999995")
				}
			}
		}
		day := time.Unix(tr.at+int64(before), 0).UTC()
		for d := -1; d <= 1; d++ {
			add("date", day.AddDate(0, 0, d).Format("2006-01-02"))
		}
		for _, d := range []int64{-3600, -width, -1, 0, 1, width / 2, width, 3600} {
			i := time.Unix(tr.at+d, 0)
			add("timestamptz", i.UTC().Format("2006-01-02T15:04:05")+"Z")
			add("timestamptz", i.In(time.FixedZone("", before)).Format("2006-01-02T15:04:05-07:00"))
			add("timestamptz", i.In(time.FixedZone("", tr.off)).Format("2006-01-02T15:04:05-07:00"))
		}
		// the instants of local midnight of the three days, under both offsets
		for d := -1; d <= 1; d++ {
			m := day.AddDate(0, 0, d)
			for _, off := range []int{before, tr.off} {
				i := time.Date(m.Year(), m.Month(), m.Day(), 0, 0, 0, 0, time.FixedZone("", off))
				add("timestamptz", i.UTC().Format("2006-01-02T15:04:05")+"Z")
			}
		}
	}
	return cl
}

// ---------------------------------------------------------------- seeds

type otSeed struct {
	op      string
	zone    string // "" = not given (bin/check strips the zone table of time cases)
	usetz   bool
	hasTZ   bool
	strs    []string
	pairs   [][4]string // a, b, call1, call2
	precs   []int
	kind    string
	data    []byte
	hasData bool
}

var otCmpRe = regexp.MustCompile(`([$@])((?:\[\d+\]|\.[A-Za-z_]\w*)*?)\.(datetime|date|time_tz|time|timestamp_tz|timestamp)\((\d*)\)\s*(?:==|!=|<>|<=|>=|<|>)\s*([$@])((?:\[\d+\]|\.[A-Za-z_]\w*)*?)\.(datetime|date|time_tz|time|timestamp_tz|timestamp)\((\d*)\)`)
var otAccRe = regexp.MustCompile(`\[(\d+)\]|\.([A-Za-z_]\w*)`)
var otLitRe = regexp.MustCompile(`"((?:[^"\\]|\\.)*)"`)

func otWalk(doc any, chain string) (any, bool) {
	cur := doc
	for _, m := range otAccRe.FindAllStringSubmatch(chain, -1) {
		if m[1] != "" {
			i, _ := strconv.Atoi(m[1])
			arr, ok := cur.([]any)
			if !ok {
				if i == 0 {
					continue // lax: a scalar is its own element 0
				}
				return nil, false
			}
			if i >= len(arr) {
				return nil, false
			}
			cur = arr[i]
		} else {
			obj, ok := cur.(map[string]any)
			if !ok {
				return nil, false
			}
			if cur, ok = obj[m[2]]; !ok {
				return nil, false
			}
		}
	}
	return cur, true
}

func otDocStrings(v any, out *[]string) {
	switch v := v.(type) {
	case string:
		*out = append(*out, v)
	case []any:
		for _, x := range v {
			otDocStrings(x, out)
		}
	case map[string]any:
		keys := make([]string, 0, len(v))
		for k := range v {
			keys = append(keys, k)
		}
		sort.Strings(keys)
		for _, k := range keys {
			otDocStrings(v[k], out)
		}
	}
}

func otZoneOfCase(c map[string]any) string {
	if id, ok := c["zoneid"].(string); ok && id != "" {
		return id
	}
	if z, ok := c["zone"].(map[string]any); ok {
		switch z["kind"] {
		case "utc":
			return "UTC"
		case "fixed":
			return fmt.Sprintf("fixed:%d", int(toF(z["off"])))
		case "named":
			if n, ok := z["name"].(string); ok {
				return n
			}
		}
	}
	return ""
}

func otReadSeed(c map[string]any) otSeed {
	sd := otSeed{zone: otZoneOfCase(c)}
	sd.op, _ = c["op"].(string)
	if b, ok := c["usetz"].(bool); ok {
		sd.usetz, sd.hasTZ = b, true
	}
	for _, k := range []string{"src", "a", "b"} {
		if s, ok := c[k].(string); ok {
			sd.strs = append(sd.strs, s)
		}
	}
	if a, ok := c["a"].(string); ok {
		if b, ok := c["b"].(string); ok {
			sd.pairs = append(sd.pairs, [4]string{a, b, "datetime()", "datetime()"})
		}
	}
	if p, ok := c["precision"]; ok && p != nil {
		sd.precs = append(sd.precs, int(toF(p)))
	}
	sd.kind, _ = c["kind"].(string)
	if t, ok := c["target"].(string); ok && sd.kind == "" {
		sd.kind = t
	}
	if arr, ok := c["data"].([]any); ok {
		sd.hasData = true
		for _, x := range arr {
			sd.data = append(sd.data, byte(int(toF(x))))
		}
	}
	if text, ok := c["path"].(string); ok {
		doc, err := decItem(normJSON(c["doc"]))
		if err == nil {
			otDocStrings(doc, &sd.strs)
			for _, m := range otCmpRe.FindAllStringSubmatch(text, -1) {
				l, ok1 := otWalk(doc, m[2])
				r, ok2 := otWalk(doc, m[6])
				ls, ok3 := l.(string)
				rs, ok4 := r.(string)
				if ok1 && ok2 && ok3 && ok4 {
					sd.pairs = append(sd.pairs, [4]string{ls, rs, m[3] + "(" + m[4] + ")", m[7] + "(" + m[8] + ")"})
				}
			}
		}
		for _, m := range otLitRe.FindAllString(text, -1) {
			if s, err := strconv.Unquote(m); err == nil {
				sd.strs = append(sd.strs, s)
			}
		}
		if vs, ok := normJSON(c["vars"]).([]any); ok {
			for _, m := range vs {
				if kv, ok := m.([]any); ok && len(kv) == 2 {
					if v, err := decItem(kv[1]); err == nil {
						otDocStrings(v, &sd.strs)
					}
				}
			}
		}
	}
	return sd
}

// otSeedZones: the zones a seed is tried in.
func otSeedZones(sd otSeed, all []string) []string {
	if sd.zone != "" {
		return []string{sd.zone}
	}
	return all
}

func otDedupe(ss []string) []string {
	seen := map[string]bool{}
	var out []string
	for _, s := range ss {
		if !seen[s] {
			seen[s] = true
			out = append(out, s)
		}
	}
	return out
}

// otLooksLikeDatetime keeps the seed strings worth evaluating.
func otLooksLikeDatetime(s string) bool {
	if len(s) < 5 || len(s) > 64 {
		return false
	}
	return strings.ContainsAny(s, ":-") && strings.ContainsAny(s, "0123456789")
}

// ---------------------------------------------------------------- C17: comparison of a pair

// c17Pair checks the comparison clauses of the property for `$[0].<c1>` against
// `$[1].<c2>` on the document [a, b].
func (e *otEnv) c17Pair(o *oracleRun, a, b, c1, c2 string, usetz bool) J {
	e.last = 3
	otStats.pairs.Add(1)
	ra, rb := e.operand(a, c1, usetz), e.operand(b, c2, usetz)
	if ra.v == nil || rb.v == nil {
		return nil // not two datetimes: the cast clauses (c17Cast) judge the operands
	}
	in := J{"a": a, "b": b, "m1": c1, "m2": c2, "usetz": usetz,
		"left": otShowDT(ra.v), "right": otShowDT(rb.v)}
	fail := func(what string, expected any, got J) J {
		in["expected"] = expected
		in["got"] = got
		return otViolation("C17", "pair", what, e, in)
	}
	doc := []any{a, b}
	L, R := "$[0]."+c1, "$[1]."+c2
	ftext := [3]string{L + " < " + R, L + " == " + R, L + " > " + R}
	rtext := [3]string{R + " > " + L, R + " == " + L, R + " < " + L}
	var f, r [3]string
	var fo [3]otOut
	for i := 0; i < 3; i++ {
		fo[i] = e.query(ftext[i], doc, usetz, false, nil)
		f[i] = fo[i].pred()
		r[i] = e.query(rtext[i], doc, usetz, false, nil).pred()
	}
	got := J{"a<b": f[0], "a==b": f[1], "a>b": f[2], "b>a": r[0], "b==a": r[1], "b<a": r[2]}
	e.last = otOrderCode(f[0], f[1], f[2])
	for i := 0; i < 3; i++ {
		if f[i] == "E:panic" || r[i] == "E:panic" || f[i] == "x" || r[i] == "x" || f[i] == "E:nopath" {
			got["detail"] = fo[i].show()
			return fail("comparison of two datetimes panicked or did not return one boolean/null", "true, false, null, or an error", got)
		}
	}
	// antisymmetry, also of the error class
	for i := 0; i < 3; i++ {
		if f[i] != r[i] {
			got["paths"] = []string{ftext[i], rtext[i]}
			return fail("comparison is not antisymmetric: `a op b` differs from `b op' a`", "identical outcomes (and error classes) in both orders", got)
		}
	}
	ka, kb := ra.kind, rb.kind
	switch {
	case otFamily(ka) != otFamily(kb):
		for i := 0; i < 3; i++ {
			if f[i] != "u" {
				return fail("a time compared with a date/timestamp is not unknown", "no error and nothing selected (null) for <, ==, >", got)
			}
		}
		for _, op := range []string{" <= ", " >= ", " != "} {
			if p := e.query(L+op+R, doc, usetz, false, nil).pred(); p != "u" {
				got[strings.TrimSpace(op)] = p
				return fail("a time compared with a date/timestamp is not unknown", "null for every comparison operator", got)
			}
		}
		return nil
	case otAware(ka) != otAware(kb) && !usetz:
		for i := 0; i < 3; i++ {
			if f[i] != "E:hard" {
				return fail("comparison between a zone-less and a zone-aware value without WithTZ is not the non-suppressible error",
					"an error wrapping ErrExecution and not ErrVerbose", got)
			}
		}
		if p := e.query(ftext[0], doc, false, true, nil).pred(); p != "E:hard" {
			got["silent a<b"] = p
			return fail("WithSilent suppresses the error of a zone-less/zone-aware comparison without WithTZ", "the same error under WithSilent", got)
		}
		if p := e.query(rtext[1], doc, false, true, nil).pred(); p != "E:hard" {
			got["silent b==a"] = p
			return fail("WithSilent suppresses the error of a zone-less/zone-aware comparison without WithTZ", "the same error under WithSilent", got)
		}
		// the same inside a filter
		fdoc := map[string]any{"a": a, "b": b}
		for _, silent := range []bool{false, true} {
			if out := e.query("$ ? (@.a."+c1+" < @.b."+c2+")", fdoc, false, silent, nil); out.class != "hard" {
				got["filter"] = out.show()
				got["filter silent"] = silent
				return fail("a filter hides the error of a zone-less/zone-aware comparison without WithTZ", "the non-suppressible error", got)
			}
		}
		return nil
	}
	// comparable
	n := 0
	for i := 0; i < 3; i++ {
		if f[i] != "t" && f[i] != "f" {
			return fail("comparable datetimes did not compare to true/false", "true or false for <, ==, >", got)
		}
		if f[i] == "t" {
			n++
		}
	}
	if n != 1 {
		return fail("not exactly one of <, ==, > holds for comparable datetimes", "exactly one", got)
	}
	// the comparison sees the values the methods return on their own
	vars := map[string]any{"a": ra.v, "b": rb.v}
	var vf [3]string
	for i, op := range []string{"<", "==", ">"} {
		vf[i] = e.query("$a "+op+" $b", nil, usetz, false, vars).pred()
	}
	if vf != f {
		got["values compared"] = J{"a<b": vf[0], "a==b": vf[1], "a>b": vf[2]}
		return fail("the comparison inside one path differs from comparing the values the two methods return on their own",
			"`$[0].m1() op $[1].m2()` = `$a op $b` with $a = `$.m1()` of a and $b = `$.m2()` of b", got)
	}
	if !usetz {
		return nil
	}
	// with WithTZ: same answer after the explicit casts to the common type
	T := otCommon(ka, kb)
	ca, ok1 := otCastAPI(e.ctx, ra.v, T)
	cb, ok2 := otCastAPI(e.ctx, rb.v, T)
	if ok1 && ok2 && (ka != T || kb != T) {
		cv := map[string]any{"a": ca, "b": cb}
		var cf [3]string
		for i, op := range []string{"<", "==", ">"} {
			cf[i] = e.query("$a "+op+" $b", nil, true, false, cv).pred()
		}
		if cf != f {
			got["after To* casts"] = J{"a<b": cf[0], "a==b": cf[1], "a>b": cf[2], "common": T, "left": otShowDT(ca), "right": otShowDT(cb)}
			return fail("comparison with WithTZ differs from comparing after explicit casts (To* conversions) to the common type",
				"identical outcomes", got)
		}
	}
	if c1 == "datetime()" && c2 == "datetime()" && (ka != T || kb != T) {
		m := otMethodOfKind[T]
		var cf [3]string
		for i, op := range []string{" < ", " == ", " > "} {
			cf[i] = e.query("$[0]."+m+"()"+op+"$[1]."+m+"()", doc, true, false, nil).pred()
		}
		if cf != f {
			got["after ."+m+"()"] = J{"a<b": cf[0], "a==b": cf[1], "a>b": cf[2]}
			return fail("comparison with WithTZ differs from comparing after the explicit casts ."+m+"() of both operands",
				"identical outcomes", got)
		}
	}
	// the zone used is the zone of the context: instants of local times that occur exactly once
	if otFamily(ka) == 1 && otAware(ka) != otAware(kb) {
		ia, oka := e.instant(ra.v)
		ib, okb := e.instant(rb.v)
		if oka && okb {
			want := [3]string{"f", "f", "f"}
			switch c := ia.Compare(ib); {
			case c < 0:
				want[0] = "t"
			case c == 0:
				want[1] = "t"
			default:
				want[2] = "t"
			}
			if want != f {
				got["instants"] = J{"a": ia.UTC().Format(time.RFC3339Nano), "b": ib.UTC().Format(time.RFC3339Nano)}
				return fail("comparison with WithTZ does not read the zone-less operand in the time zone of the context",
					fmt.Sprintf("a<b=%s a==b=%s a>b=%s (instants of the operands, local time taken in %s)", want[0], want[1], want[2], e.id), got)
			}
		}
	}
	return nil
}

// instant: the instant of a family-1 value under the context zone; ok only when
// it does not depend on how gaps and overlaps are resolved.
func (e *otEnv) instant(v types.DateTime) (time.Time, bool) {
	switch otKind(v) {
	case "timestamptz":
		return v.GoTime(), true
	case "date", "timestamp":
		t, exists, unique := otResolve(otFieldsOf(v.GoTime()), e.loc)
		return t, exists && unique
	}
	return time.Time{}, false
}

// cmp3 orders two strings through `.datetime()` under WithTZ: -1, 0, 1; 2 = unknown; 3 = anything else.
func (e *otEnv) cmp3(a, b string) int {
	doc := []any{a, b}
	lt := e.query("$[0].datetime() < $[1].datetime()", doc, true, false, nil).pred()
	eq := e.query("$[0].datetime() == $[1].datetime()", doc, true, false, nil).pred()
	gt := e.query("$[0].datetime() > $[1].datetime()", doc, true, false, nil).pred()
	return otOrderCode(lt, eq, gt)
}

func otOrderCode(lt, eq, gt string) int {
	switch lt + eq + gt {
	case "tff":
		return -1
	case "ftf":
		return 0
	case "fft":
		return 1
	case "uuu":
		return 2
	}
	return 3
}

// otTransBroken: given x<=y and y<=z (codes of cmp3), is the code of (x,z) wrong?
func otTransBroken(xy, yz, xz int) bool {
	if xy > 0 || yz > 0 || xy < -1 || yz < -1 {
		return false
	}
	if xy == 0 && yz == 0 {
		return xz != 0
	}
	return xz != -1
}

// c17Trans checks one triple.
func (e *otEnv) c17Trans(o *oracleRun, a, b, c string) J {
	if e.skipTrans(o, a) || e.skipTrans(o, b) || e.skipTrans(o, c) {
		return nil
	}
	otStats.triples.Add(1)
	xy, yz, xz := e.cmp3(a, b), e.cmp3(b, c), e.cmp3(a, c)
	if otTransBroken(xy, yz, xz) {
		return otViolation("C17", "trans", "comparison with WithTZ is not transitive", e, J{
			"a": a, "b": b, "c": c, "usetz": true, "m": "datetime()",
			"got":      J{"cmp(a,b)": xy, "cmp(b,c)": yz, "cmp(a,c)": xz},
			"expected": "a <= b and b <= c imply a <= c (strictly when one of them is strict)"})
	}
	return nil
}

// skipTrans: operands whose order through a named zone is the recorded finding
// D27/D28 (zone-less local times inside a gap; times on a day of the zone).
func (e *otEnv) skipTrans(o *oracleRun, s string) bool {
	if !e.named || !o.isKnown("D28") {
		return false
	}
	v, ok := types.ParseTime(e.ctx, s, -1)
	if !ok {
		return true
	}
	if otFamily(otKind(v)) == 2 {
		return true
	}
	return otInGap(v, e.loc)
}

// ---------------------------------------------------------------- C17: casts and precision

// c17Cast checks what the six methods return for one string.
func (e *otEnv) c17Cast(o *oracleRun, s, want string) J {
	otStats.casts.Add(1)
	in := J{"src": s}
	fail := func(what string, expected any, got any, more J) J {
		in["expected"] = expected
		in["got"] = got
		for k, v := range more {
			in[k] = v
		}
		return otViolation("C17", "cast", what, e, in)
	}
	v0, ok := otParseTime(e.ctx, s)
	if want != "" {
		in["documented_kind"] = want
		if !ok || otKind(v0) != want {
			return fail("a documented ISO-8601 form is not accepted as its type by ParseTime", want, otShowDT(v0), nil)
		}
	}
	if !ok {
		return nil
	}
	k0 := otKind(v0)
	for _, usetz := range []bool{false, true} {
		for _, call := range otCalls {
			m := strings.TrimSuffix(call, "()")
			out := e.operand(s, call, usetz).out
			more := J{"method": call, "usetz": usetz, "path": "$." + call}
			if out.class == "panic" {
				return fail("datetime method panicked", "a value or an error", out.show(), more)
			}
			if m == "datetime" {
				if v := out.single(); v == nil || !otSame(v, v0) {
					return fail(".datetime() does not return the most specific type of the string", otShowDT(v0), out.show(), more)
				}
				continue
			}
			to := otKindOfMethod[m]
			need := otCastNeed(k0, to)
			switch {
			case need == "no":
				if out.class == "items" {
					return fail("a cast between unrelated datetime types returned a value", "an error", out.show(), more)
				}
			case need == "tz" && !usetz:
				if out.class != "hard" {
					return fail("cast between a zone-less and a zone-aware type without WithTZ is not the non-suppressible error",
						"an error wrapping ErrExecution and not ErrVerbose", out.show(), more)
				}
				if so := e.query("$."+call, s, false, true, nil); so.class != "hard" {
					return fail("WithSilent suppresses the error of a zone-less/zone-aware cast without WithTZ", "the same error under WithSilent", so.show(), more)
				}
				if so := e.query("$ ? (@."+call+".type() == \"x\")", s, false, true, nil); so.class != "hard" {
					return fail("a filter under WithSilent hides the error of a zone-less/zone-aware cast without WithTZ", "the non-suppressible error", so.show(), more)
				}
			default:
				v := out.single()
				if v == nil || otKind(v) != to {
					return fail("a permitted cast did not return a value of the requested type", to, out.show(), more)
				}
				if api, ok := otCastAPI(e.ctx, v0, to); ok && !otSame(api, v) {
					if k0 == "time" && to == "timetz" {
						// both read today's date in the zone: evaluate again next to each other
						api, _ = otCastAPI(e.ctx, v0, to)
						if v2 := e.query("$."+call, s, usetz, false, nil).single(); v2 != nil && otSame(api, v2) {
							continue
						}
					}
					return fail("the method's cast differs from the To* conversion under the same context", otShowDT(api), out.show(), more)
				}
				if exp, why, ok := e.castIndependent(v0, to); ok && !(exp.GoTime().Equal(v.GoTime()) && otOffset(exp) == otOffset(v)) {
					return fail("the cast does not use the time zone carried by the context", J{"value": otShowDT(exp), "why": why}, out.show(), more)
				}
			}
		}
	}
	return nil
}

// castIndependent computes a cast from the fields, for the cases that do not
// depend on how a gap or an overlap is resolved (nor on today's date).
func (e *otEnv) castIndependent(v types.DateTime, to string) (types.DateTime, string, bool) {
	from := otKind(v)
	t := v.GoTime()
	switch from + ">" + to {
	case "date>timestamptz", "timestamp>timestamptz":
		i, exists, unique := otResolve(otFieldsOf(t), e.loc)
		if !exists || !unique {
			return nil, "", false
		}
		_, off := i.Zone()
		return types.NewTimestampTZ(e.ctx, i.In(time.FixedZone("", off))), "the local time read in " + e.id, true
	case "timestamptz>date", "timestamptz>time", "timestamptz>timestamp":
		return otNew(e.ctx, to, t.In(e.loc)), "the instant shown in " + e.id, true
	case "timestamptz>timetz":
		l := t.In(e.loc)
		_, off := l.Zone()
		return types.NewTimeTZ(l.In(time.FixedZone("", off))), "the instant shown in " + e.id, true
	case "date>timestamp", "timestamp>date", "timestamp>time", "timetz>time":
		return otNew(e.ctx, to, t), "the civil fields kept", true
	}
	return nil, "", false
}

func otParseTime(ctx context.Context, s string) (v types.DateTime, ok bool) {
	defer func() {
		if recover() != nil {
			v, ok = nil, false
		}
	}()
	return types.ParseTime(ctx, s, -1)
}

var otFracRe = regexp.MustCompile(`:\d\d\.(\d+)`)

// otRound rounds the fraction of a second half up at pp digits (the instant is
// a whole number of nanoseconds, so this is half away from zero on the
// nanosecond count of every instant the types can hold, as time.Round does).
func otRound(t time.Time, pp int) time.Time {
	unit := int64(1)
	for i := 0; i < 9-pp; i++ {
		unit *= 10
	}
	r := int64(t.Nanosecond()) % unit
	if r*2 >= unit {
		return t.Add(time.Duration(unit - r))
	}
	return t.Add(time.Duration(-r))
}

// c17Precision checks `$.<m>(p)` against the rounding of the full-precision value.
func (e *otEnv) c17Precision(o *oracleRun, s, m string, p int, usetz bool) J {
	otStats.precisions.Add(1)
	call := fmt.Sprintf("%s(%d)", m, p)
	in := J{"src": s, "method": call, "precision": p, "usetz": usetz, "path": "$." + call}
	fail := func(what string, expected any, got any) J {
		in["expected"] = expected
		in["got"] = got
		return otViolation("C17", "precision", what, e, in)
	}
	full := e.operand(s, m+"()", usetz)
	got := e.query("$."+call, s, usetz, false, nil)
	if got.class == "panic" {
		return fail("datetime method with a precision panicked", "a value or an error", got.show())
	}
	if full.v == nil {
		if got.class == "items" || (full.out.class == "hard") != (got.class == "hard") {
			in["without_precision"] = full.out.show()
			return fail("a precision argument changes whether / how the method fails", "the same failure as without the argument", got.show())
		}
		return nil
	}
	v := got.single()
	to := otKindOfMethod[m]
	if v == nil || otKind(v) != to {
		return fail("method with a precision did not return a value of the requested type", to, got.show())
	}
	pp := p
	if pp > 6 {
		pp = 6
	}
	digits := 0
	if mm := otFracRe.FindStringSubmatch(v.String()); mm != nil {
		digits = len(mm[1])
	}
	unit := 1
	for i := 0; i < 9-pp; i++ {
		unit *= 10
	}
	if digits > pp || v.GoTime().Nanosecond()%unit != 0 {
		return fail("more fractional digits than the precision (capped at 6) allows", fmt.Sprintf("at most %d fractional digits", pp), got.show())
	}
	// cast, then round
	expA := otNew(e.ctx, to, otRound(full.v.GoTime(), pp))
	same := func(x types.DateTime) bool {
		return x != nil && x.GoTime().Equal(v.GoTime()) && otOffset(x) == otOffset(v) && x.String() == v.String()
	}
	if same(expA) {
		return nil
	}
	// round, then cast
	var expB types.DateTime
	if v0, ok := otParseTime(e.ctx, s); ok && otKind(v0) != "date" {
		expB, _ = otCastAPI(e.ctx, otNew(e.ctx, otKind(v0), otRound(v0.GoTime(), pp)), to)
		if same(expB) {
			return nil
		}
	}
	in["without_precision"] = otShowDT(full.v)
	return fail("the value is not the full-precision value rounded (half away from zero) to the precision",
		J{"cast_then_round": otShowDT(expA), "round_then_cast": otShowDT(expB)}, got.show())
}

// ---------------------------------------------------------------- C17: search

func c17Oracle(o *oracleRun) J {
	if o.replay != nil {
		return c17Replay(o)
	}
	start := time.Now()
	end := start.Add(otWall)

	// ---- seeds first
	var seedStrs []string
	seedZones := append(append([]string{}, otFixedZones...), otNamedZones...)
	seedZones = otDedupe(append(seedZones, namedZoneNames...))
	envs := map[string]*otEnv{}
	env := func(id string) *otEnv {
		if e, ok := envs[id]; ok {
			return e
		}
		e := otNewEnv(id)
		envs[id] = e
		return e
	}
	var extraZones []string
	seedEnd := start.Add(otWall / 3)
	for _, c := range o.seeds {
		sd := otReadSeed(c)
		if sd.zone != "" {
			extraZones = append(extraZones, sd.zone)
		}
		var strs []string
		for _, s := range sd.strs {
			if otLooksLikeDatetime(s) {
				strs = append(strs, s)
			}
		}
		strs = otDedupe(strs)
		seedStrs = append(seedStrs, strs...)
		if time.Now().After(seedEnd) {
			continue
		}
		tzs := []bool{false, true}
		if sd.hasTZ {
			tzs = []bool{sd.usetz, !sd.usetz}
		}
		for _, zid := range otSeedZones(sd, seedZones) {
			e := env(zid)
			if e == nil {
				continue
			}
			for _, pr := range sd.pairs {
				for _, usetz := range tzs {
					if v := e.c17Pair(o, pr[0], pr[1], pr[2], pr[3], usetz); v != nil {
						return v
					}
					if v := e.c17Pair(o, pr[1], pr[0], pr[3], pr[2], usetz); v != nil {
						return v
					}
				}
				if sd.zone != "" || len(o.seeds) <= 20 {
					for _, c1 := range otCalls {
						for _, c2 := range otCalls {
							for _, usetz := range tzs {
								if v := e.c17Pair(o, pr[0], pr[1], c1, c2, usetz); v != nil {
									return v
								}
							}
						}
					}
				}
			}
			for i, s := range strs {
				if i >= 12 {
					break
				}
				if v := e.c17Cast(o, s, ""); v != nil {
					return v
				}
				precs := append([]int{0, 3, 6, 7}, sd.precs...)
				for _, m := range []string{"time", "time_tz", "timestamp", "timestamp_tz"} {
					for _, p := range precs {
						if p < 0 || p > 12 {
							continue
						}
						for _, usetz := range tzs {
							if v := e.c17Precision(o, s, m, p, usetz); v != nil {
								return v
							}
						}
					}
				}
				// pairs among the strings of the case (one path often holds both operands)
				for j, s2 := range strs {
					if j >= 12 {
						break
					}
					for _, usetz := range tzs {
						if v := e.c17Pair(o, s, s2, "datetime()", "datetime()", usetz); v != nil {
							return v
						}
					}
				}
			}
		}
	}
	seedStrs = otDedupe(seedStrs)
	if len(seedStrs) > 40 {
		seedStrs = seedStrs[:40]
	}

	// ---- the built-in pool, zone by zone, in parallel
	zones := otDedupe(append(append(append([]string{}, otFixedZones...), otNamedZones...), extraZones...))
	results := make([]J, len(zones))
	var wg sync.WaitGroup
	workers := runtime.NumCPU()
	if workers > 8 {
		workers = 8
	}
	if workers < 1 {
		workers = 1
	}
	sem := make(chan struct{}, workers)
	var stop sync.Once
	stopped := make(chan struct{})
	for zi, zid := range zones {
		wg.Add(1)
		go func(zi int, zid string) {
			defer wg.Done()
			sem <- struct{}{}
			defer func() { <-sem }()
			select {
			case <-stopped:
				return
			default:
			}
			if v := c17Zone(o, zid, seedStrs, end, stopped, int64(zi)); v != nil {
				results[zi] = v
				stop.Do(func() { close(stopped) })
			}
		}(zi, zid)
	}
	wg.Wait()
	otPrintStats("C17", start)
	for _, v := range results {
		if v != nil {
			return v
		}
	}
	return nil
}

// c17Zone runs every check of C17 under one context zone.
func c17Zone(o *oracleRun, zid string, seedStrs []string, end time.Time, stopped chan struct{}, salt int64) J {
	e := otNewEnv(zid)
	if e == nil {
		return nil
	}
	over := func() bool {
		select {
		case <-stopped:
			return true
		default:
		}
		return time.Now().After(end)
	}
	r := rand.New(rand.NewSource(o.seed*1000003 + salt))
	clusters := otBase()
	if e.named {
		for k, v := range otTransitionClusters(zid, e.loc, 2024) {
			clusters[k] = v
		}
	} else {
		// fixed zones: one foreign transition cluster keeps wall clocks next to instants in the pool
		if ny := otNewEnv("America/New_York"); ny != nil {
			for k, v := range otTransitionClusters("America/New_York", ny.loc, 2024) {
				if strings.HasSuffix(k, ".0") {
					clusters[k] = v
				}
			}
		}
	}
	for _, s := range seedStrs {
		clusters["seeds"] = append(clusters["seeds"], otStr{s, ""})
	}
	names := make([]string, 0, len(clusters))
	for k := range clusters {
		names = append(names, k)
	}
	sort.Strings(names)

	// casts and precisions of every string
	var all []otStr
	for _, k := range names {
		all = append(all, clusters[k]...)
	}
	for _, c := range all {
		if over() {
			return nil
		}
		if v := e.c17Cast(o, c.s, c.kind); v != nil {
			return v
		}
		if c.kind == "date" {
			continue
		}
		for _, m := range []string{"time", "time_tz", "timestamp", "timestamp_tz"} {
			for p := 0; p <= 7; p++ {
				for _, usetz := range []bool{true, false} {
					if v := e.c17Precision(o, c.s, m, p, usetz); v != nil {
						return v
					}
				}
			}
		}
	}

	// pairs inside each cluster; the order matrix of `.datetime()` under WithTZ feeds the transitivity check
	for _, k := range names {
		cl := clusters[k]
		n := len(cl)
		mat := make([]int8, n*n)
		complete := true
		for i := 0; i < n && complete; i++ {
			for j := 0; j < n; j++ {
				if over() {
					complete = false
					break
				}
				a, b := cl[i].s, cl[j].s
				if v := e.c17Pair(o, a, b, "datetime()", "datetime()", true); v != nil {
					return v
				}
				mat[i*n+j] = int8(e.last)
				ka, kb := e.operand(a, "datetime()", false).kind, e.operand(b, "datetime()", false).kind
				if otAware(ka) != otAware(kb) || (i+j)%5 == 0 {
					if v := e.c17Pair(o, a, b, "datetime()", "datetime()", false); v != nil {
						return v
					}
				}
				// one more combination of methods; identical strings get every combination in turn
				c1, c2 := otCalls[r.Intn(len(otCalls))], otCalls[r.Intn(len(otCalls))]
				if v := e.c17Pair(o, a, b, c1, c2, r.Intn(3) > 0); v != nil {
					return v
				}
				if i == j {
					for _, c1 := range otCalls {
						for _, c2 := range otCalls {
							if c1 == c2 {
								continue
							}
							for _, usetz := range []bool{false, true} {
								if v := e.c17Pair(o, a, a, c1, c2, usetz); v != nil {
									return v
								}
							}
						}
					}
				}
			}
		}
		if !complete {
			break
		}
		// transitivity over the cluster
		skip := make([]bool, n)
		for i := range cl {
			skip[i] = e.skipTrans(o, cl[i].s)
		}
		for i := 0; i < n; i++ {
			if skip[i] {
				continue
			}
			for j := 0; j < n; j++ {
				if skip[j] || mat[i*n+j] > 0 {
					continue
				}
				for l := 0; l < n; l++ {
					if skip[l] {
						continue
					}
					otStats.triples.Add(1)
					if otTransBroken(int(mat[i*n+j]), int(mat[j*n+l]), int(mat[i*n+l])) {
						if v := e.c17Trans(o, cl[i].s, cl[j].s, cl[l].s); v != nil {
							return v
						}
					}
				}
			}
		}
	}

	// pairs and triples across clusters, sampled
	for it := 0; it < o.n && !over(); it++ {
		a, b, c := all[r.Intn(len(all))].s, all[r.Intn(len(all))].s, all[r.Intn(len(all))].s
		c1, c2 := otCalls[r.Intn(len(otCalls))], otCalls[r.Intn(len(otCalls))]
		if it%2 == 0 {
			c1, c2 = "datetime()", "datetime()"
		}
		if v := e.c17Pair(o, a, b, c1, c2, r.Intn(3) > 0); v != nil {
			return v
		}
		if it%4 == 0 {
			if v := e.c17Trans(o, a, b, c); v != nil {
				return v
			}
		}
	}
	if !over() {
		otStats.zonesDone.Add(1)
	}
	return nil
}

func c17Replay(o *oracleRun) J {
	rp := o.replay
	str := func(k string) string { s, _ := rp[k].(string); return s }
	e := otNewEnv(str("zoneid"))
	if e == nil {
		return nil
	}
	usetz, _ := rp["usetz"].(bool)
	switch str("check") {
	case "pair":
		return e.c17Pair(o, str("a"), str("b"), str("m1"), str("m2"), usetz)
	case "trans":
		return e.c17Trans(o, str("a"), str("b"), str("c"))
	case "cast":
		return e.c17Cast(o, str("src"), str("documented_kind"))
	case "precision":
		m := str("method")
		if i := strings.IndexByte(m, '('); i >= 0 {
			m = m[:i]
		}
		return e.c17Precision(o, str("src"), m, int(toF(rp["precision"])), usetz)
	}
	return nil
}

// ---------------------------------------------------------------- C18

var otISO = map[string]*regexp.Regexp{
	"date":        regexp.MustCompile(`^\d{4}-\d{2}-\d{2}$`),
	"time":        regexp.MustCompile(`^\d{2}:\d{2}:\d{2}(\.\d{1,9})?$`),
	"timetz":      regexp.MustCompile(`^\d{2}:\d{2}:\d{2}(\.\d{1,9})?[+-]\d{2}:\d{2}$`),
	"timestamp":   regexp.MustCompile(`^\d{4}-\d{2}-\d{2}T\d{2}:\d{2}:\d{2}(\.\d{1,9})?$`),
	"timestamptz": regexp.MustCompile(`^\d{4}-\d{2}-\d{2}T\d{2}:\d{2}:\d{2}(\.\d{1,9})?[+-]\d{2}:\d{2}$`),
}

// otInDomain: year 1..9999 (for the types that have one) and whole-minute offset.
func otInDomain(v types.DateTime) bool {
	if otOffset(v)%60 != 0 {
		return false
	}
	if otFamily(otKind(v)) == 1 {
		y := v.GoTime().Year()
		return y >= 1 && y <= 9999
	}
	return otFamily(otKind(v)) == 2
}

func otUnmarshalInto(kind string, data []byte) (v types.DateTime, err error, pv any) {
	defer func() {
		if r := recover(); r != nil {
			pv = r
		}
	}()
	switch kind {
	case "date":
		x := &types.Date{}
		err, v = x.UnmarshalJSON(data), x
	case "time":
		x := &types.Time{}
		err, v = x.UnmarshalJSON(data), x
	case "timetz":
		x := &types.TimeTZ{}
		err, v = x.UnmarshalJSON(data), x
	case "timestamp":
		x := &types.Timestamp{}
		err, v = x.UnmarshalJSON(data), x
	case "timestamptz":
		x := &types.TimestampTZ{}
		err, v = x.UnmarshalJSON(data), x
	}
	return v, err, pv
}

// otJSONRoundTrip goes through encoding/json (which calls the methods).
func otJSONRoundTrip(v types.DateTime) (back types.DateTime, text string, err error, pv any) {
	defer func() {
		if r := recover(); r != nil {
			pv = r
		}
	}()
	b, err := json.Marshal(v)
	if err != nil {
		return nil, "", err, nil
	}
	text = string(b)
	switch otKind(v) {
	case "date":
		x := &types.Date{}
		err, back = json.Unmarshal(b, x), x
	case "time":
		x := &types.Time{}
		err, back = json.Unmarshal(b, x), x
	case "timetz":
		x := &types.TimeTZ{}
		err, back = json.Unmarshal(b, x), x
	case "timestamp":
		x := &types.Timestamp{}
		err, back = json.Unmarshal(b, x), x
	case "timestamptz":
		x := &types.TimestampTZ{}
		err, back = json.Unmarshal(b, x), x
	}
	return back, text, err, nil
}

// c18Value checks the text round trips of the value(s) a string denotes, under one context zone.
func (e *otEnv) c18Value(o *oracleRun, s string) J {
	var vals []types.DateTime
	var how []string
	if v, ok := otParseTime(context.Background(), s); ok {
		vals, how = append(vals, v), append(how, "ParseTime(context.Background(), src, -1)")
	}
	if v, ok := otParseTime(e.ctx, s); ok {
		if len(vals) == 0 || !otSame(vals[0], v) {
			vals, how = append(vals, v), append(how, "ParseTime(ctx, src, -1)")
		}
	}
	for i, v := range vals {
		if !otInDomain(v) {
			continue
		}
		otStats.values.Add(1)
		kind := otKind(v)
		in := J{"src": s, "value": otShowDT(v), "value_from": how[i]}
		fail := func(what string, expected any, got any) J {
			in["expected"] = expected
			in["got"] = got
			return otViolation("C18", "value", what, e, in)
		}
		str := v.String()
		if !otISO[kind].MatchString(str) {
			return fail("String() is not the ISO-8601 form of the type", otISO[kind].String(), str)
		}
		w, ok := otParseTime(e.ctx, str)
		if !ok || !otSame(v, w) {
			return fail("ParseTime(ctx, String(v), -1) does not return an equal value of the same type", otShowDT(v), otShowDT(w))
		}
		back, text, err, pv := otJSONRoundTrip(v)
		switch {
		case pv != nil:
			return fail("JSON round trip panicked", "no panic", fmt.Sprint(pv))
		case err != nil:
			return fail("JSON round trip failed", "json.Unmarshal(json.Marshal(v)) succeeds", J{"json": text, "err": err.Error()})
		case !otSame(v, back):
			return fail("json.Unmarshal(json.Marshal(v)) is not an equal value", otShowDT(v), J{"json": text, "back": otShowDT(back)})
		}
		// .string() inside a path
		for _, usetz := range []bool{false, true} {
			in["usetz"] = usetz
			if out := e.query("$v.string()", nil, usetz, false, map[string]any{"v": v}); !otIsString(out, str) {
				in["path"] = "$v.string()"
				return fail(".string() inside a path does not print String(v)", str, out.show())
			}
			for _, call := range []string{otMethodOfKind[kind] + "()", "datetime()"} {
				if out := e.query("$."+call+".string()", str, usetz, false, nil); !otIsString(out, str) {
					in["path"] = "$." + call + ".string()"
					in["doc"] = str
					return fail(".string() of the datetime read from String(v) inside a path does not print the same text", str, out.show())
				}
			}
		}
	}
	return nil
}

func otIsString(out otOut, want string) bool {
	if out.class != "items" || len(out.items) != 1 {
		return false
	}
	s, ok := out.items[0].(string)
	return ok && s == want
}

// c18Commute checks date -> timestamptz -> date and timestamp -> timestamptz ->
// timestamp for local times that exist in the zone.
func (e *otEnv) c18Commute(o *oracleRun, s string) J {
	v, ok := otParseTime(context.Background(), s)
	if !ok || !otInDomain(v) {
		return nil
	}
	kind := otKind(v)
	if kind != "date" && kind != "timestamp" {
		return nil
	}
	local, exists, _ := otResolve(otFieldsOf(v.GoTime()), e.loc)
	if !exists {
		return nil
	}
	otStats.commutes.Add(1)
	in := J{"src": s, "value": otShowDT(v)}
	fail := func(what string, expected any, got any) J {
		in["expected"] = expected
		in["got"] = got
		return otViolation("C18", "commute", what, e, in)
	}
	var mid *types.TimestampTZ
	var back types.DateTime
	func() {
		defer func() {
			if r := recover(); r != nil {
				in["panic"] = fmt.Sprint(r)
			}
		}()
		switch v := v.(type) {
		case *types.Date:
			mid = v.ToTimestampTZ(e.ctx)
			back = mid.ToDate(e.ctx)
		case *types.Timestamp:
			mid = v.ToTimestampTZ(e.ctx)
			back = mid.ToTimestamp(e.ctx)
		}
	}()
	if in["panic"] != nil {
		return fail("conversion panicked", "no panic", in["panic"])
	}
	in["timestamptz"] = otShowDT(mid)
	if !otSame(v, back) {
		return fail(kind+" -> timestamptz -> "+kind+" through the context zone is not the identity for a local time that exists in the zone",
			otShowDT(v), otShowDT(back))
	}
	// the same through a path, when the intermediate text can carry the offset
	_, off := local.Zone()
	if off%60 != 0 || mid == nil || !otInDomain(mid) {
		return nil
	}
	m := otMethodOfKind[kind]
	step1 := e.query("$.timestamp_tz().string()", v.String(), true, false, nil)
	if step1.class != "items" || len(step1.items) != 1 {
		in["path"] = "$.timestamp_tz().string()"
		return fail("cast to timestamptz inside a path failed under WithTZ", "a string", step1.show())
	}
	s2, _ := step1.items[0].(string)
	step2 := e.query("$."+m+"().string()", s2, true, false, nil)
	if !otIsString(step2, v.String()) {
		in["path"] = "$.timestamp_tz().string() then $." + m + "().string()"
		in["intermediate"] = s2
		return fail(kind+" -> timestamptz -> "+kind+" through paths under WithTZ is not the identity for a local time that exists in the zone",
			v.String(), step2.show())
	}
	return nil
}

// c18Unmarshal: UnmarshalJSON on arbitrary bytes returns (an error or a value), never panics.
func c18Unmarshal(kind string, data []byte) J {
	otStats.unmarshals.Add(1)
	_, _, pv := otUnmarshalInto(kind, data)
	if pv == nil {
		return nil
	}
	arr := make([]int, len(data))
	for i, b := range data {
		arr[i] = int(b)
	}
	return otViolation("C18", "unmarshal", "UnmarshalJSON panicked", nil, J{
		"kind": kind, "data": arr, "text": string(data), "got": J{"panic": fmt.Sprint(pv)}, "expected": "an error (or a value), no panic"})
}

func otHostile(r *rand.Rand, n int) [][]byte {
	var out [][]byte
	for _, s := range []string{"", `"`, `""`, `"x"`, "null", "true", "false", "0", "1", "12", "123", "{}", "[]", `{"a":1}`, "-1", "1e3",
		`"Z"`, `"+"`, `"-"`, `":"`, `"T"`, `" "`, `"\u0000"`, "\xff\xfe", "\"\xc3\"", `"+00"`, `"+00:00"`, `"+00:00:00"`, `"-00:00:01"`,
		`"12345678"`, `"123456789"`, `"+23456789"`, `"-23456"`, `"+2345"`, `"x+2345"`, `"x+2345678"`} {
		out = append(out, []byte(s))
	}
	valid := []string{`"2024-01-01"`, `"12:34:56.123456789"`, `"12:34:56.5+05:30"`, `"12:34:56-05"`, `"12:34:56+05:30:15"`,
		`"2024-01-01T12:34:56.123"`, `"2024-01-01T12:34:56.5+05:30"`, `"2024-01-01T12:34:56Z"`, `"2024-01-01T12:34:56-05"`,
		`"2024-01-01T12:34:56+05:30:15"`}
	for _, v := range valid {
		for i := 0; i <= len(v); i++ {
			out = append(out, []byte(v[:i]), []byte(v[i:]))
			if i > 0 && i < len(v) {
				out = append(out, []byte(v[:i]+`"`), []byte(`"`+v[i:]), []byte(v[1:i]))
			}
		}
	}
	const chars = `"0123456789:+-.TZ `
	for i := 0; i < n; i++ {
		b := make([]byte, r.Intn(14))
		for j := range b {
			if r.Intn(10) < 8 {
				b[j] = chars[r.Intn(len(chars))]
			} else {
				b[j] = byte(r.Intn(256))
			}
		}
		if r.Intn(2) == 0 && len(b) >= 2 {
			b[0], b[len(b)-1] = '"', '"'
		}
		out = append(out, b)
	}
	return out
}

func c18Oracle(o *oracleRun) J {
	if o.replay != nil {
		return c18Replay(o)
	}
	start := time.Now()
	defer otPrintStats("C18", start)
	end := start.Add(otWall)
	over := func() bool { return time.Now().After(end) }
	r := rand.New(rand.NewSource(o.seed*7907 + 18))

	envs := map[string]*otEnv{}
	env := func(id string) *otEnv {
		if e, ok := envs[id]; ok {
			return e
		}
		e := otNewEnv(id)
		envs[id] = e
		return e
	}
	poolZones := append(append([]string{}, otFixedZones...), otNamedZones...)
	poolZones = append(poolZones, "fixed:1234", "fixed:-34200")
	seedZones := otDedupe(append(append([]string{}, poolZones...), namedZoneNames...))

	// ---- seeds first
	var seedStrs []string
	var extraZones []string
	for _, c := range o.seeds {
		sd := otReadSeed(c)
		if sd.hasData {
			ks := otAllKinds
			for _, k := range ks {
				if v := c18Unmarshal(k, sd.data); v != nil {
					return v
				}
			}
			// a string payload is a candidate source too
			var s string
			if json.Unmarshal(sd.data, &s) == nil {
				sd.strs = append(sd.strs, s)
			}
		}
		if sd.zone != "" {
			extraZones = append(extraZones, sd.zone)
		}
		var strs []string
		for _, s := range sd.strs {
			if otLooksLikeDatetime(s) {
				strs = append(strs, s)
			}
		}
		strs = otDedupe(strs)
		seedStrs = append(seedStrs, strs...)
		for _, zid := range otSeedZones(sd, seedZones) {
			e := env(zid)
			if e == nil || over() {
				continue
			}
			for _, s := range strs {
				if v := e.c18Value(o, s); v != nil {
					return v
				}
				if v := e.c18Commute(o, s); v != nil {
					return v
				}
				// the neighbourhood of the seed: same date / midnight / the canonical text
				for _, s2 := range otNeighbours(s) {
					if v := e.c18Value(o, s2); v != nil {
						return v
					}
					if v := e.c18Commute(o, s2); v != nil {
						return v
					}
				}
			}
		}
	}
	seedStrs = otDedupe(seedStrs)

	// ---- UnmarshalJSON on hostile input
	for _, data := range otHostile(r, o.n*5) {
		for _, k := range otAllKinds {
			if v := c18Unmarshal(k, data); v != nil {
				return v
			}
		}
	}

	// ---- values of the pool under every zone
	base := otBase()
	zones := otDedupe(append(poolZones, extraZones...))
	for _, zid := range zones {
		e := env(zid)
		if e == nil {
			continue
		}
		var strs []string
		for _, k := range []string{"f1", "f2"} {
			for _, c := range base[k] {
				strs = append(strs, c.s)
			}
		}
		strs = append(strs, seedStrs...)
		// every named zone's transition strings are tried in every zone (cheap), its own in more detail
		for _, nz := range otNamedZones {
			ne := env(nz)
			if ne == nil {
				continue
			}
			cls := otTransitionClusters(nz, ne.loc, 2024)
			keys := make([]string, 0, len(cls))
			for k := range cls {
				keys = append(keys, k)
			}
			sort.Strings(keys)
			for _, k := range keys {
				for _, c := range cls[k] {
					strs = append(strs, c.s)
				}
			}
		}
		if e.named {
			strs = append(strs, otDenseAround(zid, e.loc)...)
		}
		for _, s := range otDedupe(strs) {
			if over() {
				return nil
			}
			if v := e.c18Value(o, s); v != nil {
				return v
			}
			if v := e.c18Commute(o, s); v != nil {
				return v
			}
		}
	}

	// ---- random values built from fields
	for it := 0; it < o.n*3 && !over(); it++ {
		e := env(zones[r.Intn(len(zones))])
		if e == nil {
			continue
		}
		t := time.Date(1+r.Intn(9999), time.Month(1+r.Intn(12)), 1+r.Intn(28), r.Intn(24), r.Intn(60), r.Intn(60), 0, time.UTC)
		if r.Intn(2) == 0 {
			t = t.Add(time.Duration(r.Int63n(1e9)))
		}
		if r.Intn(3) == 0 {
			t = time.Date(2023+r.Intn(4), t.Month(), t.Day(), t.Hour(), t.Minute(), t.Second(), t.Nanosecond(), time.UTC)
		}
		var s string
		switch r.Intn(5) {
		case 0:
			s = t.Format("2006-01-02")
		case 1:
			s = t.Format("15:04:05.999999999")
		case 2:
			s = t.Format("15:04:05.999999999") + otRandOffset(r)
		case 3:
			s = t.Format("2006-01-02T15:04:05.999999999")
		default:
			s = t.Format("2006-01-02T15:04:05.999999999") + otRandOffset(r)
		}
		if v := e.c18Value(o, s); v != nil {
			return v
		}
		if v := e.c18Commute(o, s); v != nil {
			return v
		}
	}
	return nil
}

func otRandOffset(r *rand.Rand) string {
	if r.Intn(8) == 0 {
		return "Z"
	}
	m := (r.Intn(27*4) - 12*4) * 15
	sign := "+"
	if m < 0 {
		sign, m = "-", -m
	}
	if m%60 == 0 && r.Intn(2) == 0 {
		return fmt.Sprintf("%s%02d", sign, m/60)
	}
	return fmt.Sprintf("%s%02d:%02d", sign, m/60, m%60)
}

// otNeighbours derives further candidates from a seed string: its date, that
// date's midnight, its canonical text.
func otNeighbours(s string) []string {
	v, ok := otParseTime(context.Background(), s)
	if !ok {
		return nil
	}
	out := []string{v.String()}
	if otFamily(otKind(v)) == 1 {
		t := v.GoTime()
		out = append(out, t.Format("2006-01-02"), t.Format("2006-01-02")+"T00:00:00", t.Format("2006-01-02T15:04:05.999999999"),
			t.AddDate(0, 0, 1).Format("2006-01-02"), t.AddDate(0, 0, -1).Format("2006-01-02"))
	}
	return out
}

// otDenseAround: every date of 2024 and, on the days of an offset change and
// their neighbours, the wall clock every 15 minutes.
func otDenseAround(name string, loc *time.Location) []string {
	var out []string
	for d := time.Date(2024, 1, 1, 0, 0, 0, 0, time.UTC); d.Year() == 2024; d = d.AddDate(0, 0, 1) {
		out = append(out, d.Format("2006-01-02"))
	}
	z := &namedZone{name: name, loc: loc, cache: map[int][]transition{}}
	for _, y := range []int{2023, 2024, 2025} {
		for _, tr := range z.inYear(y) {
			before := offAt(loc, tr.at-1)
			day := time.Unix(tr.at+int64(before), 0).UTC()
			day = time.Date(day.Year(), day.Month(), day.Day(), 0, 0, 0, 0, time.UTC)
			step := 15 * time.Minute
			from, to := day.AddDate(0, 0, -1), day.AddDate(0, 0, 2)
			if y != 2024 {
				from, to = day, day.AddDate(0, 0, 1)
				out = append(out, day.Format("2006-01-02"))
			}
			for w := from; w.Before(to); w = w.Add(step) {
				out = append(out, w.Format("2006-01-02T15:04:05"))
			}
		}
	}
	return out
}

func c18Replay(o *oracleRun) J {
	rp := o.replay
	str := func(k string) string { s, _ := rp[k].(string); return s }
	switch str("check") {
	case "unmarshal":
		var data []byte
		if arr, ok := rp["data"].([]any); ok {
			for _, x := range arr {
				data = append(data, byte(int(toF(x))))
			}
		}
		return c18Unmarshal(str("kind"), data)
	case "value":
		if e := otNewEnv(str("zoneid")); e != nil {
			return e.c18Value(o, str("src"))
		}
	case "commute":
		if e := otNewEnv(str("zoneid")); e != nil {
			return e.c18Commute(o, str("src"))
		}
	}
	return nil
}
