package main

// Generators for the lexer/parser/printer stream (see parse_stream.go).
// Every random choice comes from the one PRNG handed to newPathGen.

import (
	"fmt"
	"math"
	"math/rand"
	"strconv"
	"strings"
	"unicode/utf8"

	"github.com/theory/sqljson/path/ast"
)

type pathGen struct {
	r *rand.Rand
	// context of the expression being generated (keeps most paths valid)
	inFilter    int
	inSubscript int
	recent      [][]byte // recently generated valid-looking sources, for splicing
}

func newPathGen(r *rand.Rand) *pathGen { return &pathGen{r: r} }

func (g *pathGen) pick(xs ...string) string { return xs[g.r.Intn(len(xs))] }
func (g *pathGen) chance(p float64) bool    { return g.r.Float64() < p }

// ---------------------------------------------------------------------------
// Spelling of tokens
// ---------------------------------------------------------------------------

var contentRunes = []rune{
	'a', 'b', 'c', 'x', 'y', 'z', 'A', 'K', 'Z', '0', '1', '9', '_', ' ', '-', '.', '$', '@', '*', '/', '(', ')', '[', '{',
	'"', '\\', '\'', '\a', '\b', '\f', '\n', '\r', '\t', '\v', 0x01, 0x1f, 0x7f, 0x80, 0x85, 0xa0, 0xad, 0xe9, 0xff,
	0x130, 0x212a, 0x3b1, 0x65e5, 0x200b, 0x2028, 0xfeff, 0xfffd, 0xe000, 0xe00a, 0xffff,
	0x10000, 0x1f600, 0x1d11e, 0xe0001, 0x10ffff,
}

var identStartRunes = []rune{'a', 'b', 'k', 'x', 'A', 'Z', '_', 0xe9, 0x3b1, 0x65e5, 0x212a, 0x130, 0x1d400, 0x928, 0x995, 0xb95, 0x1780, 0x2160, 0x1885, 0x2118, 0x309b}
var identContRunes = []rune{'a', 'e', 'z', 'A', '0', '7', '_', 0xe9, 0x301, 0x65e5, 0x200c, 0xb7, 0x1d7ce, 0x93e, 0x9be, 0xbbe, 0x17b6, 0x903, 0x966, 0x203f, 0x1369, 0x19da, 0x387, 0xff10, 0x200d}

// spellRune writes r inside a string literal (inString) or an identifier, in a random form.
func (g *pathGen) spellRune(r rune, inString bool) string {
	var forms []string
	rawOK := r != '\\' && r != 0 && (!inString || (r != '"' && r != '\n'))
	if !inString {
		// raw only when the lexer would continue the identifier on it; be conservative
		rawOK = r == '_' || ('a' <= r && r <= 'z') || ('A' <= r && r <= 'Z') || ('0' <= r && r <= '9') || r > 0xbf && r != 0xd7 && r != 0xf7 && r < 0x2000
	}
	if rawOK {
		forms = append(forms, string(r), string(r), string(r))
	}
	switch r {
	case '\b':
		forms = append(forms, `\b`)
	case '\f':
		forms = append(forms, `\f`)
	case '\n':
		forms = append(forms, `\n`)
	case '\r':
		forms = append(forms, `\r`)
	case '\t':
		forms = append(forms, `\t`)
	case '\v':
		forms = append(forms, `\v`)
	}
	if r > 0 && r <= 0xff {
		forms = append(forms, fmt.Sprintf(`\x%02x`, r), fmt.Sprintf(`\x%02X`, r))
	}
	if r > 0 && r <= 0xffff && !(0xd800 <= r && r < 0xe000) {
		forms = append(forms, fmt.Sprintf(`\u%04x`, r), fmt.Sprintf(`\u%04X`, r))
	}
	if r > 0 {
		forms = append(forms, fmt.Sprintf(`\u{%x}`, r), fmt.Sprintf(`\u{%X}`, r))
		if s := fmt.Sprintf("%06x", r); len(s) == 6 {
			forms = append(forms, `\u{`+s+`}`)
		}
	}
	if r >= 0x10000 {
		hi, lo := 0xd800+((r-0x10000)>>10), 0xdc00+((r-0x10000)&0x3ff)
		forms = append(forms, fmt.Sprintf(`\u%04x\u%04x`, hi, lo), fmt.Sprintf(`\u{%x}\u%04X`, hi, lo))
	}
	if r != 0 && !strings.ContainsRune("bfnrtvxu", r) {
		forms = append(forms, `\`+string(r))
	}
	if len(forms) == 0 {
		return `\u{` + strconv.FormatInt(int64(r), 16) + `}`
	}
	return forms[g.r.Intn(len(forms))]
}

// lookalikes are texts that spell an escape sequence of some language without being one: the
// backslash is a character of the text.
var lookalikes = []string{
	`\U0001f600`, `\U000e0001`, `\U0001F600`, `\U00ff`, `\u00e9`, `\u{1f600}`, `\x41`, `\a`, `\n`, `\e`, `\E`, `\Q`, `\Qa\Eb`, `a\Eb`, `\\`, `\\U0001f600`,
	`C:\Users`, `\"`, `\u`, `\u{`, `\ud83d\ude00`, `%q`, `\141`, `\0`, `\z`, `\p{L}`, `[\d]`,
}

func (g *pathGen) stringContent() []rune {
	if g.chance(0.06) {
		out := []rune(lookalikes[g.r.Intn(len(lookalikes))])
		if g.chance(0.3) {
			out = append([]rune{contentRunes[g.r.Intn(len(contentRunes))]}, out...)
		}
		return out
	}
	n := g.r.Intn(5)
	if g.chance(0.1) {
		n += g.r.Intn(8)
	}
	out := make([]rune, n)
	for i := range out {
		out[i] = contentRunes[g.r.Intn(len(contentRunes))]
	}
	return out
}

func (g *pathGen) quoted(content []rune) string {
	var sb strings.Builder
	sb.WriteByte('"')
	for _, r := range content {
		sb.WriteString(g.spellRune(r, true))
	}
	sb.WriteByte('"')
	return sb.String()
}

func (g *pathGen) stringLit() string { return g.quoted(g.stringContent()) }

var keywordPool = []string{
	"is", "to", "abs", "lax", "date", "flag", "last", "size", "time", "type", "with", "floor", "bigint",
	"double", "exists", "number", "starts", "strict", "string", "boolean", "ceiling", "decimal", "integer",
	"time_tz", "unknown", "datetime", "keyvalue", "timestamp", "like_regex", "timestamp_tz", "null", "true", "false",
}

// caseMix spells a case-insensitive keyword.
func (g *pathGen) caseMix(w string) string {
	switch g.r.Intn(6) {
	case 0:
		return strings.ToUpper(w)
	case 1:
		b := []rune(w)
		for i := range b {
			if g.chance(0.5) {
				b[i] = []rune(strings.ToUpper(string(b[i])))[0]
			}
		}
		return string(b)
	case 2:
		// Unicode letters whose lower case is ASCII
		s := strings.Replace(w, "k", "\u212a", 1)
		if s == w {
			s = strings.Replace(w, "i", "\u0130", 1)
		}
		return s
	case 3:
		// escape one letter
		b := []rune(w)
		i := g.r.Intn(len(b))
		return string(b[:i]) + g.spellRune(b[i], false) + string(b[i+1:])
	default:
		return w
	}
}

func (g *pathGen) identName() []rune {
	if g.chance(0.25) {
		w := keywordPool[g.r.Intn(len(keywordPool))]
		if g.chance(0.3) {
			w = strings.ToUpper(w[:1]) + w[1:]
		}
		return []rune(w)
	}
	n := 1 + g.r.Intn(4)
	out := []rune{identStartRunes[g.r.Intn(len(identStartRunes))]}
	for i := 1; i < n; i++ {
		out = append(out, identContRunes[g.r.Intn(len(identContRunes))])
	}
	return out
}

// bareIdent spells name as an identifier (escapes allowed).
func (g *pathGen) bareIdent(name []rune) string {
	var sb strings.Builder
	for _, r := range name {
		if g.chance(0.15) {
			sb.WriteString(g.spellRune(r, false))
		} else if r == '_' || r > 0x7f || ('a' <= r && r <= 'z') || ('A' <= r && r <= 'Z') || ('0' <= r && r <= '9') {
			sb.WriteRune(r)
		} else {
			sb.WriteString(g.spellRune(r, false))
		}
	}
	return sb.String()
}

func (g *pathGen) key() string {
	switch g.r.Intn(5) {
	case 0:
		return g.stringLit()
	case 1:
		// arbitrary content, fully escaped identifier
		c := g.stringContent()
		if len(c) == 0 {
			c = []rune{'k'}
		}
		var sb strings.Builder
		for _, r := range c {
			if r == 0 {
				r = 'n'
			}
			sb.WriteString(g.spellRune(r, false))
		}
		return sb.String()
	default:
		return g.bareIdent(g.identName())
	}
}

func (g *pathGen) variable() string {
	if g.chance(0.35) {
		return "$" + g.stringLit()
	}
	n := 1 + g.r.Intn(3)
	var sb strings.Builder
	sb.WriteByte('$')
	for i := 0; i < n; i++ {
		sb.WriteRune(identContRunes[g.r.Intn(len(identContRunes))])
	}
	return sb.String()
}

var intForms = []string{
	"0", "1", "2", "7", "10", "42", "123", "1_000", "1_2_3", "9223372036854775807", "4294967295", "4294967294", "4294967296",
	"0x0", "0x1F", "0X1f", "0xdead_BEEF", "0x7fffffffffffffff", "0o17", "0O7", "0o1_7", "0b101", "0B1_0", "0b0",
}

var numericForms = []string{
	"1.5", ".5", "5.", "0.5", "1e3", "1E+3", "1.5e-3", "1_0.5", "1.2_5", "0e0", "1e1_0", "1.e2", "4.0", "2.50",
	"1e308", "1.7976931348623157e308", "5e-324", "4.9e-324", "2.2250738585072014e-308", "0.1e-7", "1e21", "1e20",
	"123456789012345678901.0", "0.000001", "0.0000001", "1e-7", "0.30000000000000004", "9007199254740993.0",
	"0.1", "100.0", "1e0", ".0", "0.", "0.0", "3.14159", "12345678.9", "1e-320", "9.999999999999999e22",
}

func (g *pathGen) intLit() string { return intForms[g.r.Intn(len(intForms))] }
func (g *pathGen) numLit() string {
	if g.chance(0.25) {
		// random mantissa / exponent: exercises ParseFloat rounding and json.Marshal layout
		nd := 1 + g.r.Intn(20)
		var sb strings.Builder
		dot := g.r.Intn(nd + 1)
		for i := 0; i < nd; i++ {
			if i == dot {
				sb.WriteByte('.')
			}
			sb.WriteByte(byte('0' + g.r.Intn(10)))
		}
		s := sb.String()
		if len(s) > 1 && s[0] == '0' && s[1] != '.' {
			s = "1" + s
		}
		if !strings.Contains(s, ".") || g.chance(0.6) {
			e := g.r.Intn(40) - 20
			if g.chance(0.2) {
				e = g.r.Intn(660) - 340
			}
			s += "e" + strconv.Itoa(e)
		}
		return s
	}
	if g.chance(0.3) {
		// random decimal
		s := strconv.Itoa(g.r.Intn(1000)) + "." + strconv.Itoa(g.r.Intn(1000))
		if g.chance(0.3) {
			s += g.pick("e", "E") + g.pick("", "+", "-") + strconv.Itoa(g.r.Intn(30))
		}
		return s
	}
	return numericForms[g.r.Intn(len(numericForms))]
}

func (g *pathGen) kw(w string) string {
	switch w {
	case "null", "true", "false":
		return w
	}
	return g.caseMix(w)
}

var regexPatterns = []string{"a", "^a.*b$", "[a-z]+", "(a|b)", "a{2,3}", `\d+`, "", ".", "a b", "(?i)x", `\\`, "[[:alpha:]]", "é", "日本", `\p{L}`,
	// the characters every string-valued site of the printer has to escape (quote(), not %q)
	"^a%%b$", "100%", "%d", "%v%s", "%!", "a%", "ring\a", "\U000f0001", "a\"b", "tab\there", "\x01", "\u200b", "\x7f", "\u0085", "\U0001f600", "\ufeff", "nl\nx", "\U0010ffff", "\ue000"}
var badRegexPatterns = []string{"(", "[a", "a**", "a{2,1}", `\`, "(?P<n>", "[z-a]", `\8`, "*"}
var flagForms = []string{"i", "s", "m", "q", "is", "ism", "iq", "qx", "xq", "sq", "ii", "imsq", ""}
var badFlagForms = []string{"x", "ix", "z", "I", "i ", "isx"}

// ---------------------------------------------------------------------------
// Grammar-directed generation (token lists)
// ---------------------------------------------------------------------------

type toks []string

func (g *pathGen) genPath() toks {
	var t toks
	switch g.r.Intn(6) {
	case 0:
		t = append(t, g.kw("strict"))
	case 1:
		t = append(t, g.kw("lax"))
	}
	if g.chance(0.45) {
		return append(t, g.pred(3)...)
	}
	return append(t, g.expr(3)...)
}

func (g *pathGen) compOp() string {
	return g.pick("==", "!=", "<>", "<", "<=", ">", ">=")
}

func (g *pathGen) pred(d int) toks {
	c := g.r.Intn(12)
	if d <= 0 && c < 6 {
		c = 6 + g.r.Intn(6)
	}
	switch c {
	case 0, 1:
		return append(append(g.pred(d-1), "&&"), g.pred(d-1)...)
	case 2:
		return append(append(g.pred(d-1), "||"), g.pred(d-1)...)
	case 3:
		return append(append(toks{"!", "("}, g.pred(d-1)...), ")")
	case 4:
		return append(append(toks{"("}, g.pred(d-1)...), ")")
	case 5:
		return append(append(toks{"("}, g.pred(d-1)...), ")", g.kw("is"), g.kw("unknown"))
	case 6:
		return append(append(toks{g.kw("exists"), "("}, g.expr(d-1)...), ")")
	case 7:
		t := append(g.expr(d-1), g.kw("starts"), g.kw("with"))
		if g.chance(0.5) {
			return append(t, g.stringLit())
		}
		return append(t, g.variable())
	case 8:
		t := append(g.expr(d-1), g.kw("like_regex"))
		pat := regexPatterns[g.r.Intn(len(regexPatterns))]
		t = append(t, g.quoted([]rune(pat)))
		if g.chance(0.6) {
			t = append(t, g.kw("flag"), `"`+flagForms[g.r.Intn(len(flagForms))]+`"`)
		}
		return t
	case 9:
		return append(toks{"!"}, append(append(toks{g.kw("exists"), "("}, g.expr(d-1)...), ")")...)
	default:
		return append(append(g.expr(d-1), g.compOp()), g.expr(d-1)...)
	}
}

func (g *pathGen) expr(d int) toks {
	c := g.r.Intn(10)
	if d <= 0 && c < 5 {
		c = 5 + g.r.Intn(5)
	}
	switch c {
	case 0, 1, 2:
		op := g.pick("+", "-", "*", "/", "%")
		return append(append(g.expr(d-1), op), g.expr(d-1)...)
	case 3:
		return append(toks{g.pick("+", "-")}, g.expr(d-1)...)
	case 4:
		return append(append(toks{"("}, g.expr(d-1)...), ")")
	default:
		return g.accessorExpr(d)
	}
}

func (g *pathGen) primary() toks {
	if g.inFilter > 0 && g.chance(0.4) {
		return toks{"@"}
	}
	if g.inSubscript > 0 && g.chance(0.3) {
		return toks{g.kw("last")}
	}
	switch g.r.Intn(12) {
	case 0:
		return toks{g.stringLit()}
	case 1:
		return toks{g.pick("null", "true", "false")}
	case 2:
		return toks{g.numLit()}
	case 3:
		return toks{g.intLit()}
	case 4:
		return toks{g.variable()}
	default:
		return toks{"$"}
	}
}

func (g *pathGen) accessorExpr(d int) toks {
	var t toks
	needAccessor := false
	switch c := g.r.Intn(10); {
	case c == 0 && d > 0:
		t = append(append(toks{"("}, g.expr(d-1)...), ")")
		needAccessor = true
	case c == 1 && d > 0:
		t = append(append(toks{"("}, g.pred(d-1)...), ")")
		needAccessor = true
	default:
		t = g.primary()
	}
	n := g.r.Intn(4)
	if needAccessor && n == 0 {
		n = 1
	}
	for i := 0; i < n; i++ {
		t = append(t, g.accessorOp(d)...)
	}
	return t
}

func (g *pathGen) anyLevel() string {
	if g.chance(0.25) {
		return g.kw("last")
	}
	if g.chance(0.08) {
		// out of range for a level (an error since the level goes through ParseInt(lit, 0, 32))
		return g.pick("2147483648", "4294967294", "4294967295", "4294967296", "9223372036854775807", "99999999999999999999", "0x80000000")
	}
	return g.pick("0", "1", "2", "3", "10", "0x2", "1_0", "0b11", "0o7", "0X1f", "1_000", "2147483647", "0x7fff_ffff")
}

var methodNamesPlain = []string{"abs", "size", "type", "floor", "double", "ceiling", "keyvalue", "bigint", "boolean", "integer", "number", "string"}

func (g *pathGen) accessorOp(d int) toks {
	switch g.r.Intn(16) {
	case 0:
		return toks{".", "*"}
	case 1:
		return toks{"[", "*", "]"}
	case 2:
		t := toks{"["}
		g.inSubscript++
		n := 1 + g.r.Intn(3)
		for i := 0; i < n; i++ {
			if i > 0 {
				t = append(t, ",")
			}
			t = append(t, g.expr(d-1)...)
			if g.chance(0.4) {
				t = append(append(t, g.kw("to")), g.expr(d-1)...)
			}
		}
		g.inSubscript--
		return append(t, "]")
	case 3:
		switch g.r.Intn(3) {
		case 0:
			return toks{".", "**"}
		case 1:
			return toks{".", "**", "{", g.anyLevel(), "}"}
		default:
			return toks{".", "**", "{", g.anyLevel(), g.kw("to"), g.anyLevel(), "}"}
		}
	case 4, 5:
		return toks{".", g.kw(methodNamesPlain[g.r.Intn(len(methodNamesPlain))]), "(", ")"}
	case 6:
		g.inFilter++
		t := append(append(toks{"?", "("}, g.pred(d-1)...), ")")
		g.inFilter--
		return t
	case 7:
		t := toks{".", g.kw("decimal"), "("}
		n := g.r.Intn(3)
		for i := 0; i < n; i++ {
			if i > 0 {
				t = append(t, ",")
			}
			if s := g.pick("", "", "+", "-"); s != "" {
				t = append(t, s)
			}
			t = append(t, g.intLit())
		}
		return append(t, ")")
	case 8:
		return toks{".", g.kw("date"), "(", ")"}
	case 9:
		if g.chance(0.5) {
			return toks{".", g.kw("datetime"), "(", ")"}
		}
		return toks{".", g.kw("datetime"), "(", g.pick(`"HH24:MI"`, `"YYYY-MM-DD"`, g.stringLit()), ")"}
	case 10:
		m := g.pick("time", "time_tz", "timestamp", "timestamp_tz")
		if g.chance(0.5) {
			return toks{".", g.kw(m), "(", ")"}
		}
		return toks{".", g.kw(m), "(", g.pick("0", "3", "6", "9", "0x3", "1_0"), ")"}
	default:
		return toks{".", g.key()}
	}
}

var separators = []string{" ", " ", "  ", "\t", "\n", "\r\n", "/**/", "/* c */", " /* * / */ ", "/***/"}

func wordy(r rune) bool {
	return r == '_' || r == '\\' || r == '.' || r == '$' || r == '"' || r >= 0x80 ||
		('a' <= r && r <= 'z') || ('A' <= r && r <= 'Z') || ('0' <= r && r <= '9')
}

// operator characters that could fuse with a neighbour into another token or a comment
func fusible(a, b rune) bool {
	pair := string([]rune{a, b})
	switch pair {
	case "==", "!=", "<=", ">=", "<>", "&&", "||", "**", "/*", "*/", "//":
		return true
	}
	return (a == '=' || a == '!' || a == '<' || a == '>' || a == '&' || a == '|' || a == '*') && (b == '=' || b == '*' || b == '>' || b == '&' || b == '|')
}

// join renders tokens with random layout, keeping adjacent tokens from fusing.
func (g *pathGen) join(t toks) []byte {
	var sb strings.Builder
	if g.chance(0.1) {
		sb.WriteString(separators[g.r.Intn(len(separators))])
	}
	for i, s := range t {
		if i > 0 {
			prev := t[i-1]
			a, _ := utf8.DecodeLastRuneInString(prev)
			b, _ := utf8.DecodeRuneInString(s)
			need := (wordy(a) && wordy(b)) || fusible(a, b)
			if strings.Contains(prev, "\\") && !strings.HasSuffix(prev, "\"") && wordy(b) {
				need = true // an identifier that ends in an escape (`las\u{74}`) continues into a following word
			}
			if need || g.chance(0.3) {
				sb.WriteString(separators[g.r.Intn(len(separators))])
			}
		}
		sb.WriteString(s)
	}
	if g.chance(0.1) {
		sb.WriteString(separators[g.r.Intn(len(separators))])
	}
	return []byte(sb.String())
}

// ---------------------------------------------------------------------------
// Malformed inputs
// ---------------------------------------------------------------------------

var nearMisses = []string{
	"$[0\\u0074o 1]", "$ ? (1\\x73tarts with \"a\")", "$.a ? (12\\u006cike_regex \"^1\")", "$[1\\u{74}o 2]", "$[1.5\\u0074o 2]", "$[0x1F\\u0074o 40]", "1\\x41", "$[1e1\\u0074o 20]", "$ ? (1\\u0073tarts with \"a\")",
	"\"a\".b", "\"a\".*", "\"a\".**", "\"a\".* + 1", "(\"a\".b)", "$ ? (\"a\".b == 1)", "$.rows ? (@.cells[@.pick] == 1)", "strict $.a ? ($.b[0 to @.n] == 2)", "$ ? (@[@.i] > 0)", "$[@.i]",
	// validity rules
	"$ ? (@.a > 1)[@.i]", "$?(@ > 0).a[0 to @]", "($ ? (@.a == 1))[@]", "strict $.x ? (exists(@.y)).z.*[1, @.n]", "$ ? (@ > 1).a == @", "$ ? (@ > 1) + @", "$[0 ? (@ > 1)][@]",
	"$ ? (@ > 1) ? (@ < 3)[@]", "$.a ? (@ > 1).b ? (@ < 2).c[@.d]", "$[0][last]", "$[last][0].a[1 to 2].b == last", "$[0 ? (last > 1)].a[last]", "$[0].a ? (@ == last)", "$[0, 1].x.y[@]",
	"exists($ ? (@ > 1))[@]", "(exists($ ? (@ > 1))) && @ == 1", "$ ? (@ > 1).a starts with @", "$ ? (@ > 1).a like_regex \"a\" && @.b == 1",
	// surrogate escapes: a high surrogate followed by something that is not a low surrogate
	"\"\\uD83D\\u{1DE00}\"", "\"\\uD83D\\u{2DC00}\"", "$\"\\u{D800}\\u{0FDFFF}\"", "$.k\\uD83D\\u{2DC00}", "\"\\uD83D\\u{10DE00}\"", "\"\\u{D83D}\\u{1DE00}\"", "\"\\uD83D\\u{DE00}\"", "\"\\u{D83D}\\uDE00\"",
	"\"\\u{D83D}\\u{DE00}\"", "\"\\uD83D\\u{00DE00}\"", "\"\\uD83D\\uD83D\"", "\"\\uDE00\\uD83D\"", "\"\\uD83D\\u0041\"", "\"\\uD83Dx\"", "\"\\u{DE00}\"", "\"\\u{1F600}\"", "\"\\u{01F600}\"", "$.a ? (@ like_regex \"^\\uD83D\\u{3DE00}$\")",
	"@", "@.a", "$.a == @", "last", "$.a[last]", "$[last]", "$[$[last]]", "$ ? (@[last] == 1)", "$[0] ? (last == 1)", "last + 1",
	"$ ? (@ > 1) . a == @", "$[1 to last]", "$[last to 0].b", "$.a ? ($[last] == 1)",
	// numbers
	"1_", "1__0", "_1", "0x", "0x_1", "0xg", "0b", "0b2", "0b12", "0o", "0o8", "1e", "1e+", "1e_1", "1.e", "00", "01", "0_1", "1.2.3", "1..2",
	"1a", "1.5a", "1e5x", "0x1.5", "0b1e5", "0o7e1", "0x1e5", ".e1", "1._5", "1_.5", "1e1_", "0.", ".0", "0.e1", "0e", "5.e-3", "1\u00e9", "1\u00c0", "0\x0e", "0\x0e5",
	// panics
	"--1", "-(-1)", "- -1", "+-1", "-+1", "-(+(-1))", "--1.5", "-(-1.5)", "- - 1e3", "9223372036854775808", "-9223372036854775808", "-9223372036854775809",
	"1e400", "-1e400", "1e309", "0x8000000000000000", "0xffffffffffffffffffff", "99999999999999999999999", "1.7976931348623159e308",
	"$.decimal(9223372036854775808)", "$.decimal(-9223372036854775809)", "$.decimal(--1)", "$.decimal(+-1)", "$.decimal(1,2,3)", "$.decimal(1,2,3).a", `$.decimal(1,2,3)."a"`, "$.decimal(1,2,3)[0]",
	"$.decimal(1,2,3) + 9223372036854775808", "$.decimal(1,)", "$.decimal(,1)", "$.decimal(1 2)", "$.decimal(1.5)", "$.decimal(-0x10, +0b1)",
	"$.time(99999999999999999999)", "$.time(9999999999999999999)", "$.time_tz(1_0)", "$.timestamp(-1)", "$.timestamp_tz(+1)", "$.time(1.5)", "$.time(\"a\")", "$.datetime(1)", "$.datetime(\"a\", \"b\")", "$.date(1)",
	"(1).a + --1", "$[--1]", "$ ? (@ == --1)", "-(1).a", "-(1)", "+(1)", "-(1.5).b", "-$", "-\"a\"", "- null",
	// escapes and strings
	`"\x"`, `"\x0"`, `"\x00"`, `"\xg0"`, `"\u"`, `"\u12"`, `"\u123g"`, `"\u0000"`, `"\u{}"`, `"\u{0}"`, `"\u{1234567}"`, `"\u{110000}"`, `"\u{ffffff}"`, `"\u{d800}"`,
	`"\ud800"`, `"\ud800x"`, `"\ud800\n"`, `"\ud800\x41"`, `"\ud800\u0041"`, `"\udc00\ud800"`, `"\ud83d\ude00"`, `"\ud83d\u{de00}"`, `"\u{d83d}\u{de00}"`, `"\ud800\`, `"\ud800\u`,
	`"abc`, `"abc\`, "\"a\nb\"", `"\a"`, `"\U0001F600"`, `"\'"`, `"\/"`, `"\0"`, "\"\\\n\"", `$.a\x41`, `$.a\x41 `, `$.\x41`, `$.a\`, `$.a\u0041`, `$.a\u{41}`, `$.\u0000`, `\u0024`, `$.\$`, `$.a\.b`,
	`$"a`, `$"a\`, `$.a."b`, `$a\x41`, "$\u00e9", "$1", "$_", "$ 1", `$""`, `$."`, `$.""`,
	// comments
	"/*", "/* a", "/* a *", "$ /* */", "$ /**/ . /**/ a", "/", "$ / * 2", "/* /* */ */", "$./**/a", "$ /*\x00*/", "1 /*\xff*/",
	// regex
	`$ like_regex "("`, `$ like_regex "a" flag "x"`, `$ like_regex "a" flag "z"`, `$ like_regex "a" flag "xq"`, `$ like_regex "(" flag "q"`, `$ like_regex "a" flag`, `$ like_regex`, `$ like_regex a`,
	`($ like_regex "(").a`, `($ like_regex "(")."a"`, `($ like_regex "(" flag "i")."a"`, `($ like_regex "a" flag "x")[0]`, `(($ like_regex "("))."a"`, `!($ like_regex "(")`, `($ like_regex "(") is unknown`,
	`$ ? (@ like_regex "(") + 9223372036854775808`, `$ like_regex "(" && --1 == 1`, `$ like_regex "[[:foo:]]"`, `$ like_regex "\\p{Foo}"`, `$ like_regex "a{1001}"`, `$ like_regex "(?i)a" flag "i"`,
	// structure
	"", " ", "$", "$.", "$..a", "$.a.", "$[", "$[]", "$[1", "$[1,", "$[1 to", "$[1 to 2", "$[*", "$[* ]", "$[*,1]", "$[1,*]", "$ ?", "$ ? (", "$ ? ()", "$ ? (@)", "$ ? (@ == 1", "$ ? @ == 1",
	"$.**{", "$.**{}", "$.**{1", "$.**{1 to", "$.**{1 to }", "$.**{to 2}", "$.**{-1}", "$.**{1.5}", "$.**{0x2}", "$.**{1_0}", "$.**{last to last}", "$.** {1}", "$. **", "$.* *", "$**",
	"$ == 1 == 2", "$ == 1 && 2", "1 && 2", "$ && $", "!$.a", "! ($.a)", "!($.a == 1)", "!(($.a == 1))", "!!($.a == 1)", "!exists($)", "exists $", "exists()", "exists(1 == 1)", "exists((1 == 1).a)",
	"($ == 1)", "(($ == 1))", "($ == 1) is unknown", "(($ == 1)) is unknown", "($ == 1) is", "($ == 1) is unknown is unknown", "(($ == 1) is unknown) is unknown", "$ is unknown", "($) is unknown", "(1) is unknown",
	"-($ == 1)", "-($ == 1).a", "($ == 1).a", "($ == 1).a == 2", "($ == 1)[0]", "($ == 1) ? (@ == true)", "1 + ($ == 1)", "1 + ($ == 1).a", "($ == 1) + 1", "(($ == 1)) + 1", "($ == 1) == true",
	"($).a", "(($).a).b", "((($))).a.b", "(1).abs()", "(1 + 2).abs()", "(2*3).abs() + 1", "1 + (2*3).abs()", "-(2).abs()", "(-2).abs()", "(1.5).x", "(\"s\").y", "(null).z", "($x).y", "(1)[0]", "(1) ? (@ > 0)",
	"1 + 2 * 3", "(1 + 2) * 3", "1 * 2 + 3", "1 - 2 - 3", "1 - (2 - 3)", "1 / 2 / 3", "1 / (2 / 3)", "- 1 * 2", "-(1 * 2)", "1 * -2", "1 - -2", "1+-+-2", "2 * (3 + 4) % 5", "1 + 2 == 3 - 4", "1 == 2 + 3 * 4",
	"$.a == 1 || $.b == 2 && $.c == 3", "($.a == 1 || $.b == 2) && $.c == 3", "$.a == 1 && $.b == 2 || $.c == 3", "$.a == 1 && ($.b == 2 || $.c == 3)", "$.a == 1 || $.b == 2 || $.c == 3",
	"$ starts with", "$ starts", "$ starts with 1", "$ starts with $x", "$ starts with \"a\"", "$ STARTS WITH \"a\"", "$ starts with \"a\" && $ starts with \"b\"", "1 + 2 starts with \"a\"", "$ like_regex \"a\" == true",
	"strict", "lax", "strict strict $", "strict lax $", "STRICT $", "Lax $", "strict$", "strict$.a", "lax(1)", "$.strict", "$.lax.strict", "$ . lax", "strictly", "strict $ == 1",
	"$.true", "$.TRUE", "TRUE", "True", "NULL", "$.null", "$.false.true", "$.last", "$.LAST", "LAST", "$[LAST]", "$.to", "$[1 TO 2]", "$.is.unknown", "$.exists", "$.with", "$.flag", "$.like_regex", "$.starts",
	"$.abs", "$.abs()", "$.ABS()", "$.Abs ()", "$.abs ( )", "$.abs(1)", "$.abs()()", "$.\"abs\"()", "$.\u212aeyvalue()", "$.\u212aEYVALUE", "$.key\u0130value", "$.t\u0130me()", "\u0130s", "$.\u017fize()", "$.si\u017ee()",
	"$.decimal", "$.decimal()", "$.Decimal ( 1 , 2 )", "$.date", "$.date()", "$.datetime", "$.datetime()", "$.time", "$.time()", "$.time(1)", "$.time_tz", "$.timestamp", "$.timestamp_tz", "$.bigint()", "$.keyvalue().key",
	"$a", "$a.b", "$\"a b\".c", "$a == $b", "$ a", "$.$", "$.$a", "$.a$", "$.@", "$@", "@$", "$ $", "$.a b", "$.a \"b\"", "\"a\" \"b\"", "1 2", "$ 1", "1 $", "$.a 1",
	// runes the generated parser mistakes for tokens
	"\ue00c", "\ue00b", "\ue00a", "$[1 \ue002 2]", "$.\ue002", "$ \ue011 \ue00a", "$ \ue000", "$ \ue001", "$ \ue032", "$.\ue00c", "$.**{\ue00c}", "$.decimal(\ue00c)", "$.time(\ue00c)", "\ue018 $", "\ue019 $",
	"\ue00d", "$ \ue01b \ue01c \ue00a", "$ \ue01d \ue00a", "$ \ue01d \ue00a \ue01e \ue00a", "\ue010 (\ue008 ($))", "$.\ue01f()", "$.\ue02a()", "$ \ue00e $ == 1", "($ == 1) \ue006 \ue007", "-\ue00c", "$ ? (@ \ue013 \ue00b)",
	// lexing errors followed by more input (the parser keeps calling Lex)
	"$ \x00 + 9223372036854775808", "$ \x00 9223372036854775808", "1 \x00 + --1", "$.abs\x00()", "$.abs \x00()", "$.a\x00.b", "$ \"\n + 9223372036854775808", "$ \xff + --1", "$ 1a + --1", "$ 0x + --1",
	"\x00", "\x00$", "\x00 $", "\x00\x00$", "$\x00", "$ \x00", "$ \x00\x00", "$.time(\x00)", "$.time(\x00 1)", "$.time(1\x00)", "$.time(1 \x00)", "$.decimal(\x00)", "$.decimal(1\x00,2)", "$.decimal(1,\x002)", "$.decimal(1 \x00 , 9223372036854775808)",
	"$[\x00]", "$[\x001]", "$[1\x00]", "$[1 \x00]", "$[1 \x00 to 2]", "$[1 to \x00 2]", "$[1, \x00 2]", "$ ? \x00 (@ == 1)", "$ ? (\x00 @ == 1)", "$ ? (@ \x00 == 1)", "$ ? (@ == \x00 1)", "$ ? (@ == 1 \x00)", "$ ? (@ == 1) \x00",
	"( \x00 $ )", "( $ \x00 )", "( $ ) \x00 . a", "( $ == 1 \x00 ) . a", "( $ == 1 ) \x00 . a", "( $ == 1 ) \x00 is unknown", "( $ == 1 ) is \x00 unknown", "! \x00 ( $ == 1 )", "! ( $ == 1 \x00 )", "exists \x00 ( $ )", "exists ( $ \x00 )",
	"$ == \x00 1", "$ == 1 \x00 && $ == 2", "$ == 1 && \x00 $ == 2", "$ == 1 || $ == 2 \x00 && $ == 3", "1 + \x00 2", "1 + 2 \x00 * 3", "1 * 2 \x00 + 3", "- \x00 1", "- - \x00 1", "-- 1 \x00",
	"$ like_regex \x00 \"a\"", "$ like_regex \"a\" \x00 flag \"i\"", "$ like_regex \"a\" flag \x00 \"i\"", "$ like_regex \"(\" \x00 . a", "$ starts \x00 with \"a\"", "$ starts with \x00 \"a\"",
	"$.** \x00 {1}", "$.**{ \x00 1}", "$.**{1 \x00 }", "$.**{1 \x00 to 2}", "$.**{1 to \x00 2}", "$.**{1 to 2 \x00 }", "strict \x00 $", "\x00 strict $", "$ . \x00 a", "$ \x00 . a", "$ . a \x00 . b",
	"$.decimal(1,2,3) \x00 . \"a\"", "$.decimal(1,2,3) . a . \"b\"", "$.decimal(1,2,3).abs()", "$.decimal(1,2,3) == 1", "$ ? (@.decimal(1,2,3) == 1) . \"a\"", "$.a.decimal(1,2,3).\"b\".\"c\"", "($.decimal(1,2,3)).\"a\"", "(1).decimal(1,2,3)", "(1).decimal(1,2,3).\"a\"",
	// UTF-8 boundaries: invalid, then valid
	"\xc0\x80", "\xc1\xbf", "\xe0\x80\x80", "\xe0\x9f\xbf", "\xed\xa0\x80", "\xed\xbf\xbf", "\xf0\x80\x80\x80", "\xf0\x8f\xbf\xbf", "\xf4\x90\x80\x80", "\xf5\x80\x80\x80",
	"\xc2", "\xe2\x82", "\xf0\x9f\x98", "\x80", "\xbf", "\xfe", "$.\xc2", "\"\xe2\x82\"", "\"a\xf0\x9f\x98\"", "$.a\xed\xa0\x80b", "\"\xc0\x80\"", "$ \xe2\x82 + --1", "/*\xc2*/ $",
	"\"\xc2\x80\"", "\"\xdf\xbf\"", "\"\xe0\xa0\x80\"", "\"\xed\x9f\xbf\"", "\"\xee\x80\x80\"", "\"\xef\xbf\xbf\"", "\"\xf0\x90\x80\x80\"", "\"\xf4\x8f\xbf\xbf\"", "\"\xef\xbf\xbd\"", "$.\xdf\xbf", "$\xe0\xa0\x80",
	"a", "a.b", "abc\x00", "abc \x00", "$.abc\x00", "$ . abc\x00", "true\x00", "1\x00", "\"a\"\x00", "$x\x00", "$\x00", ".\x00", "/\x00", "/*\x00", "=\x00", "<\x00", "!\x00", "*\x00", "&\x00",
}

var contextTemplates = []string{"%s", "%s", "$ ? (@ == %s)", "$[%s]", "%s + 1", "(%s).a", "-%s", "$.a == %s", "(%s)", "%s == 1", "exists(%s)", "$[0 to %s]", "1 * %s", "$ ? (%s == 1 && %s == 2)",
	// the same token followed directly by another character class: what follows must not change it
	"%s.x", "%s.", "%s.5", "%s.abs()", "$ ? (@ > %s.b)", "$[%s.a]", "$.n.decimal(%s.)", "$.t.time(%s.)", "%s/**/.x", "%s)", "%s,", "%s]", "%se1", "%s_", "%sx", "%s\"a\"", "%s$", "%s@"}

var junkBytes = []byte("$@.*[](){}?!,+-/%<>=&|\"\\ \t\n_0123456789abelstxu:;#~'`^\x00\x01\x7f\x80\xbf\xc0\xc3\xa9\xe2\x82\xac\xed\xa0\x80\xf0\x9f\x98\x80\xf4\x90\xff\xee\x80\x8c")

func (g *pathGen) randomBytes() []byte {
	n := g.r.Intn(10)
	if g.chance(0.2) {
		n += g.r.Intn(20)
	}
	b := make([]byte, n)
	for i := range b {
		if g.chance(0.9) {
			b[i] = junkBytes[g.r.Intn(len(junkBytes))]
		} else {
			b[i] = byte(g.r.Intn(256))
		}
	}
	return b
}

func (g *pathGen) mutate(b []byte) []byte {
	out := append([]byte{}, b...)
	k := 1 + g.r.Intn(2)
	for ; k > 0; k-- {
		if len(out) == 0 {
			out = append(out, junkBytes[g.r.Intn(len(junkBytes))])
			continue
		}
		i := g.r.Intn(len(out))
		switch g.r.Intn(7) {
		case 0: // flip a bit
			out[i] ^= 1 << uint(g.r.Intn(8))
		case 1: // delete
			out = append(out[:i], out[i+1:]...)
		case 2: // duplicate
			out = append(out[:i+1], out[i:]...)
		case 3: // insert junk
			out = append(out[:i], append([]byte{junkBytes[g.r.Intn(len(junkBytes))]}, out[i:]...)...)
		case 4: // replace
			out[i] = junkBytes[g.r.Intn(len(junkBytes))]
		case 5: // truncate
			out = out[:i]
		case 6: // splice with another source
			if len(g.recent) > 0 {
				o := g.recent[g.r.Intn(len(g.recent))]
				j := g.r.Intn(len(o) + 1)
				out = append(append([]byte{}, out[:i]...), o[j:]...)
			}
		}
	}
	return out
}

var errorTokens = []string{"\x00", "\xff", "\"\n", "1a", "0x", "/*", "\"\\x\"", "\xed\xa0\x80", "1_", "a\x00"}
var panicTokens = []string{"9223372036854775808", "--1", "-(-1)", "1e400", ".decimal(9223372036854775808)", "\ue00c", "- -1.5", ".time(99999999999999999999)"}

func (g *pathGen) remember(b []byte) {
	if len(g.recent) < 64 {
		g.recent = append(g.recent, b)
	} else {
		g.recent[g.r.Intn(len(g.recent))] = b
	}
}

// emitRandom writes one or more cases.
func (g *pathGen) emitRandom(cw *caseWriter) {
	switch c := g.r.Intn(100); {
	case c < 42: // valid path, random spelling; sometimes followed by its reparse
		g.inFilter, g.inSubscript = 0, 0
		src := g.join(g.genPath())
		g.remember(src)
		cw.parseCase("valid", src)
		if g.chance(0.6) {
			if res, p := goParse(string(src)); p != nil {
				_ = res
				cw.parseCase("reparse", []byte(p.String()))
			}
		}
	case c < 44: // a valid path with one exotic character in front of or behind it (BOM, NBSP, U+2028, ...)
		g.inFilter, g.inSubscript = 0, 0
		src := g.join(g.genPath())
		x := []string{"\ufeff", "\ufffe", "\u00a0", "\u2028", "\u2029", "\u3000", "\u200b", "\u0085", "\v", "\f", "\x1f", "\ufeff\ufeff", "\xef\xbb", "\xef\xbb\xbf "}[g.r.Intn(14)]
		if g.chance(0.7) {
			cw.parseCase("wrapped", append([]byte(x), src...))
		} else {
			cw.parseCase("wrapped", append(append([]byte{}, src...), x...))
		}
	case c < 44 && g.r.Intn(3) == 0: // very long tokens (error messages beyond 4 KiB, long literals)
		n := []int{300, 5000, 9000}[g.r.Intn(3)]
		switch g.r.Intn(6) {
		case 0:
			cw.parseCase("long", []byte("$.a == "+strings.Repeat("9", n)))
		case 1:
			cw.parseCase("long", []byte("$.a == 1."+strings.Repeat("1", n)))
		case 2:
			cw.parseCase("long", []byte("$ ? (@ like_regex \""+strings.Repeat("(", n)+"\")"))
		case 3:
			cw.parseCase("long", []byte("$.\""+strings.Repeat("k", n)+"\""))
		case 4:
			cw.parseCase("long", []byte("$."+strings.Repeat("k", n)+" == \""+strings.Repeat("é", n)+"\""))
		default:
			cw.parseCase("long", []byte("$.a == 0x"+strings.Repeat("f", n)))
		}
	case c < 45 && g.r.Intn(3) == 0: // the same ill-formed pattern with and without the q flag, in both orders; look-alike texts
		pat := badRegexPatterns[g.r.Intn(len(badRegexPatterns))]
		q := "$ ? (@ like_regex " + strconv.Quote(pat) + " flag \"q\")"
		plain := "$ ? (@ like_regex " + strconv.Quote(pat) + ")"
		alike := "$ ? (@ like_regex " + strconv.Quote(pat+" flag \"q\"") + ")"
		alike2 := "$ ? (@ like_regex " + strconv.Quote(pat+"q") + ")"
		seqs := [][]string{{q, plain, q}, {plain, q, plain}, {q, alike, alike2}, {alike, q, plain}}[g.r.Intn(4)]
		for _, t := range seqs {
			cw.parseCase("sequence", []byte(t))
		}
	case c < 45: // deep nesting: parentheses, unary signs, subscripts, filters
		n := []int{20, 50, 50, 120, 300, 300, 800, 2000, 50, 120, 20, 10050}[g.r.Intn(12)]
		kind := g.r.Intn(5)
		if kind >= 1 && kind <= 3 && n > 300 {
			n = 300 // these nest the resulting tree (and its JSON encoding) as deep as the input
		}
		switch kind {
		case 0:
			cw.parseCase("deep", []byte(strings.Repeat("(", n)+"$"+strings.Repeat(")", n)))
		case 1:
			cw.parseCase("deep", []byte(strings.Repeat("-", n)+"$"))
		case 2:
			cw.parseCase("deep", []byte(strings.Repeat("$[", n/2)+"0"+strings.Repeat("]", n/2)))
		case 3:
			cw.parseCase("deep", []byte("$"+strings.Repeat(" ? (exists(@", n/4)+strings.Repeat("))", n/4)))
		default:
			cw.parseCase("deep", []byte(strings.Repeat("(", n)+"$"+strings.Repeat(")", n-1)))
		}
	case c < 52: // byte-level mutation of a valid path
		g.inFilter, g.inSubscript = 0, 0
		src := g.join(g.genPath())
		cw.parseCase("mutated", g.mutate(src))
	case c < 58: // random bytes
		cw.parseCase("random", g.randomBytes())
	case c < 72: // near misses, possibly in context
		s := nearMisses[g.r.Intn(len(nearMisses))]
		t := contextTemplates[g.r.Intn(len(contextTemplates))]
		cw.parseCase("nearmiss", []byte(strings.ReplaceAll(t, "%s", s)))
	case c < 78: // every token kind at the end of the input: a valid path cut at a token boundary
		g.inFilter, g.inSubscript = 0, 0
		t := g.genPath()
		k := g.r.Intn(len(t) + 1)
		cw.parseCase("truncated", g.join(t[:k]))
	case c < 88: // a lexing error inside a valid token list, panic-prone tokens after it
		g.inFilter, g.inSubscript = 0, 0
		t := g.genPath()
		k := g.r.Intn(len(t) + 1)
		ins := toks{errorTokens[g.r.Intn(len(errorTokens))]}
		if g.chance(0.3) {
			ins = append(ins, errorTokens[g.r.Intn(len(errorTokens))])
		}
		t2 := append(append(append(toks{}, t[:k]...), ins...), t[k:]...)
		if g.chance(0.7) {
			j := k + len(ins) + g.r.Intn(len(t2)-k-len(ins)+1)
			pt := panicTokens[g.r.Intn(len(panicTokens))]
			t2 = append(append(append(toks{}, t2[:j]...), g.pick("", "+", "==", ".", "(")+pt), t2[j:]...)
		}
		cw.parseCase("errcont", []byte(strings.Join(t2, " ")))
	case c < 92: // panic-prone token somewhere in a valid token list
		g.inFilter, g.inSubscript = 0, 0
		t := g.genPath()
		k := g.r.Intn(len(t) + 1)
		pt := panicTokens[g.r.Intn(len(panicTokens))]
		t2 := append(append(append(toks{}, t[:k]...), pt), t[k:]...)
		cw.parseCase("panicky", g.join(t2))
	default: // printer on a constructed AST
		g.emitPrint(cw)
	}
}

// ---------------------------------------------------------------------------
// Printer cases: random ASTs in wire form
// ---------------------------------------------------------------------------

type astGen struct {
	g  *pathGen
	cs charSet
}

func (a *astGen) str() string {
	s := string(a.g.stringContent())
	s = strings.ReplaceAll(s, "\x00", "0")
	a.cs.addString(s)
	return s
}

func (a *astGen) next(d int, inFilter, inSub bool) any {
	if d <= 0 || a.g.chance(0.5) {
		return nil
	}
	return a.node(d-1, inFilter, inSub, true)
}

func (a *astGen) opt(d int, inFilter, inSub bool) any {
	if a.g.chance(0.04) {
		return nil
	}
	return a.node(d-1, inFilter, inSub, false)
}

var binOpsArith = []string{"and", "or", "eq", "ne", "lt", "gt", "le", "ge", "startsWith", "add", "sub", "mul", "div", "mod"}
var unOpsPlain = []string{"exists", "not", "isUnknown", "plus", "minus"}
var dtOps = []string{"datetime", "date", "time", "timeTZ", "timestamp", "timestampTZ"}

func (a *astGen) number() any {
	g := a.g
	if g.chance(0.5) {
		vals := []int64{0, 1, -1, 42, -7, math.MaxInt64, math.MinInt64, 1000000}
		return J{"t": "integer", "i": strconv.FormatInt(vals[g.r.Intn(len(vals))], 10)}
	}
	fs := []float64{0, 1.5, -2.25, 4, 1e21, 1e20, 1e-7, 1e-6, 123456789.125, 5e-324, math.MaxFloat64, -0.1, 100, 1e22, 0.000123, math.Copysign(0, -1)}
	f := fs[g.r.Intn(len(fs))]
	if g.chance(0.3) {
		f = math.Float64frombits(g.r.Uint64())
		if math.IsNaN(f) || math.IsInf(f, 0) {
			f = 2.5
		}
	}
	return J{"t": "numeric", "f": fmt.Sprintf("%016x", math.Float64bits(f))}
}

func (a *astGen) node(d int, inFilter, inSub, asAccessor bool) any {
	g := a.g
	var n J
	c := g.r.Intn(20)
	if d <= 0 && c >= 10 {
		c = g.r.Intn(10)
	}
	switch c {
	case 0, 1:
		ks := []string{"root", "anyArray", "anyKey", "true", "false", "null"}
		if inFilter {
			ks = append(ks, "current", "current")
		}
		if inSub {
			ks = append(ks, "last")
		}
		n = J{"t": "const", "k": ks[g.r.Intn(len(ks))]}
	case 2:
		n = J{"t": "method", "m": methodNames[ast.MethodName(g.r.Intn(12))]}
	case 3:
		n = J{"t": "str", "s": a.str()}
	case 4:
		n = J{"t": "var", "s": a.str()}
	case 5, 6:
		n = J{"t": "key", "s": a.str()}
	case 7, 8:
		n = a.number().(J)
	case 9:
		lv := []int64{0, 1, 2, 10, 4294967294, 4294967295}
		n = J{"t": "any", "first": lv[g.r.Intn(len(lv))], "last": lv[g.r.Intn(len(lv))]}
	case 10, 11, 12, 13:
		n = J{"t": "binary", "op": binOpsArith[g.r.Intn(len(binOpsArith))], "l": a.opt(d, inFilter, inSub), "r": a.opt(d, inFilter, inSub)}
	case 14:
		var l, r any
		if g.chance(0.7) {
			l = a.number()
			if g.chance(0.5) {
				r = a.number()
			}
		} else if g.chance(0.5) {
			l = a.node(d-1, inFilter, inSub, false)
			r = a.opt(d, inFilter, inSub)
		}
		n = J{"t": "binary", "op": "decimal", "l": l, "r": r}
	case 15:
		n = J{"t": "unary", "op": unOpsPlain[g.r.Intn(len(unOpsPlain))], "x": a.opt(d, inFilter, inSub)}
	case 16:
		n = J{"t": "unary", "op": "filter", "x": a.opt(d, true, inSub)}
	case 17:
		var x any
		switch g.r.Intn(4) {
		case 0:
			x = J{"t": "str", "s": a.str(), "next": nil}
		case 1:
			x = a.number()
			x.(J)["next"] = nil
		case 2:
			x = a.node(d-1, inFilter, inSub, false)
		}
		n = J{"t": "unary", "op": dtOps[g.r.Intn(len(dtOps))], "x": x}
	case 18:
		pat := regexPatterns[g.r.Intn(len(regexPatterns))]
		bitsets := []int{0, 1, 2, 4, 16, 3, 7, 17, 24, 26, 31, 22}
		bits := bitsets[g.r.Intn(len(bitsets))]
		if !regexAccepted(pat, bits) {
			pat = "a+"
		}
		a.cs.addString(pat)
		n = J{"t": "regex", "x": a.node(d-1, inFilter, inSub, false), "pattern": pat, "flags": bits}
	default:
		k := g.r.Intn(3)
		subs := make([]any, k)
		for i := range subs {
			if g.chance(0.8) {
				var r any
				if g.chance(0.4) {
					r = a.node(d-1, inFilter, true, false)
				}
				subs[i] = J{"t": "binary", "op": "subscript", "l": a.node(d-1, inFilter, true, false), "r": r, "next": nil}
			} else {
				subs[i] = a.node(d-1, inFilter, true, false)
			}
		}
		n = J{"t": "arrayIndex", "subs": subs}
	}
	if _, ok := n["next"]; !ok {
		n["next"] = a.next(d, inFilter, inSub)
	}
	return n
}

func (g *pathGen) emitPrint(cw *caseWriter) {
	a := &astGen{g: g, cs: charSet{}}
	root := a.node(3, false, false, false)
	w := J{"root": root, "lax": g.chance(0.7), "pred": g.chance(0.3)}
	cw.printCase("print", w, a.cs)
}

// ---------------------------------------------------------------------------
// Exhaustive small scope
// ---------------------------------------------------------------------------

var alphabetFull = []string{
	"$", "@", "last", "1", "9223372036854775808", "1.5", `"s"`, "$v", "a", "true", "null",
	"(", ")", "[", "]", ",", ".", "*", "**", "{", "}", "?", "+", "-", "/", "==", "<", "&&", "||", "!",
	"to", "is", "unknown", "exists", "starts", "with", "like_regex", "flag", "abs", "decimal", "datetime", "time", "date", "strict", "lax",
	"\x00", "#", `"("`, `"x"`, "\ue00c",
}

var alphabetCore = []string{
	"$", "@", "1", "9223372036854775808", `"s"`, "a", "(", ")", "[", "]", ",", ".", "?", "-", "==", "&&", "||", "!",
	"to", "is", "unknown", "exists", "like_regex", "\x00",
}

var prefixes = []string{
	"", "$", "$ .", "$ [", "$ [ 1", "$ ? (", "$ ? ( @", "$ ? ( @ == 1", "(", "( $", "( $ == 1", "( $ == 1 )", "$ ==", "$ == 1", "-", "- 1", "1 +", "1 + 2", "1 * 2",
	"$ . decimal (", "$ . decimal ( 1", "$ . ** {", "$ . ** { 1", "! (", "! ( $ == 1", "exists (", "exists ( $", "$ like_regex", `$ like_regex "("`, `$ like_regex "a" flag`,
	"$ == 1 &&", "$ == 1 ||", "$ == 1 || $ == 2", "$ . time (", "$ . datetime (", "$ . abs", "$ . abs (", "strict", "$ starts", "$ starts with", "- (", "- ( $ == 1 )", "$ . decimal ( 1 , 2 , 3 )",
}

// Prefixes that leave the parser in each state of the automaton that examines the look-ahead
// (state numbers of goyacc -v in the comments), to be wrapped in the contexts below.
var statePrefixes = []string{
	"",                                                                       // 0
	"strict",                                                                 // 2
	"$", "( $ )", "1 + 2", "1 * 2", "- 1", "- - 1", "1 + 2 * 3", "1 * 2 + 3", // 8, 6, 59, 50/52
	"$ == 1", "exists ( $ )", "! ( $ == 1 )", `$ starts with "a"`, `$ like_regex "a" flag "i"`, `$ like_regex "a"`, "( $ == 1 ) is unknown", // 56, 7, 58
	"$ . a", "$ [ 1 ]", "$ . abs ( )", "$ ? ( @ == 1 )", "$ . *", "$ . **", "$ . ** { 1 }", "$ . decimal ( )", "$ . decimal ( 1 , 2 )", "$ . date ( )", "$ . time ( 1 )", "( $ ) . a", "( $ == 1 ) . a", // 8
	"(", "+", "-", "!", "exists", "$ ==", "$ starts", "$ like_regex", "1 +", "1 -", "1 *", "$ == 1 &&", "$ == 1 ||", // 9 10 11 13 15 27 28 29 30 31 32 41 42
	"$ .", "$ ?", "$ [", "( $ == 1", "( $", "- (", "! (", "exists (", "$ starts with", // 44 46 47 48 49 51 54 55 57
	"1 - 2", "$ == 1 && $", "! ( $", "$ ? ( @", "$ == 1 || $ == 2", "$ == 1 && $ == 2", "$ == 1 || $ == 2 && $ == 3", // 60 65 66 64
	"$ . abs", "$ . decimal", "$ . date", "$ . datetime", "$ . time", "$ . time_tz", "$ . a . size", // 80.. 71 72 73 74 75
	"$ ? (", "$ [ *", "$ [ 1", "( $ == 1 )", "- ( $ == 1", "- ( $ == 1 )", "! ( $ == 1", "exists ( $", // 108 109 112 113 115 139 116 117
	`$ like_regex "a" flag`, "$ . abs (", "$ . decimal (", "$ . date (", "$ . datetime (", "$ . time (", "$ . ** {", "$ ? ( @ == 1", // 121 122 123 124 125 126 130 131
	"$ [ 1 ,", "$ [ 1 to", "( $ == 1 ) is", "$ . decimal ( 1", "$ . decimal ( +", "$ . decimal ( -", `$ . datetime ( "a"`, "$ . time ( 1", // 133 135 136 145 148 149 151 154
	"$ . ** { 1", "$ [ 1 to 2", "$ . decimal ( 1 ,", "$ . decimal ( 1 , 2", "$ . ** { 1 to", "$ . ** { 1 to 2", "$ . ** { last", // 160 165 168 177 179
	"$ . decimal ( 1 , 2 , 3 )", `( $ like_regex "(" )`, `( $ like_regex "(" flag "i" )`, `$ ? ( @ like_regex "(" )`, // poisoned values
}

var contextWrappers = []string{"", "( ", "$ [ ", "$ ? ( ", "- ", "1 + ", "1 * ", "$ == ", "$ == 1 && ", "$ == 1 || ", "! ( ", "exists ( ", "- ( ", "$ [ 1 to ", "$ [ 0 , "}

const bigInt = "9223372036854775808"

// continuation + a token whose reduction panics
var panicCombos = []string{
	bigInt, "+ " + bigInt, "* " + bigInt, "== " + bigInt, "&& " + bigInt, "|| " + bigInt, ") + " + bigInt, "] + " + bigInt, ", " + bigInt,
	"to " + bigInt, ". decimal ( " + bigInt, `. "a" + ` + bigInt, "[ " + bigInt, "? ( " + bigInt, "is unknown && " + bigInt, `flag "i" && ` + bigInt,
	"( " + bigInt, "} + " + bigInt, `"a" + ` + bigInt, "unknown && " + bigInt, `with "a" && ` + bigInt, ") ) + " + bigInt, ") . decimal ( " + bigInt, "{ 1 } + " + bigInt,
	"- - 1", "( ) + " + bigInt, "1 ) + " + bigInt, "1 , " + bigInt, "$ + " + bigInt,
}

// genPhantom: for every automaton state and context, k lexing errors (each of which the parser
// sees as a one-shot end of input) followed by input whose actions panic if it is still parsed.
func genPhantom(cw *caseWriter) {
	for _, w := range contextWrappers {
		for _, p := range statePrefixes {
			for k := 0; k <= 3; k++ {
				for _, c := range panicCombos {
					s := w + p + strings.Repeat(" \x00", k) + " " + c
					cw.parseCase(fmt.Sprintf("exh-phantom-%d", k), []byte(s))
				}
			}
		}
	}
}

var privateContexts = []string{
	"%s", "$ %s", "$ . %s", "$ %s 1", "$ . %s ( )", "$ . %s ( 1 )", "$ [ 1 %s 2 ]", "$ ? ( @ %s 1 )", "( $ == 1 ) %s", "( $ == 1 ) %s %s", "$ . ** { %s }", "$ . ** { 1 %s 2 }",
	"$ . decimal ( %s )", "$ like_regex %s", "$ starts with %s", "$ starts %s \"a\"", "%s $", "$ . a %s ( $ )", "$ == 1 %s $ == 2", "%s ( $ == 1 )", "%s ( $ )", "$ %s \"a\"", "$ like_regex \"a\" %s \"i\"", "- %s", "$ [ %s ]",
}

// genPrivate: the runes the generated parser translates through pathTok2 (U+E000 … U+E032) and
// their neighbours, in every kind of position.
func genPrivate(cw *caseWriter) {
	for r := rune(0xdfff + 1); r <= 0xe034; r++ {
		for _, c := range privateContexts {
			cw.parseCase("exh-private", []byte(strings.ReplaceAll(c, "%s", string(r))))
		}
	}
	for _, r := range []rune{'~', 0x7f, 0x7d, 0x7e, 0x80, 0xff, 0xd7ff, 0xf8ff, 0xffff, 0x10000} {
		for _, c := range privateContexts {
			cw.parseCase("exh-private", []byte(strings.ReplaceAll(c, "%s", string(r))))
		}
	}
}

func enumerate(alpha []string, n int, f func(seq []string)) {
	seq := make([]string, n)
	var rec func(i int)
	rec = func(i int) {
		if i == n {
			f(seq)
			return
		}
		for _, a := range alpha {
			seq[i] = a
			rec(i + 1)
		}
	}
	rec(0)
}

func genExhaustive(cw *caseWriter) {
	emit := func(gen, prefix string, seq []string) {
		s := strings.Join(seq, " ")
		if prefix != "" {
			s = prefix + " " + s
		}
		cw.parseCase(gen, []byte(s))
	}
	for n := 0; n <= 3; n++ {
		enumerate(alphabetFull, n, func(seq []string) { emit(fmt.Sprintf("exh-full-%d", n), "", seq) })
	}
	for _, p := range prefixes[1:] {
		for n := 1; n <= 2; n++ {
			enumerate(alphabetFull, n, func(seq []string) { emit(fmt.Sprintf("exh-prefix-full-%d", n), p, seq) })
		}
	}
	enumerate(alphabetCore, 4, func(seq []string) { emit("exh-core-4", "", seq) })
	for _, p := range prefixes[1:] {
		enumerate(alphabetCore, 3, func(seq []string) { emit("exh-prefix-core-3", p, seq) })
	}
}

// emitFixed writes the cases every run starts with, whatever the seed: tokens long enough to push an
// error message past 4 KiB, and look-alike escape texts in every position that holds a string.
func (g *pathGen) emitFixed(cw *caseWriter) {
	for _, n := range []int{5000} {
		for _, t := range []string{
			"$.a == " + strings.Repeat("9", n), "$.a == 1." + strings.Repeat("1", n), "$.a == 1e" + strings.Repeat("9", n),
			"$ ? (@ like_regex \"" + strings.Repeat("(", n) + "\")", "$.\"" + strings.Repeat("k", n) + "\"", "$.a == 0x" + strings.Repeat("f", n),
			"$." + strings.Repeat("k", n) + " == \"" + strings.Repeat("é", n) + "\"", "$[" + strings.Repeat("9", n) + "]", "$.**{" + strings.Repeat("9", n) + "}",
			"$ ? (@ == \"" + strings.Repeat("a", n), "$.a.decimal(" + strings.Repeat("9", n) + ")", "$ ? (@ like_regex \"a\" flag \"" + strings.Repeat("x", n) + "\")",
		} {
			cw.parseCase("long", []byte(t))
		}
	}
	for _, l := range lookalikes {
		q := g.quoted([]rune(l))
		for _, t := range []string{"$.%s", "$ ? (@ == %s)", "$%s", "$ ? (@ like_regex %s flag \"q\")", "$.datetime(%s)", "$ ? (@ starts with %s)", "$.a.%s[0].%s"} {
			src := []byte(strings.ReplaceAll(t, "%s", q))
			cw.parseCase("lookalike", src)
			if _, p := goParse(string(src)); p != nil {
				cw.parseCase("reparse", []byte(p.String()))
			}
		}
	}
}
