package main

// Correspondence stream for lexer + parser + printer.
//
//	sqv gen-parse -seed N -n COUNT -out FILE       random cases (valid / reparse / malformed / print)
//	sqv gen-parse -exhaustive -out FILE            small-scope enumeration of token sequences
//	sqv run-parse -in FILE -out FILE               run the cases against the real package
//
// Case lines:
//
//	{"id":…,"gen":…,"op":"parse","bytes":[…],"oracles":{…}}
//	{"id":…,"gen":…,"op":"print","ast":{…},"oracles":{…}}
//
// Result lines:
//
//	{"id":…,"out":"ok","ast":{…},"str":"…"} | {"id":…,"out":"err"} | {"id":…,"out":"panic"}
//	{"id":…,"str":"…"} | {"id":…,"panic":true}
//
// Oracles (facts about Go's standard library and dependencies the Lean model takes as
// parameters), per case, listing only what can matter for that case:
//
//	{"xidStart":[cp…],"xidContinue":[cp…],"isPrint":[cp…],"lower":[[cp,lowercp]…],
//	 "regex":[[pattern,flagBits,accepted]…]}

import (
	"bufio"
	"encoding/json"
	"errors"
	"flag"
	"fmt"
	"math"
	"math/rand"
	"os"
	"regexp/syntax"
	"sort"
	"strconv"
	"strings"
	"unicode"
	"unicode/utf8"

	"github.com/smasher164/xid"
	"github.com/theory/sqljson/path"
	"github.com/theory/sqljson/path/ast"
	"github.com/theory/sqljson/path/parser"
)

func init() {
	register("gen-parse", "generate lexer/parser/printer cases", genParseCmd)
	register("run-parse", "run lexer/parser/printer cases against the Go package", runParseCmd)
}

// ---------------------------------------------------------------------------
// Oracles
// ---------------------------------------------------------------------------

const badRune = rune(-2) // an undecodable byte

// decodePermissive decodes b the way (*lexer).next does, one entry per call of next.
func decodePermissive(b []byte) []rune {
	out := make([]rune, 0, len(b))
	for len(b) > 0 {
		r, w := utf8.DecodeRune(b)
		if r == utf8.RuneError && w == 1 {
			out = append(out, badRune)
		} else {
			out = append(out, r)
		}
		b = b[w:]
	}
	return out
}

func hexVal(r rune) int {
	switch {
	case '0' <= r && r <= '9':
		return int(r - '0')
	case 'a' <= r && r <= 'f':
		return int(r-'a') + 10
	case 'A' <= r && r <= 'F':
		return int(r-'A') + 10
	}
	return -1
}

// unicodeEscapeAt decodes the code unit of a \u escape whose 'u' is at rs[i];
// returns the unit and the index after the escape, or ok=false.
func unicodeEscapeAt(rs []rune, i int) (rune, int, bool) {
	i++ // past 'u'
	if i < len(rs) && rs[i] == '{' {
		i++
		v := rune(0)
		n := 0
		for i < len(rs) && rs[i] != '}' && n < 6 {
			h := hexVal(rs[i])
			if h < 0 {
				return 0, 0, false
			}
			v = v<<4 | rune(h)
			i++
			n++
		}
		if i >= len(rs) || rs[i] != '}' {
			return 0, 0, false
		}
		return v, i + 1, v != 0
	}
	if i+4 > len(rs) {
		return 0, 0, false
	}
	v := rune(0)
	for k := 0; k < 4; k++ {
		h := hexVal(rs[i+k])
		if h < 0 {
			return 0, 0, false
		}
		v = v<<4 | rune(h)
	}
	return v, i + 4, v != 0
}

// escapeAt decodes the escape whose backslash is at rs[i] as scanEscape does.
// Returns the rune written to the buffer, the index after the escape, ok.
func escapeAt(rs []rune, i int) (rune, int, bool) {
	i++
	if i >= len(rs) || rs[i] <= 0 {
		return 0, 0, false
	}
	switch rs[i] {
	case 'b':
		return '\b', i + 1, true
	case 'f':
		return '\f', i + 1, true
	case 'n':
		return '\n', i + 1, true
	case 'r':
		return '\r', i + 1, true
	case 't':
		return '\t', i + 1, true
	case 'v':
		return '\v', i + 1, true
	case 'x':
		if i+2 >= len(rs) {
			return 0, 0, false
		}
		a, b := hexVal(rs[i+1]), hexVal(rs[i+2])
		if a < 0 || b < 0 || a<<4|b == 0 {
			return 0, 0, false
		}
		return rune(a<<4 | b), i + 3, true
	case 'u':
		u, j, ok := unicodeEscapeAt(rs, i)
		if !ok {
			return 0, 0, false
		}
		if 0xD800 <= u && u < 0xE000 {
			if j+1 < len(rs) && rs[j] == '\\' && rs[j+1] == 'u' {
				u2, j2, ok2 := unicodeEscapeAt(rs, j+1)
				if ok2 && 0xD800 <= u && u < 0xDC00 && 0xDC00 <= u2 && u2 < 0xE000 {
					return (u-0xD800)<<10 | (u2 - 0xDC00) + 0x10000, j2, true
				}
			}
			return 0, 0, false
		}
		if !utf8.ValidRune(u) {
			u = utf8.RuneError
		}
		return u, j, true
	default:
		return rs[i], i + 1, true
	}
}

// stringAt decodes the string literal whose opening quote is at rs[i] as scanString does.
func stringAt(rs []rune, i int) (string, bool) {
	var buf []rune
	i++
	for {
		if i >= len(rs) || rs[i] <= 0 || rs[i] == '\n' {
			return "", false
		}
		switch rs[i] {
		case '"':
			return string(buf), true
		case '\\':
			r, j, ok := escapeAt(rs, i)
			if !ok {
				return "", false
			}
			buf = append(buf, r)
			i = j
		default:
			buf = append(buf, rs[i])
			i++
		}
	}
}

var flagLetters = []struct {
	c   rune
	bit int
}{{'i', 1}, {'s', 2}, {'m', 4}, {'x', 8}, {'q', 16}}

func flagBits(s string) (int, bool) {
	bits := 0
	for _, c := range s {
		found := false
		for _, f := range flagLetters {
			if f.c == c {
				bits |= f.bit
				found = true
			}
		}
		if !found {
			return 0, false
		}
	}
	if bits&16 == 0 && bits&8 != 0 {
		return 0, false
	}
	return bits, true
}

func flagString(bits int) string {
	s := ""
	for _, f := range flagLetters {
		if bits&f.bit != 0 {
			s += string(f.c)
		}
	}
	return s
}

// regexAccepted: does regexp/syntax accept the pattern under the documented translation of the
// flags (i -> FoldCase; q -> Literal, the other flags ignored; x without q is unimplemented;
// m -> not OneLine; s -> DotNL)? Computed here, not through ast.NewRegex: the library's own
// validation is part of what C04 checks ("every accepted like_regex compiles at execution time").
func regexAccepted(pattern string, bits int) bool {
	fl := syntax.OneLine | syntax.ClassNL | syntax.PerlX
	if bits&1 != 0 {
		fl |= syntax.FoldCase
	}
	if bits&16 != 0 {
		fl |= syntax.Literal
	} else {
		if bits&8 != 0 {
			return false
		}
		if bits&4 != 0 {
			fl &^= syntax.OneLine
		}
		if bits&2 != 0 {
			fl |= syntax.DotNL
		}
	}
	_, err := syntax.Parse(pattern, fl)
	return err == nil
}

type charSet map[rune]bool

func (cs charSet) addString(s string) {
	for _, r := range s {
		cs[r] = true
	}
}

func sortedRunes(m map[rune]bool) []rune {
	out := make([]rune, 0, len(m))
	for r := range m {
		out = append(out, r)
	}
	sort.Slice(out, func(i, j int) bool { return out[i] < out[j] })
	return out
}

// charOracles lists the per-character facts for every rune in cs.
func charOracles(cs charSet, regex []any) J {
	xs, xc, pr := []int{}, []int{}, []int{}
	lo := [][2]int{}
	startSet := map[rune]bool{}
	for r := range cs {
		startSet[r] = true
		startSet[r|0x20] = true // scanNumber tests isIdentRune(lower(ch), 0)
	}
	for _, r := range sortedRunes(startSet) {
		if xid.Start(r) {
			xs = append(xs, int(r))
		}
	}
	for _, r := range sortedRunes(cs) {
		if xid.Continue(r) {
			xc = append(xc, int(r))
		}
		if strconv.IsPrint(r) {
			pr = append(pr, int(r))
		}
		if l := unicode.ToLower(r); l != r {
			lo = append(lo, [2]int{int(r), int(l)})
		}
	}
	if regex == nil {
		regex = []any{}
	}
	return J{"xidStart": xs, "xidContinue": xc, "isPrint": pr, "lower": lo, "regex": regex}
}

// oraclesForInput computes a superset of the facts the lexer, parser and printer can need
// for the source text b.
func oraclesForInput(b []byte) J {
	rs := decodePermissive(b)
	cs := charSet{}
	var cands []string
	seen := map[string]bool{}
	addCand := func(s string) {
		if !seen[s] && len(cands) < 1000 {
			seen[s] = true
			cands = append(cands, s)
		}
	}
	for i, r := range rs {
		if r > 0 {
			cs[r] = true
		}
		switch {
		case r == '\\':
			if out, _, ok := escapeAt(rs, i); ok && out > 0 {
				cs[out] = true
			}
			cs[utf8.RuneError] = true
			for _, c := range "\b\f\n\r\t\v" {
				cs[c] = true
			}
		case r == '"':
			if s, ok := stringAt(rs, i); ok {
				addCand(s)
			}
		case 0xE002 <= r && r <= 0xE031:
			// the generated parser takes these runes for named tokens (STRING_P among them)
			addCand(string(r))
		}
	}
	flagSets := []int{0}
	seenF := map[int]bool{0: true}
	for _, s := range cands {
		if bits, ok := flagBits(s); ok && !seenF[bits] {
			seenF[bits] = true
			flagSets = append(flagSets, bits)
		}
	}
	regex := []any{}
	for _, p := range cands {
		for _, f := range flagSets {
			regex = append(regex, []any{p, f, regexAccepted(p, f)})
		}
	}
	return charOracles(cs, regex)
}

// ---------------------------------------------------------------------------
// Running cases
// ---------------------------------------------------------------------------

func bytesToInts(b []byte) []int {
	out := make([]int, len(b))
	for i, c := range b {
		out[i] = int(c)
	}
	return out
}

func intsToBytes(v any) []byte {
	arr, _ := v.([]any)
	out := make([]byte, len(arr))
	for i, x := range arr {
		f, _ := x.(float64)
		out[i] = byte(f)
	}
	return out
}

// goParse runs the real parser; panics are reported, not propagated.
func goParse(src string) (res J, p *path.Path) {
	defer func() {
		if r := recover(); r != nil {
			res, p = J{"out": "panic"}, nil
		}
	}()
	pp, err := path.Parse(src)
	if g := parseGlue(src, pp, err); g != "" {
		// the wrappers around the modelled core (C02, C04): any deviation shows up as a disagreement
		return J{"out": "glue", "what": g}, nil
	}
	if err != nil {
		return J{"out": "err"}, nil
	}
	var rx []*ast.RegexNode
	regexNodes(pp.AST.Root(), &rx)
	for _, n := range rx {
		if !regexCompiles(n) {
			// C04: an accepted like_regex compiles when it is executed
			return J{"out": "glue", "what": "an accepted like_regex does not compile at execution time"}, nil
		}
	}
	return J{"out": "ok", "ast": encAST(pp.AST), "str": pp.String()}, pp
}

const glueEarlier = `strict $."earlier"[0]`

// parseGlue checks what C02/C04 say about the functions wrapped around parser.Parse and
// AST.String, which the Lean model does not contain: error wrapping, MustParse, Scan,
// Marshal/Unmarshal Text/Binary, Value, IsPredicate/PgIndexOperator. "" = all as stated.
func parseGlue(src string, pp *path.Path, err error) (what string) {
	defer func() {
		if r := recover(); r != nil {
			what = fmt.Sprint("panic in a wrapper: ", r)
		}
	}()
	mustPanics := func() (p *path.Path, panicked bool) {
		defer func() {
			if recover() != nil {
				panicked = true
			}
		}()
		return path.MustParse(src), false
	}
	mp, panicked := mustPanics()
	var viaText, viaBin, viaScanS, viaScanB path.Path
	eText, eBin := viaText.UnmarshalText([]byte(src)), viaBin.UnmarshalBinary([]byte(src))
	eScanS, eScanB := viaScanS.Scan(src), viaScanB.Scan([]byte(src))
	if err != nil {
		switch {
		case pp != nil:
			return "Parse returned a path and an error"
		case !errors.Is(err, path.ErrPath) || !errors.Is(err, parser.ErrParse):
			return "Parse error does not wrap ErrPath and ErrParse"
		case !panicked:
			return "MustParse did not panic on a parse error"
		case eText == nil || !errors.Is(eText, path.ErrScan) || !errors.Is(eText, parser.ErrParse):
			return "UnmarshalText does not report the parse failure wrapped in ErrScan"
		case eBin == nil || !errors.Is(eBin, path.ErrScan) || !errors.Is(eBin, parser.ErrParse):
			return "UnmarshalBinary does not report the parse failure wrapped in ErrScan"
		}
		if src != "" {
			if eScanS == nil || !errors.Is(eScanS, path.ErrScan) || eScanB == nil || !errors.Is(eScanB, path.ErrScan) {
				return "Scan does not report the parse failure wrapped in ErrScan"
			}
		}
		return ""
	}
	if pp == nil || pp.AST == nil {
		return "Parse returned neither a path nor an error"
	}
	str := pp.String()
	switch {
	case panicked || mp == nil || mp.String() != str:
		return "MustParse differs from Parse"
	case eText != nil || viaText.String() != str:
		return "UnmarshalText differs from Parse"
	case eBin != nil || viaBin.String() != str:
		return "UnmarshalBinary differs from Parse"
	case eScanS != nil || viaScanS.String() != str || eScanB != nil || viaScanB.String() != str:
		return "Scan differs from Parse"
	}
	if b, e := pp.MarshalText(); e != nil || string(b) != str {
		return "MarshalText differs from String"
	}
	if b, e := pp.MarshalBinary(); e != nil || string(b) != str {
		return "MarshalBinary differs from String"
	}
	if v, e := pp.Value(); e != nil || v != any(str) {
		return "Value differs from String"
	}
	// reading into a variable that already holds a path must not change copies made earlier
	{
		var dst path.Path
		if dst.Scan(glueEarlier) == nil {
			kept := dst // by-value copy, as `out = append(out, p)` in a rows.Next() loop
			before := kept.String()
			_ = dst.Scan(src)
			if kept.String() != before || kept.IsPredicate() {
				return "a by-value copy of a Path changed when its source variable was scanned again"
			}
			kept2 := dst
			before2 := kept2.String()
			_ = dst.UnmarshalText([]byte(glueEarlier))
			if kept2.String() != before2 {
				return "a by-value copy of a Path changed when its source variable was unmarshalled again"
			}
		}
	}
	// a variable that already holds a path takes over exactly what is scanned into it, also when
	// the new text differs from the old one only in letter case
	{
		var dst path.Path
		if dst.Scan(src) == nil {
			swapped := strings.Map(func(r rune) rune {
				switch {
				case 'a' <= r && r <= 'z':
					return r - 32
				case 'A' <= r && r <= 'Z':
					return r + 32
				}
				return r
			}, src)
			want, werr := path.Parse(swapped)
			serr := dst.Scan(swapped)
			if (werr == nil) != (serr == nil) || (werr == nil && dst.String() != want.String()) {
				return "Scan into a variable that holds a path differs from Parse (case variant of the held text)"
			}
			var viaT path.Path
			_ = viaT.UnmarshalText([]byte(src))
			terr := viaT.UnmarshalText([]byte(swapped))
			if (werr == nil) != (terr == nil) || (werr == nil && viaT.String() != want.String()) {
				return "UnmarshalText into a variable that holds a path differs from Parse (case variant of the held text)"
			}
		}
	}
	if pp.IsPredicate() != pp.AST.IsPredicate() {
		return "IsPredicate differs from the AST's flag"
	}
	if want := map[bool]string{true: "@@", false: "@?"}[pp.IsPredicate()]; pp.PgIndexOperator() != want {
		return "PgIndexOperator does not follow IsPredicate"
	}
	return ""
}

// decNode rebuilds a Go node from the wire form using the exported constructors.
func decNode(w any) (ast.Node, error) {
	if w == nil {
		return nil, nil
	}
	m, ok := w.(map[string]any)
	if !ok {
		return nil, fmt.Errorf("bad node %v", w)
	}
	str := func(k string) string { s, _ := m[k].(string); return s }
	var n ast.Node
	switch str("t") {
	case "const":
		found := false
		for k, name := range constNames {
			if name == str("k") {
				n, found = ast.NewConst(k), true
			}
		}
		if !found {
			return nil, fmt.Errorf("bad const")
		}
	case "method":
		found := false
		for k, name := range methodNames {
			if name == str("m") {
				n, found = ast.NewMethod(k), true
			}
		}
		if !found {
			return nil, fmt.Errorf("bad method")
		}
	case "str":
		n = ast.NewString(str("s"))
	case "var":
		n = ast.NewVariable(str("s"))
	case "key":
		n = ast.NewKey(str("s"))
	case "numeric":
		bits, err := strconv.ParseUint(str("f"), 16, 64)
		if err != nil {
			return nil, err
		}
		n = ast.NewNumeric(strconv.FormatFloat(math.Float64frombits(bits), 'g', -1, 64))
	case "integer":
		n = ast.NewInteger(str("i"))
	case "any":
		f, _ := m["first"].(float64)
		l, _ := m["last"].(float64)
		n = ast.NewAny(int(f), int(l))
	case "binary":
		l, err := decNode(m["l"])
		if err != nil {
			return nil, err
		}
		r, err := decNode(m["r"])
		if err != nil {
			return nil, err
		}
		found := false
		for k, name := range binNames {
			if name == str("op") {
				n, found = ast.NewBinary(k, l, r), true
			}
		}
		if !found {
			return nil, fmt.Errorf("bad binop")
		}
	case "unary":
		x, err := decNode(m["x"])
		if err != nil {
			return nil, err
		}
		found := false
		for k, name := range unNames {
			if name == str("op") {
				n, found = ast.NewUnary(k, x), true
			}
		}
		if !found {
			return nil, fmt.Errorf("bad unop")
		}
	case "regex":
		x, err := decNode(m["x"])
		if err != nil {
			return nil, err
		}
		f, _ := m["flags"].(float64)
		rn, err := ast.NewRegex(x, str("pattern"), flagString(int(f)))
		if err != nil {
			return nil, err
		}
		n = rn
	case "arrayIndex":
		arr, _ := m["subs"].([]any)
		subs := make([]ast.Node, len(arr))
		for i, s := range arr {
			sn, err := decNode(s)
			if err != nil {
				return nil, err
			}
			subs[i] = sn
		}
		n = ast.NewArrayIndex(subs)
	default:
		return nil, fmt.Errorf("bad tag %q", str("t"))
	}
	nx, err := decNode(m["next"])
	if err != nil {
		return nil, err
	}
	if nx != nil {
		// n is fresh (no next): LinkNodes sets n.next = nx and keeps nx's own chain.
		ast.LinkNodes([]ast.Node{n, nx})
	}
	return n, nil
}

func goPrint(w any) (res J) {
	defer func() {
		if r := recover(); r != nil {
			res = J{"panic": true}
		}
	}()
	m, _ := w.(map[string]any)
	root, err := decNode(m["root"])
	if err != nil {
		return J{"error": err.Error()}
	}
	lax, _ := m["lax"].(bool)
	pred, _ := m["pred"].(bool)
	a, err := ast.New(lax, pred, root)
	if err != nil {
		return J{"error": err.Error()}
	}
	return J{"str": a.String()}
}

func runParseCmd(args []string) int {
	fs := flag.NewFlagSet("run-parse", flag.ExitOnError)
	in := fs.String("in", "", "case file")
	out := fs.String("out", "", "result file")
	_ = fs.Parse(args)
	fi, err := os.Open(*in)
	if err != nil {
		fmt.Fprintln(os.Stderr, err)
		return 1
	}
	defer fi.Close()
	fo, err := os.Create(*out)
	if err != nil {
		fmt.Fprintln(os.Stderr, err)
		return 1
	}
	defer fo.Close()
	w := bufio.NewWriterSize(fo, 1<<20)
	defer w.Flush()
	sc := bufio.NewScanner(fi)
	sc.Buffer(make([]byte, 1<<20), 1<<26)
	for sc.Scan() {
		var c map[string]any
		if err := json.Unmarshal(sc.Bytes(), &c); err != nil {
			fmt.Fprintln(os.Stderr, "bad case:", err)
			return 1
		}
		var res J
		switch c["op"] {
		case "parse":
			res, _ = goParse(string(intsToBytes(c["bytes"])))
		case "print":
			res = goPrint(c["ast"])
		default:
			res = J{"error": "unknown op"}
		}
		res["id"] = c["id"]
		w.Write(marshal(res))
		w.WriteByte('\n')
	}
	return 0
}

// ---------------------------------------------------------------------------
// Case emission
// ---------------------------------------------------------------------------

type caseWriter struct {
	w  *bufio.Writer
	id int
}

func (cw *caseWriter) parseCase(gen string, b []byte) {
	cw.id++
	cw.w.Write(marshal(J{"id": cw.id, "gen": gen, "op": "parse", "bytes": bytesToInts(b), "oracles": oraclesForInput(b)}))
	cw.w.WriteByte('\n')
}

func (cw *caseWriter) printCase(gen string, astW any, cs charSet) {
	cw.id++
	cw.w.Write(marshal(J{"id": cw.id, "gen": gen, "op": "print", "ast": astW, "oracles": charOracles(cs, nil)}))
	cw.w.WriteByte('\n')
}

func genParseCmd(args []string) int {
	fs := flag.NewFlagSet("gen-parse", flag.ExitOnError)
	seed := fs.Int64("seed", 1, "PRNG seed")
	n := fs.Int("n", 1000, "number of random cases")
	out := fs.String("out", "", "output file")
	exhaustive := fs.Bool("exhaustive", false, "emit the small-scope enumeration instead of random cases")
	idBase := fs.Int("idbase", 0, "first id - 1")
	part := fs.String("part", "all", "with -exhaustive: all | phantom | tokens")
	_ = fs.Parse(args)
	fo, err := os.Create(*out)
	if err != nil {
		fmt.Fprintln(os.Stderr, err)
		return 1
	}
	defer fo.Close()
	w := bufio.NewWriterSize(fo, 1<<20)
	defer w.Flush()
	cw := &caseWriter{w: w, id: *idBase}
	if *exhaustive {
		if *part == "all" || *part == "phantom" {
			genPhantom(cw)
			genPrivate(cw)
		}
		if *part == "all" || *part == "tokens" {
			genExhaustive(cw)
		}
		return 0
	}
	g := newPathGen(rand.New(rand.NewSource(*seed)))
	g.emitFixed(cw)
	for cw.id-*idBase < *n {
		g.emitRandom(cw)
	}
	return 0
}

// lit-parse: one parse case per input line; a line is a Go string literal
// (quoted or back-quoted) or, failing that, taken verbatim.
func init() {
	register("lit-parse", "make parse cases from the lines of stdin (Go string literals)", func(args []string) int {
		fs := flag.NewFlagSet("lit-parse", flag.ExitOnError)
		out := fs.String("out", "", "output file")
		_ = fs.Parse(args)
		fo, err := os.Create(*out)
		if err != nil {
			fmt.Fprintln(os.Stderr, err)
			return 1
		}
		defer fo.Close()
		w := bufio.NewWriter(fo)
		defer w.Flush()
		cw := &caseWriter{w: w}
		sc := bufio.NewScanner(os.Stdin)
		sc.Buffer(make([]byte, 1<<20), 1<<26)
		for sc.Scan() {
			line := sc.Text()
			s, err := strconv.Unquote(line)
			if err != nil {
				s = line
			}
			cw.parseCase("lit", []byte(s))
		}
		return 0
	})
}
