package main

// Go-side oracles of the executor properties: each property written as a
// predicate over results of the real API, evaluated on generated inputs (and on
// the cases handed over by bin/check). They only search for / replay failing
// inputs; they never decide a property.

import (
	"context"
	"encoding/json"
	"errors"
	"fmt"
	"math"
	"math/rand"
	"reflect"
	"regexp"
	"strconv"
	"strings"

	"github.com/theory/sqljson/path"
	"github.com/theory/sqljson/path/exec"
	"github.com/theory/sqljson/path/types"
)

// call is the outcome of one API call.
type call struct {
	items  []any
	first  any
	b      bool
	err    error
	class  string // "", "NULL", verbose, hard, cancelled, invalid, other
	panic_ any
}

type inputs struct {
	text   string
	p      *path.Path
	doc    any
	vars   map[string]any
	usetz  bool
	zoneID string
}

func (in *inputs) opts(silent bool) []exec.Option {
	var o []exec.Option
	if in.vars != nil {
		o = append(o, exec.WithVars(exec.Vars(in.vars)))
	}
	if silent {
		o = append(o, exec.WithSilent())
	}
	if in.usetz {
		o = append(o, exec.WithTZ())
	}
	return o
}

func (in *inputs) ctx() context.Context {
	return types.ContextWithTZ(context.Background(), zoneFor(in.zoneID))
}

func (in *inputs) run(entry string, silent bool, ctx context.Context) (c call) {
	defer func() {
		if r := recover(); r != nil {
			c.panic_ = r
			c.class = "panic"
		}
	}()
	if ctx == nil {
		ctx = in.ctx()
	}
	o := in.opts(silent)
	switch entry {
	case "query":
		c.items, c.err = in.p.Query(ctx, in.doc, o...)
	case "first":
		c.first, c.err = in.p.First(ctx, in.doc, o...)
	case "exists":
		c.b, c.err = in.p.Exists(ctx, in.doc, o...)
	case "match":
		c.b, c.err = in.p.Match(ctx, in.doc, o...)
	case "eom":
		c.b, c.err = in.p.ExistsOrMatch(ctx, in.doc, o...)
	}
	if c.err != nil {
		c.class = classify(c.err, nil)
	}
	return c
}

func (in *inputs) describe() J {
	return J{"path": in.text, "doc": encItem(in.doc), "vars": encVars(in.vars), "usetz": in.usetz, "zoneid": in.zoneID}
}

func deepCopy(v any) any {
	switch v := v.(type) {
	case []any:
		out := make([]any, len(v))
		for i, x := range v {
			out[i] = deepCopy(x)
		}
		return out
	case map[string]any:
		out := make(map[string]any, len(v))
		for k, x := range v {
			out[k] = deepCopy(x)
		}
		return out
	}
	return v
}

// sameItems compares item lists up to NaN payloads and keyvalue ids.
func sameItems(a, b []any) bool {
	if len(a) != len(b) {
		return false
	}
	for i := range a {
		if !reflect.DeepEqual(encItem(maskIDs(a[i])), encItem(maskIDs(b[i]))) {
			return false
		}
	}
	return true
}

// genInput draws one (path, document) group from the generator of a profile.
func genInput(g *gen) *inputs {
	for tries := 0; tries < 50; tries++ {
		text := g.path()
		p, err := parseNoPanic(text)
		if err != nil || p == nil {
			continue
		}
		doc, vars, _ := g.document()
		return &inputs{text: text, p: p, doc: doc, vars: vars, usetz: g.pct(40), zoneID: zoneIDs[g.r.Intn(len(zoneIDs))]}
	}
	return nil
}

// inputFromCase rebuilds inputs from a case line of the correspondence stream.
func inputFromCase(c map[string]any) *inputs {
	text, _ := c["path"].(string)
	if text == "" {
		return nil
	}
	p, err := parseNoPanic(text)
	if err != nil || p == nil {
		return nil
	}
	doc, err := decItem(normJSON(c["doc"]))
	if err != nil {
		return nil
	}
	var vars map[string]any
	if vs, ok := normJSON(c["vars"]).([]any); ok {
		vars = map[string]any{}
		for _, m := range vs {
			kv, ok := m.([]any)
			if !ok || len(kv) != 2 {
				continue
			}
			v, _ := decItem(kv[1])
			vars[fmt.Sprint(kv[0])] = v
		}
	}
	usetz, _ := c["usetz"].(bool)
	zid, _ := c["zoneid"].(string)
	return &inputs{text: text, p: p, doc: doc, vars: vars, usetz: usetz, zoneID: zid}
}

// execOracle drives a per-input predicate over seeds handed over by bin/check,
// then over freshly generated inputs of the given profiles.
func execOracle(o *oracleRun, profilesToUse []string, pred func(in *inputs) J) J {
	if o.replay != nil {
		if in := inputFromCase(o.replay); in != nil {
			return pred(in)
		}
		return nil
	}
	for _, c := range o.seeds {
		if in := inputFromCase(c); in != nil {
			if v := pred(in); v != nil {
				return v
			}
		}
	}
	for pi, pn := range profilesToUse {
		p := profiles[pn]
		g := &gen{r: rand.New(rand.NewSource(o.seed*7919 + int64(pi))), p: p}
		for i := 0; i < o.n/len(profilesToUse); i++ {
			in := genInput(g)
			if in == nil {
				continue
			}
			if v := pred(in); v != nil {
				return v
			}
		}
	}
	return nil
}

func violation(in *inputs, what string, extra J) J {
	out := in.describe()
	out["violates"] = what
	for k, v := range extra {
		out[k] = v
	}
	return out
}

func (o *oracleRun) isKnown(id string) bool {
	for _, k := range o.known {
		if k.ID == id && k.Kind == "known" {
			return true
		}
	}
	return false
}

func showCall(c call) any {
	if c.panic_ != nil {
		return J{"panic": fmt.Sprint(c.panic_)}
	}
	if c.err != nil {
		return J{"err": c.err.Error(), "class": c.class}
	}
	items := make([]any, len(c.items))
	for i, x := range c.items {
		items[i] = encItem(x)
	}
	return J{"items": items, "first": encItem(c.first), "bool": c.b}
}

func hasUnarySign(text string) bool {
	// a unary + or - applied to something that is not a numeric literal
	for i := 0; i+1 < len(text); i++ {
		if (text[i] == '-' || text[i] == '+') && (i == 0 || strings.ContainsRune("(,[ ?&|=<>!*/%+-", rune(text[i-1]))) {
			return true
		}
	}
	return false
}

func init() {
	// ---- C05 ------------------------------------------------------------------------
	oracles["C05"] = func(o *oracleRun) J {
		return execOracle(o, []string{"general", "method", "arith", "predicate"}, func(in *inputs) J {
			docCopy, varsCopy := deepCopy(in.doc), deepCopy(any(in.vars))
			for _, entry := range []string{"query", "first", "exists", "match", "eom"} {
				for _, silent := range []bool{false, true} {
					c := in.run(entry, silent, nil)
					ex := J{"entry": entry, "silent": silent, "got": showCall(c)}
					if c.panic_ != nil {
						return violation(in, "panic", ex)
					}
					if c.err != nil {
						switch c.class {
						case "NULL":
							if entry == "query" || entry == "first" {
								return violation(in, "NULL from Query/First", ex)
							}
						case "invalid":
							if strings.Contains(c.err.Error(), "unrecognized SQL/JSON datetime type") && o.isKnown("D15") {
								continue
							}
							return violation(in, "ErrInvalid for a parser-produced path", ex)
						case "verbose", "hard", "cancelled":
						default:
							return violation(in, "error does not wrap ErrExecution", ex)
						}
					}
					for _, it := range append(c.items, c.first) {
						if f, ok := it.(float64); ok && (math.IsNaN(f) || math.IsInf(f, 0)) {
							if decimalScaleBeyond308(in.text) && o.isKnown("D17c") {
								continue
							}
							if docHasNonFinite(in.doc) || docHasNonFinite(any(in.vars)) {
								continue // the input itself is outside the property's domain
							}
							return violation(in, "non-finite number returned", ex)
						}
					}
				}
			}
			if !reflect.DeepEqual(encItem(docCopy), encItem(in.doc)) || !reflect.DeepEqual(encItem(varsCopy), encItem(any(in.vars))) {
				return violation(in, "document or variables modified", nil)
			}
			return nil
		})
	}

	// ---- C06 ------------------------------------------------------------------------
	oracles["C06"] = func(o *oracleRun) J {
		return execOracle(o, []string{"general", "accessor", "predicate", "arith"}, func(in *inputs) J {
			for _, silent := range []bool{false, true} {
				q := in.run("query", silent, nil)
				f := in.run("first", silent, nil)
				e := in.run("exists", silent, nil)
				m := in.run("match", silent, nil)
				em := in.run("eom", silent, nil)
				ex := J{"silent": silent, "query": showCall(q), "first": showCall(f), "exists": showCall(e), "match": showCall(m), "eom": showCall(em)}
				if q.panic_ != nil || f.panic_ != nil || e.panic_ != nil || m.panic_ != nil {
					continue // C05's business
				}
				// First
				if (q.err == nil) != (f.err == nil) || q.class != f.class {
					return violation(in, "First and Query disagree on the error", ex)
				}
				if q.err == nil {
					var want any
					if len(q.items) > 0 {
						want = q.items[0]
					}
					if !reflect.DeepEqual(encItem(maskIDs(want)), encItem(maskIDs(f.first))) {
						return violation(in, "First is not the first item of Query", ex)
					}
				}
				// Exists vs Query (verbose run that succeeds)
				if !silent && q.err == nil {
					if e.err != nil || e.b != (len(q.items) > 0) {
						return violation(in, "Query succeeds but Exists is not len>0", ex)
					}
				}
				// Exists true is sound (silent query = complete evaluation up to suppressed failure)
				if e.err == nil && e.b {
					qs := in.run("query", true, nil)
					if qs.err == nil && len(qs.items) == 0 {
						if hasUnarySign(in.text) && o.isKnown("D8") {
							continue
						}
						return violation(in, "Exists true but a complete evaluation yields no item", ex)
					}
				}
				// strict: Exists never hides an error Query reports
				if !in.p.IsLax() && q.err != nil {
					if e.err == nil || (e.class != q.class && !(silent && e.class == "NULL")) {
						return violation(in, "strict: Query errs but Exists does not report it", ex)
					}
				}
				// Match
				if q.err != nil {
					if m.err == nil || m.class != q.class {
						return violation(in, "Match does not return Query's error", ex)
					}
				} else {
					okMatch := false
					if len(q.items) == 1 {
						switch v := q.items[0].(type) {
						case nil:
							okMatch = m.class == "NULL"
						case bool:
							okMatch = m.err == nil && m.b == v
						default:
							okMatch = (silent && m.class == "NULL") || (!silent && m.class == "verbose")
						}
					} else {
						okMatch = (silent && m.class == "NULL") || (!silent && m.class == "verbose")
					}
					if !okMatch {
						return violation(in, "Match is not the sole boolean of Query", ex)
					}
				}
				// ExistsOrMatch
				ref := e
				if in.p.IsPredicate() {
					ref = m
				}
				if (em.err == nil) != (ref.err == nil) || em.class != ref.class || em.b != ref.b {
					return violation(in, "ExistsOrMatch is neither Match (predicate) nor Exists", ex)
				}
			}
			return nil
		})
	}

	// ---- C08 ------------------------------------------------------------------------
	oracles["C08"] = func(o *oracleRun) J {
		return execOracle(o, []string{"general", "predicate", "method", "accessor"}, func(in *inputs) J {
			for _, entry := range []string{"query", "first", "exists", "match"} {
				v := in.run(entry, false, nil)
				s := in.run(entry, true, nil)
				ex := J{"entry": entry, "verbose_run": showCall(v), "silent_run": showCall(s)}
				if v.panic_ != nil || s.panic_ != nil {
					continue
				}
				if s.class == "verbose" {
					return violation(in, "ErrVerbose returned under WithSilent", ex)
				}
				switch {
				case v.err == nil:
					if s.err != nil || v.b != s.b || !sameItems(v.items, s.items) ||
						!reflect.DeepEqual(encItem(maskIDs(v.first)), encItem(maskIDs(s.first))) {
						return violation(in, "success without WithSilent differs with it", ex)
					}
				case v.class == "hard" || v.class == "cancelled":
					if s.class != v.class {
						return violation(in, "non-suppressible error changed by WithSilent", ex)
					}
				case v.class == "verbose":
					if entry == "match" && s.class == "NULL" {
						continue
					}
					if (entry == "query" || entry == "first") && s.err != nil {
						return violation(in, "suppressible failure not suppressed", ex)
					}
					if entry == "exists" && s.err != nil && s.class != "NULL" {
						return violation(in, "suppressible failure not suppressed", ex)
					}
				}
			}
			return nil
		})
	}

	// no leak: a predicate or filter evaluated first must not change how later errors are reported
	c08exec := oracles["C08"]
	oracles["C08"] = func(o *oracleRun) J {
		if v := c08exec(o); v != nil {
			return v
		}
		if o.replay != nil {
			return nil
		}
		r := rand.New(rand.NewSource(o.seed + 17))
		steps := []string{".a", ".b", ".*", "[*]", "[0]", "[5]", ".abs()", ".double()", ".size()", ".keyvalue()", ".c"}
		preds := []string{"(1 == 1)", "exists(@)", "!(1 == 2)", "(1 == \"a\") is unknown", "(1 == 1 && exists(@))",
			"($undef == 1) is unknown", "(exists(@ ? (@ == $undef))) is unknown", "(@.datetime(\"HH24\") == 1) is unknown", "($undef == 1) is unknown && exists(@)"}
		g := &gen{r: r, p: profiles["accessor"]}
		g.keys = []string{"a", "b", "c"}
		for i := 0; i < o.n; i++ {
			var S string
			for j := 0; j < 1+r.Intn(3); j++ {
				S += steps[r.Intn(len(steps))]
			}
			mode := "strict "
			if r.Intn(3) == 0 {
				mode = ""
			}
			doc := g.value(2, r.Intn(2))
			if _, isArr := doc.([]any); isArr {
				continue // a filter unwraps an array target in lax mode
			}
			plain := mustInput(mode+"$"+S, doc, nil)
			with := mustInput(mode+"$ ? ("+preds[r.Intn(len(preds))]+")"+S, doc, nil)
			if plain == nil || with == nil {
				continue
			}
			for _, entry := range []string{"query", "exists"} {
				a, b := plain.run(entry, false, nil), with.run(entry, false, nil)
				if a.panic_ != nil || b.panic_ != nil {
					continue
				}
				if a.class != b.class || (a.err == nil && (a.b != b.b || !sameItems(a.items, b.items))) {
					return violation(with, "an always-true filter changes how the following steps report", J{"entry": entry, "without_filter": showCall(a), "with_filter": showCall(b)})
				}
			}
		}
		return nil
	}

	// ---- C20 ------------------------------------------------------------------------
	oracles["C20"] = func(o *oracleRun) J {
		return execOracle(o, []string{"general", "predicate", "accessor", "method"}, func(in *inputs) J {
			for _, entry := range []string{"query", "first", "exists", "match"} {
				for _, silent := range []bool{false, true} {
					polls := countPolls(in.p, in.doc, in.vars, entry, silent)
					if polls < 0 {
						continue
					}
					if polls > 60 {
						polls = 60
					}
					for k := 0; k < polls; k++ {
						for _, kind := range []error{context.Canceled, context.DeadlineExceeded} {
							cctx := newCountingCtx(in.ctx(), k, kind)
							c := in.run(entry, silent, cctx)
							if c.panic_ != nil {
								continue
							}
							good := c.err != nil && errors.Is(c.err, exec.ErrExecution) && errors.Is(c.err, kind) &&
								len(c.items) == 0 && c.first == nil && !c.b
							if !good {
								return violation(in, "cancellation at a poll is not the outcome", J{
									"entry": entry, "silent": silent, "k": k, "polls_uncancelled": polls,
									"kind": kind.Error(), "got": showCall(c), "polls_after": cctx.calls - k - 1})
							}
							if cctx.calls-k-1 > 0 {
								return violation(in, "executor keeps polling after cancellation", J{
									"entry": entry, "silent": silent, "k": k, "further_polls": cctx.calls - k - 1})
							}
						}
					}
				}
			}
			return nil
		})
	}
}

func docHasNonFinite(v any) bool {
	switch v := v.(type) {
	case float64:
		return math.IsNaN(v) || math.IsInf(v, 0)
	case json.Number:
		_, err := v.Float64()
		return err != nil
	case []any:
		for _, x := range v {
			if docHasNonFinite(x) {
				return true
			}
		}
	case map[string]any:
		for _, x := range v {
			if docHasNonFinite(x) {
				return true
			}
		}
	}
	return false
}

var decimalScaleRE = regexp.MustCompile(`\.decimal\(\s*[-+]?[0-9_]+\s*,\s*([-+]?)([0-9_]+)\s*\)`)

// decimalScaleBeyond308 reports whether the text has a .decimal(p, s) whose scale is outside
// [-308, 308] — the recorded finding D17c (math.Pow10 gives 0 or +Inf there and a NaN results).
func decimalScaleBeyond308(text string) bool {
	for _, m := range decimalScaleRE.FindAllStringSubmatch(text, -1) {
		if n, err := strconv.Atoi(strings.ReplaceAll(m[2], "_", "")); err != nil || n > 308 {
			return true
		}
	}
	return false
}
