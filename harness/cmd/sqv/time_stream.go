package main

// Datetime correspondence stream: `sqv gen-time` writes JSONL cases, `sqv
// run-time` executes them against the real path/types and path/exec code and
// writes one result line per case, in the shape produced by the Lean driver
// (lean/Sqljson/Driver/TimeOps.lean).
//
// Ops:
//
//	time.parse     {src, precision, zone, today}                -> {"ok":true,"v":dt,"str":s} | {"ok":false}
//	time.cast      {src, precision, target, usetz, zone, today} -> {"v":dt,"str":s} | {"err":"parse"|"notRecognized"|"tzRequired"}
//	time.compare   {a, b, usetz, zone, today}                   -> {"cmp":n} | {"err":"parse"|"tzRequired"}
//	time.unmarshal {kind, data:[byte,...]}                      -> {"out":"ok","v":dt,"str":s} | {"out":"err"} | {"out":"panic"}
//	time.marshal   {src, precision, zone, today}                -> {"json":s} | {"err":"parse"}
//
// Zone wire format: {"kind":"utc"|"fixed"|"named","name":..,"off":..,
// "initial":secs,"trans":[[unixStart,offset],...]}. The Lean side reads only
// initial/trans; for named zones the table is computed here by probing the
// location, restricted to the years around the instants of the case and around
// today, so the model never needs the tz database.
//
// `today` is the civil date of time.Now() in the zone of the case (what
// Time.ToTimeTZ reads: time.Now().In(tz)), as days since 1970-01-01; both
// subcommands force time.Local = time.UTC. Only Time.ToTimeTZ reads it. run-time marks cases whose `today` is stale with
// {"skip":...} (the comparison script ignores them), so generate and run on the
// same day.

import (
	"bufio"
	"context"
	"encoding/json"
	"flag"
	"fmt"
	"math/rand"
	"os"
	"sort"
	"strings"
	"time"
	_ "unsafe" // for go:linkname

	"github.com/theory/sqljson/path"
	"github.com/theory/sqljson/path/exec"
	"github.com/theory/sqljson/path/types"
)

// execCompareDatetime is exec.compareDatetime (unexported; body supplied by
// the linker, see linkname_stub.s).
//
//go:linkname execCompareDatetime github.com/theory/sqljson/path/exec.compareDatetime
func execCompareDatetime(ctx context.Context, val1, val2 any, useTZ bool) (int, error)

func init() {
	register("gen-time", "generate datetime correspondence cases (-seed N -n COUNT -out FILE)", genTimeMain)
	register("run-time", "run datetime cases against the Go code (-in FILE -out FILE)", runTimeMain)
}

// ---------------------------------------------------------------- zones

type zoneSpec struct {
	Kind    string     `json:"kind"`
	Name    string     `json:"name"`
	Off     int        `json:"off"`
	Initial int        `json:"initial"`
	Trans   [][2]int64 `json:"trans"`
}

func (z *zoneSpec) location() (*time.Location, error) {
	switch z.Kind {
	case "utc":
		return time.UTC, nil
	case "fixed":
		return time.FixedZone(z.Name, z.Off), nil
	case "named":
		if loc, ok := locCache[z.Name]; ok {
			return loc, nil
		}
		loc, err := time.LoadLocation(z.Name)
		if err == nil {
			locCache[z.Name] = loc
		}
		return loc, err
	}
	return nil, fmt.Errorf("bad zone kind %q", z.Kind)
}

var locCache = map[string]*time.Location{}

func offAt(loc *time.Location, t int64) int {
	_, off := time.Unix(t, 0).In(loc).Zone()
	return off
}

type transition struct {
	at  int64
	off int
}

type namedZone struct {
	name  string
	loc   *time.Location
	cache map[int][]transition
}

func yearStart(y int) int64 { return time.Date(y, 1, 1, 0, 0, 0, 0, time.UTC).Unix() }

// inYear returns the offset changes in (yearStart(y), yearStart(y+1)], found by
// probing day by day and bisecting to the second.
func (z *namedZone) inYear(y int) []transition {
	if tr, ok := z.cache[y]; ok {
		return tr
	}
	var out []transition
	t0, t1 := yearStart(y), yearStart(y+1)
	prev := offAt(z.loc, t0)
	for t := t0; t < t1; t += 86400 {
		next := offAt(z.loc, t+86400)
		if next != prev {
			lo, hi := t, t+86400 // off(lo) == prev, off(hi) != prev
			for hi-lo > 1 {
				mid := lo + (hi-lo)/2
				if offAt(z.loc, mid) == prev {
					lo = mid
				} else {
					hi = mid
				}
			}
			out = append(out, transition{hi, offAt(z.loc, hi)})
			// a second change inside the same day
			if offAt(z.loc, hi) != next {
				lo2, hi2 := hi, t+86400
				o2 := offAt(z.loc, hi)
				for hi2-lo2 > 1 {
					mid := lo2 + (hi2-lo2)/2
					if offAt(z.loc, mid) == o2 {
						lo2 = mid
					} else {
						hi2 = mid
					}
				}
				out = append(out, transition{hi2, offAt(z.loc, hi2)})
			}
		}
		prev = next
	}
	z.cache[y] = out
	return out
}

// spec builds the wire table covering the given years (each with its
// neighbours).
func (z *namedZone) spec(years []int) *zoneSpec {
	set := map[int]bool{}
	for _, y := range years {
		for d := -1; d <= 1; d++ {
			set[y+d] = true
		}
	}
	ys := make([]int, 0, len(set))
	for y := range set {
		ys = append(ys, y)
	}
	sort.Ints(ys)
	s := &zoneSpec{Kind: "named", Name: z.name, Trans: [][2]int64{}}
	for i, y := range ys {
		if i == 0 {
			s.Initial = offAt(z.loc, yearStart(y))
		} else if ys[i-1] != y-1 {
			// gap between windows: re-anchor the offset
			s.Trans = append(s.Trans, [2]int64{yearStart(y), int64(offAt(z.loc, yearStart(y)))})
		}
		for _, tr := range z.inYear(y) {
			s.Trans = append(s.Trans, [2]int64{tr.at, int64(tr.off)})
		}
	}
	return s
}

var namedZoneNames = []string{
	"America/New_York", "Europe/London", "Australia/Lord_Howe", "Asia/Kathmandu",
	"Pacific/Apia", "Pacific/Kiritimati", "America/St_Johns", "Africa/Casablanca",
	"Asia/Tehran", "Europe/Dublin", "Pacific/Chatham", "America/Caracas",
}

// ---------------------------------------------------------------- generator

type tgen struct {
	r     *rand.Rand
	now   time.Time // one reading of the clock for the whole generation
	named []*namedZone
}

func (g *tgen) pick(xs ...string) string { return xs[g.r.Intn(len(xs))] }
func (g *tgen) chance(pct int) bool      { return g.r.Intn(100) < pct }

var boundaryYears = []int{
	0, 1, 4, 99, 100, 400, 1000, 1582, 1600, 1883, 1899, 1900, 1901, 1918, 1969, 1970, 1971,
	1986, 1999, 2000, 2001, 2011, 2023, 2024, 2025, 2026, 2037, 2038, 2099, 2100, 2101, 9998, 9999,
}

func (g *tgen) year() int {
	switch g.r.Intn(10) {
	case 0, 1, 2, 3:
		return boundaryYears[g.r.Intn(len(boundaryYears))]
	case 4, 5, 6:
		return 1900 + g.r.Intn(201)
	default:
		return g.r.Intn(10000)
	}
}

func daysInMonth(y, m int) int {
	return time.Date(y, time.Month(m)+1, 0, 0, 0, 0, 0, time.UTC).Day()
}

// date returns "YYYY-MM-DD"; valid unless bad is set, in which case one field
// is pushed just out of range.
func (g *tgen) date(bad bool) string {
	y := g.year()
	m := 1 + g.r.Intn(12)
	if g.chance(30) {
		m = []int{1, 2, 2, 3, 12}[g.r.Intn(5)]
	}
	dim := daysInMonth(y, m)
	d := 1 + g.r.Intn(dim)
	if g.chance(40) {
		d = []int{1, 2, dim - 1, dim, dim}[g.r.Intn(5)]
	}
	if bad {
		switch g.r.Intn(6) {
		case 0:
			m = []int{0, 13, 19, 99}[g.r.Intn(4)]
		case 1:
			d = 0
		case 2:
			d = dim + 1
		case 3:
			d = []int{32, 40, 99}[g.r.Intn(3)]
		case 4:
			m, d = 2, 30
		case 5:
			return fmt.Sprintf("%05d-%02d-%02d", 10000+g.r.Intn(90000), m, d)
		}
	}
	return fmt.Sprintf("%04d-%02d-%02d", y, m, d)
}

func (g *tgen) clock(bad bool) string {
	h := g.r.Intn(24)
	if g.chance(40) {
		h = []int{0, 1, 2, 3, 11, 12, 13, 22, 23}[g.r.Intn(9)]
	}
	mi := g.r.Intn(60)
	if g.chance(40) {
		mi = []int{0, 1, 14, 15, 29, 30, 31, 44, 45, 59}[g.r.Intn(10)]
	}
	s := g.r.Intn(60)
	if g.chance(40) {
		s = []int{0, 1, 29, 30, 58, 59}[g.r.Intn(6)]
	}
	if bad {
		switch g.r.Intn(4) {
		case 0:
			h = []int{24, 25, 60, 99}[g.r.Intn(4)]
		case 1:
			mi = []int{60, 61, 99}[g.r.Intn(3)]
		case 2:
			s = []int{60, 61, 99}[g.r.Intn(3)]
		case 3:
			return fmt.Sprintf("%02d:%d:%02d", h, mi%10, s)
		}
	}
	if g.chance(8) && h < 10 {
		return fmt.Sprintf("%d:%02d:%02d", h, mi, s) // one-digit hour
	}
	return fmt.Sprintf("%02d:%02d:%02d", h, mi, s)
}

var boundaryFracs = []string{
	"0", "5", "05", "50", "000", "123", "999", "4999995", "5000005", "499999", "500000",
	"999999", "9999994", "9999995", "99999949", "99999950", "999999499", "999999500",
	"999999999", "9999999999", "99999999999", "999999999999", "000000001", "0000000001",
	"0000005", "0000004", "1234567", "12345678", "123456789", "1234565", "1234575", "1", "9",
	"45", "55", "449", "450", "4449", "4450", "44449", "44450", "444449", "444450",
}

func (g *tgen) frac() string {
	switch g.r.Intn(10) {
	case 0, 1, 2, 3:
		return ""
	case 4, 5, 6:
		sep := "."
		if g.chance(15) {
			sep = ","
		}
		return sep + boundaryFracs[g.r.Intn(len(boundaryFracs))]
	default:
		n := 1 + g.r.Intn(12)
		b := make([]byte, n)
		for i := range b {
			b[i] = byte('0' + g.r.Intn(10))
			if g.chance(30) {
				b[i] = "0459"[g.r.Intn(4)]
			}
		}
		sep := "."
		if g.chance(10) {
			sep = ","
		}
		return sep + string(b)
	}
}

var boundaryTZ = []string{
	"Z", "+00", "-00", "+00:00", "-00:00", "+01", "-01", "+05:30", "-05", "-05:00", "-04:00", "-04",
	"+05:45", "+14", "+14:00", "-12", "-12:00", "+13:45", "+12:45", "-03:30", "-02:30", "+10:30", "+11",
	"+24", "-24", "+24:00", "+24:60", "-24:60", "+23:59", "-23:59", "+00:60", "+00:01", "-00:01",
}

var badTZ = []string{
	"+25", "-25", "+24:61", "+5", "+0530", "+05:3", "+05:", "+05:30:00", "+05:30:15", "z", " Z", "Z ",
	"+", "-", "+0", "UTC", "GMT", "+1:00", "+100", "−05", "+05.30", "+05:300", "ZZ", "Z+00", "+00Z",
	"+99", "+05:99", " +05", "+ 05",
}

func (g *tgen) tz(bad bool) string {
	if bad {
		return badTZ[g.r.Intn(len(badTZ))]
	}
	if g.chance(60) {
		return boundaryTZ[g.r.Intn(len(boundaryTZ))]
	}
	sign := g.pick("+", "-")
	h := g.r.Intn(15)
	if g.chance(50) {
		return fmt.Sprintf("%s%02d", sign, h)
	}
	return fmt.Sprintf("%s%02d:%02d", sign, h, []int{0, 15, 30, 45, g.r.Intn(60)}[g.r.Intn(5)])
}

var kinds = []string{"date", "time", "timetz", "timestamp", "timestamptz"}

// valid builds a source string meant to parse as kind (bad pushes one
// component out of range or out of syntax).
func (g *tgen) valid(kind string, bad bool) string {
	which := -1
	if bad {
		which = g.r.Intn(3)
	}
	sep := "T"
	if g.chance(35) {
		sep = " "
	}
	switch kind {
	case "date":
		return g.date(bad)
	case "time":
		return g.clock(bad) + g.frac()
	case "timetz":
		return g.clock(which == 0 || which == 1) + g.frac() + g.tz(which == 2)
	case "timestamp":
		return g.date(which == 0) + sep + g.clock(which == 1 || which == 2) + g.frac()
	default:
		return g.date(which == 0) + sep + g.clock(which == 1) + g.frac() + g.tz(which == 2)
	}
}

var handMade = []string{
	"", " ", "T", "Z", "-", "2024", "2024-01", "2024-01-01T", "2024-01-01 ", "2024-01-01T12", "2024-01-01T12:00",
	"2024-1-01", "2024-01-1", "24-01-01", "02024-01-01", "20240101", "2024/01/01", "2024-01-01Z", "2024-01-01+00",
	"12:00", "12", "12:00:0", "1:2:3", "12:00:00.", "12:00:00,", "12:00:00.Z", "12:00:00.+01", "12:00:00.5.5",
	"12:00:00 ", " 12:00:00", "12:00:00  +01", "12:00:00 +01", "12:00:00z", "12:00:00Z ", "2024-01-01t12:00:00",
	"2024-01-01  12:00:00", "2024-01-01   12:00:00Z", "2024-01-01 T12:00:00", "2024-01-01T 12:00:00",
	"2024-01-01_12:00:00", "2024-01-01T12:00:00.123456789123Z", "2024-01-01T24:00:00", "2024-01-01T23:59:60",
	"2024-01-01T23:59:59.9999999", "9999-12-31T23:59:59.9999999", "9999-12-31 23:59:59.9999995+00",
	"0000-01-01T00:00:00", "0000-01-01", "0000-00-00", "0000-01-01T00:00:00+14", "0000-01-01T00:00:00-12",
	"0001-01-01T00:00:00Z", "0000-12-31T23:59:59.9999999Z", "2023-02-29", "2024-02-29", "2024-02-30", "1900-02-29",
	"2000-02-29", "2100-02-29", "0000-02-29", "0004-02-29", "0100-02-29", "0400-02-29", "2024-04-31", "2024-06-31",
	"2024-09-31", "2024-11-31", "2024-12-31", "2024-12-32", "2024-13-01", "2024-00-10", "2024-01-00",
	"23:59:59.9999995", "23:59:59.9999995+00", "23:59:59.9999995-05:30", "00:00:00.0000005", "00:00:00.0000004",
	"00:00:00-24:60", "00:00:00+24:60", "23:59:59+24:60", "23:59:59.5-24:60", "12:00:00+24:61", "12:00:00+25",
	"2024-03-10T02:30:00", "2024-03-10 02:00:00", "2024-03-10T03:00:00", "2024-03-10T01:59:59.9999999",
	"2024-11-03T01:30:00", "2024-11-03T01:00:00", "2024-11-03T02:00:00", "2024-11-03T00:59:59",
	"2024-03-31T01:30:00", "2024-03-31T01:00:00", "2024-10-27T01:30:00", "2024-10-27T02:00:00",
	"2024-10-06T02:15:00", "2024-10-06T02:00:00", "2024-10-06T02:30:00", "2024-04-07T01:45:00", "2024-04-07T01:30:00",
	"2011-12-30", "2011-12-30T12:00:00", "2011-12-29T23:59:59", "2011-12-31T00:00:00", "2011-12-30T00:00:00Z",
	"1985-12-31T23:59:59", "1986-01-01T00:00:00", "1986-01-01T00:10:00", "1986-01-01T00:15:00",
	"1994-12-31", "1994-12-31T12:00:00", "1995-01-01", "1883-11-18T12:00:00", "1883-11-18T12:03:58", "1883-11-18T12:03:57",
	"1883-11-18", "1847-12-01T00:00:00", "1847-12-01T00:01:15", "2024-01-01T00:00:00é", "é", "２０２４-01-01", "2024-01-01T12:00:00 Z",
	"2024-01-01T12:00:00+05:30", "2024-01-01 12:00:00+05:30", "2024-01-01T12:00:00+05", "2024-01-01 12:00:00-05",
	"2024-01-01T12:00:00,5+05", "2024-01-01T1:00:00", "2024-01-01 1:00:00Z", "1:00:00", "1:00:00Z", "1:00:00+01:00",
	"12:00:00.1234567891234567890123", "12:00:00.12345678901234567890+00", "-2024-01-01", "+2024-01-01",
	"-001-01-01", "2024-01-01T-1:00:00", "2024-01-01T12:-1:00", "12:00:00+-1", "12:00:00+0a", "12:00:00+1a:00",
}

const mutChars = "0123456789-+:.,TZtz _/é"

func (g *tgen) mutate(s string) string {
	rs := []rune(s)
	n := 1 + g.r.Intn(2)
	for i := 0; i < n; i++ {
		switch g.r.Intn(7) {
		case 0: // delete
			if len(rs) > 0 {
				p := g.r.Intn(len(rs))
				rs = append(rs[:p:p], rs[p+1:]...)
			}
		case 1: // insert
			p := g.r.Intn(len(rs) + 1)
			c := []rune(mutChars)[g.r.Intn(len([]rune(mutChars)))]
			rs = append(rs[:p:p], append([]rune{c}, rs[p:]...)...)
		case 2: // replace
			if len(rs) > 0 {
				rs[g.r.Intn(len(rs))] = []rune(mutChars)[g.r.Intn(len([]rune(mutChars)))]
			}
		case 3: // swap neighbours
			if len(rs) > 1 {
				p := g.r.Intn(len(rs) - 1)
				rs[p], rs[p+1] = rs[p+1], rs[p]
			}
		case 4: // truncate
			if len(rs) > 0 {
				rs = rs[:g.r.Intn(len(rs))]
			}
		case 5: // duplicate one
			if len(rs) > 0 {
				p := g.r.Intn(len(rs))
				rs = append(rs[:p+1:p+1], rs[p:]...)
			}
		case 6: // append
			rs = append(rs, []rune(mutChars)[g.r.Intn(len([]rune(mutChars)))])
		}
	}
	return string(rs)
}

// nearTransition returns a source string whose wall-clock fields lie at or next
// to an offset change of z.
func (g *tgen) nearTransition(z *namedZone) string {
	var y int
	switch g.r.Intn(4) {
	case 0:
		y = 2023 + g.r.Intn(5)
	case 1:
		y = []int{1883, 1916, 1918, 1942, 1945, 1968, 1971, 1974, 1981, 1986, 1995, 2011, 2007, 2016, 2018}[g.r.Intn(15)]
	default:
		y = 1900 + g.r.Intn(201)
	}
	trs := z.inYear(y)
	if len(trs) == 0 {
		return g.valid("timestamp", false)
	}
	tr := trs[g.r.Intn(len(trs))]
	before := offAt(z.loc, tr.at-1)
	base := tr.at + int64([]int{before, tr.off}[g.r.Intn(2)])
	deltas := []int64{0, -1, 1, -60, 60, -899, -900, 900, -1799, -1800, 1799, 1800, 1801, -3599, -3600, -3601, 3599, 3600, 3601, 7199, 7200, -7200, 43200, -43200, 86399, 86400, -86400}
	w := time.Unix(base+deltas[g.r.Intn(len(deltas))], 0).UTC()
	ts := w.Format("2006-01-02T15:04:05")
	if g.chance(30) {
		ts = w.Format("2006-01-02 15:04:05")
	}
	switch g.r.Intn(10) {
	case 0, 1:
		return w.Format("2006-01-02")
	case 2:
		return w.Format("15:04:05") + g.frac()
	case 3:
		return ts + g.frac() + g.tz(false)
	case 4:
		return ts + "Z"
	default:
		return ts + g.frac()
	}
}

// pairNear returns a zone-less wall clock and a zoned instant around one and the same offset change
// of z: the operands whose comparison depends on how gaps and overlaps are resolved.
func (g *tgen) pairNear(z *namedZone) (string, string) {
	y := 1900 + g.r.Intn(201)
	if g.chance(50) {
		y = 2020 + g.r.Intn(8)
	}
	trs := z.inYear(y)
	if len(trs) == 0 {
		return g.nearTransition(z), g.nearTransition(z)
	}
	tr := trs[g.r.Intn(len(trs))]
	before := offAt(z.loc, tr.at-1)
	deltas := []int64{0, -1, 1, -900, 900, -1800, 1800, 1799, -1799, -3599, -3600, -3601, 3599, 3600, 3601, 5400, -5400, 7200, -7200}
	d1, d2 := deltas[g.r.Intn(len(deltas))], deltas[g.r.Intn(len(deltas))]
	if g.chance(40) {
		d2 = d1 // the instant the wall clock may denote
	}
	wallOff := []int{before, tr.off}[g.r.Intn(2)]
	w := time.Unix(tr.at+int64(wallOff)+d1, 0).UTC()
	a := w.Format("2006-01-02T15:04:05")
	if g.chance(25) {
		a += g.frac()
	}
	if g.chance(10) {
		a = w.Format("2006-01-02")
	}
	instOff := []int{0, before, tr.off}[g.r.Intn(3)]
	i := time.Unix(tr.at+d2, 0).In(time.FixedZone("", instOff))
	b := i.Format("2006-01-02T15:04:05Z07:00")
	if g.chance(25) {
		b = i.Format("2006-01-02T15:04:05") + g.frac() + i.Format("Z07:00")
	}
	if g.chance(50) {
		return b, a
	}
	return a, b
}

// src returns a source string and whether it was meant to be valid; validPct
// is the share of well-formed strings.
func (g *tgen) src(z *namedZone, validPct int) (string, bool) {
	k := kinds[g.r.Intn(len(kinds))]
	if g.chance(validPct) {
		if z != nil && g.chance(50) {
			return g.nearTransition(z), true
		}
		if g.chance(4) {
			return validHandMade[g.r.Intn(len(validHandMade))], true
		}
		return g.valid(k, false), true
	}
	switch p := g.r.Intn(100); {
	case p < 30:
		return g.valid(k, true), false
	case p < 80:
		return g.mutate(g.valid(k, false)), false
	default:
		return handMade[g.r.Intn(len(handMade))], false
	}
}

// validHandMade are the handMade strings ParseTime accepts.
var validHandMade = func() []string {
	var out []string
	for _, s := range handMade {
		if _, ok := types.ParseTime(context.Background(), s, -1); ok {
			out = append(out, s)
		}
	}
	return out
}()

// zone picks the context zone: nil named zone for utc/fixed.
func (g *tgen) zone() (*zoneSpec, *namedZone) {
	switch p := g.r.Intn(100); {
	case p < 15:
		return &zoneSpec{Kind: "utc", Trans: [][2]int64{}}, nil
	case p < 45:
		var off int
		switch g.r.Intn(4) {
		case 0:
			off = (g.r.Intn(27) - 12) * 3600
		case 1:
			off = (g.r.Intn(105)-48)*900 + 0
		case 2:
			off = g.r.Intn(26*3600+1) - 12*3600
		default:
			off = []int{0, 1, -1, 59, -59, 60, -60, 3599, -3599, 19800, 20700, -16200, -12600, 45900, 50400, -43200, -17762, 86400, -86400, 90060, -90060}[g.r.Intn(21)]
		}
		name := ""
		if g.chance(30) {
			name = "XYZ"
		}
		return &zoneSpec{Kind: "fixed", Name: name, Off: off, Initial: off, Trans: [][2]int64{}}, nil
	default:
		z := g.named[g.r.Intn(len(g.named))]
		return nil, z // table filled in once the sources are known
	}
}

// todayIn is the civil date of now in loc, as days since 1970-01-01.
func todayIn(now time.Time, loc *time.Location) int64 { return todayOf(now.In(loc)) }

// caseToday is the `today` of a case with the given zone.
func (g *tgen) caseToday(spec *zoneSpec, z *namedZone) int64 {
	if z != nil {
		return todayIn(g.now, z.loc)
	}
	loc, err := spec.location()
	if err != nil {
		return todayOf(g.now.UTC())
	}
	return todayIn(g.now, loc)
}

func todayOf(now time.Time) int64 {
	y, m, d := now.Date()
	return time.Date(y, m, d, 0, 0, 0, 0, time.UTC).Unix() / 86400
}

// finishZone computes the table for a named zone from the instants the
// sources denote.
func (g *tgen) finishZone(spec *zoneSpec, z *namedZone, srcs ...string) *zoneSpec {
	if z == nil {
		return spec
	}
	years := []int{g.now.In(z.loc).Year(), g.now.UTC().Year()}
	ctx := types.ContextWithTZ(context.Background(), z.loc)
	for _, s := range srcs {
		if v, ok := types.ParseTime(ctx, s, -1); ok {
			years = append(years, v.GoTime().UTC().Year())
		}
	}
	return z.spec(years)
}

func (g *tgen) precision(max int) int {
	if g.chance(35) {
		return -1
	}
	return g.r.Intn(max + 1)
}

func (g *tgen) unmarshalData(kind string) []byte {
	quote := func(s string) []byte { return []byte(`"` + s + `"`) }
	switch p := g.r.Intn(100); {
	case p < 10:
		short := [][]byte{
			{}, []byte(`"`), []byte(`""`), []byte(`"x"`), []byte("null"), []byte("true"), []byte("false"), []byte("0"),
			[]byte("1"), []byte("12"), []byte("123"), []byte("{}"), []byte("[]"), []byte(`{"a":1}`), []byte("-1"), []byte("1e3"),
			[]byte(`"Z"`), []byte(`"+"`), []byte(`"12:00Z"`), []byte(`"1:02:03Z"`), []byte(`"12:00:00Z"`), []byte(`"12:00:0Z"`),
			[]byte(`"1:02:03+01"`), []byte(`"12345678"`), []byte(`"123456789"`), []byte(`"+23456789"`), []byte(`"-23456"`),
			[]byte(`"+2345"`), []byte(`"2024-01-01"`), []byte(`x2024-01-01y`), []byte(`'12:00:00'`), []byte(`12:00:00+01:00`),
			[]byte(`"12:00:00-00:00:01"`), []byte(`"12:00:00+00:00:01"`), []byte(`"12:00:00-00:00:00"`), []byte(`"12:00:00+05:30:15"`),
			[]byte(`"2024-01-01T12:00:00-00:00:01"`), []byte(`"2024-01-01T12:00:00+24:60:60"`), []byte(`"2024-01-01T12:00:00+24:60:61"`),
			[]byte(`"2024-01-01T12:00:00Z"`), []byte(`"2024-01-01T12:00Z"`), []byte(`"0000-01-01T00:00:00-23:59:59"`),
			[]byte(`"12:00:00.Z"`), []byte(`"12:00:00.5Z"`), []byte(`"12:00:00,5Z"`), []byte(`"12:00:00.5"`), []byte(`"12:00:00."`),
			[]byte(`"24:00:00"`), []byte(`"2024-01-01 12:00:00"`), []byte(`"2024-01-01t12:00:00"`), {0xff, 0xfe}, {'"', 0xc3, '"'},
			[]byte(`"2024-01-01T12:00:00+05:30"`), []byte(`"2024-01-01T12:00:00+05"`), []byte(`"2024-01-01T12:00:00-05:30:15"`),
		}
		return short[g.r.Intn(len(short))]
	case p < 20:
		n := g.r.Intn(14)
		b := make([]byte, n)
		for i := range b {
			b[i] = byte(g.r.Intn(256))
			if g.chance(70) {
				b[i] = `"0123456789:+-.TZ`[g.r.Intn(17)]
			}
		}
		return b
	}
	k := kind
	if g.chance(25) {
		k = kinds[g.r.Intn(len(kinds))]
	}
	s := g.valid(k, g.chance(10))
	if k == "date" || k == "timestamp" || k == "timestamptz" {
		s = strings.Replace(s, " ", "T", 1)
	}
	// sometimes take the canonical output of a parsed value: the round-trip inputs
	if g.chance(50) {
		if v, ok := types.ParseTime(context.Background(), s, g.precision(9)); ok {
			s = v.String()
		}
	}
	// offsets with seconds are only reachable here
	if (k == "timetz" || k == "timestamptz") && g.chance(25) {
		s = strings.TrimRight(s, "Z")
		if i := strings.LastIndexAny(s, "+-"); i > 8 {
			s = s[:i]
		}
		s += fmt.Sprintf("%s%02d:%02d:%02d", g.pick("+", "-"), g.r.Intn(25), g.r.Intn(61), g.r.Intn(61))
	}
	if g.chance(20) {
		s = g.mutate(s)
	}
	if g.chance(4) {
		return []byte(s) // unquoted
	}
	return quote(s)
}

func genTimeMain(args []string) int {
	fs := flag.NewFlagSet("gen-time", flag.ExitOnError)
	seed := fs.Int64("seed", 1, "random seed")
	n := fs.Int("n", 1000, "number of cases")
	out := fs.String("out", "", "output file (JSONL)")
	_ = fs.Parse(args)
	time.Local = time.UTC

	g := &tgen{r: rand.New(rand.NewSource(*seed)), now: time.Now()}
	for _, name := range namedZoneNames {
		loc, err := time.LoadLocation(name)
		if err != nil {
			fmt.Fprintf(os.Stderr, "gen-time: skipping zone %s: %v\n", name, err)
			continue
		}
		g.named = append(g.named, &namedZone{name: name, loc: loc, cache: map[int][]transition{}})
	}
	if len(g.named) == 0 {
		fmt.Fprintln(os.Stderr, "gen-time: no named zones available")
		return 1
	}

	f := os.Stdout
	if *out != "" {
		var err error
		if f, err = os.Create(*out); err != nil {
			fmt.Fprintln(os.Stderr, err)
			return 1
		}
		defer f.Close()
	}
	w := bufio.NewWriterSize(f, 1<<20)
	defer w.Flush()

	for id := 0; id < *n; id++ {
		c := J{"id": id}
		switch p := g.r.Intn(100); {
		case p < 30:
			spec, z := g.zone()
			s, _ := g.src(z, 50)
			c["op"] = "time.parse"
			c["src"] = s
			c["precision"] = g.precision(12)
			c["zone"] = g.finishZone(spec, z, s)
			c["today"] = g.caseToday(spec, z)
		case p < 60:
			spec, z := g.zone()
			s, _ := g.src(z, 75)
			target := kinds[g.r.Intn(len(kinds))]
			c["op"] = "time.cast"
			c["src"] = s
			c["target"] = target
			if target == "date" {
				c["precision"] = -1
			} else {
				c["precision"] = g.precision(6)
			}
			c["usetz"] = g.chance(75)
			c["zone"] = g.finishZone(spec, z, s)
			c["today"] = g.caseToday(spec, z)
		case p < 82:
			spec, z := g.zone()
			a, _ := g.src(z, 88)
			b, _ := g.src(z, 88)
			if g.chance(25) {
				// related operands: equal instants / equal wall clocks are the interesting ties
				b = g.related(a)
			} else if z != nil && g.chance(40) {
				a, b = g.pairNear(z)
			}
			c["op"] = "time.compare"
			c["a"] = a
			c["b"] = b
			c["usetz"] = g.chance(80)
			c["zone"] = g.finishZone(spec, z, a, b)
			c["today"] = g.caseToday(spec, z)
		case p < 94:
			c["op"] = "time.unmarshal"
			kind := kinds[g.r.Intn(len(kinds))]
			c["kind"] = kind
			data := g.unmarshalData(kind)
			arr := make([]int, len(data))
			for i, b := range data {
				arr[i] = int(b)
			}
			c["data"] = arr
		default:
			spec, z := g.zone()
			s, _ := g.src(z, 75)
			c["op"] = "time.marshal"
			c["src"] = s
			c["precision"] = g.precision(9)
			c["zone"] = g.finishZone(spec, z, s)
			c["today"] = g.caseToday(spec, z)
		}
		w.Write(marshal(c))
		w.WriteByte('\n')
	}
	return 0
}

// related derives a second operand from a: same string, same wall clock with
// another zone designator, or a neighbouring instant.
func (g *tgen) related(a string) string {
	v, ok := types.ParseTime(context.Background(), a, -1)
	if !ok {
		return a
	}
	t := v.GoTime()
	switch g.r.Intn(6) {
	case 0:
		return a
	case 1: // same instant, other offset
		off := (g.r.Intn(27) - 12) * 3600
		u := t.In(time.FixedZone("", off))
		switch v.(type) {
		case *types.TimeTZ, *types.Time:
			return u.Format("15:04:05.999999999Z07:00")
		default:
			return u.Format("2006-01-02T15:04:05.999999999Z07:00")
		}
	case 2: // same wall clock without zone
		switch v.(type) {
		case *types.TimeTZ, *types.Time:
			return t.Format("15:04:05.999999999")
		case *types.Date:
			return t.Format("2006-01-02T15:04:05")
		default:
			return t.Format("2006-01-02T15:04:05.999999999")
		}
	case 3: // same wall clock with a zone
		switch v.(type) {
		case *types.TimeTZ, *types.Time:
			return t.Format("15:04:05.999999999") + g.tz(false)
		default:
			return t.Format("2006-01-02T15:04:05.999999999") + g.tz(false)
		}
	case 4: // the date of it
		switch v.(type) {
		case *types.TimeTZ, *types.Time:
			return a
		default:
			return t.Format("2006-01-02")
		}
	default: // a nanosecond / second apart
		u := t.Add([]time.Duration{1, -1, time.Second, -time.Second, time.Hour, -time.Hour}[g.r.Intn(6)])
		switch v.(type) {
		case *types.TimeTZ:
			return u.Format("15:04:05.999999999Z07:00")
		case *types.Time:
			return u.Format("15:04:05.999999999")
		case *types.Date, *types.Timestamp:
			return u.Format("2006-01-02T15:04:05.999999999")
		default:
			return u.Format("2006-01-02T15:04:05.999999999Z07:00")
		}
	}
}

// ---------------------------------------------------------------- runner

type timeCase struct {
	ID        any       `json:"id"`
	Op        string    `json:"op"`
	Src       string    `json:"src"`
	A         string    `json:"a"`
	B         string    `json:"b"`
	Precision *int      `json:"precision"`
	Target    string    `json:"target"`
	UseTZ     bool      `json:"usetz"`
	Zone      *zoneSpec `json:"zone"`
	Today     *int64    `json:"today"`
	Kind      string    `json:"kind"`
	Data      []int     `json:"data"`
}

func (c *timeCase) precision() int {
	if c.Precision == nil {
		return -1
	}
	return *c.Precision
}

var castMethods = map[string]string{
	"date": "date", "time": "time", "timetz": "time_tz", "timestamp": "timestamp", "timestamptz": "timestamp_tz",
}

var castPaths = map[string]*path.Path{}

func castPath(target string, precision int) (*path.Path, error) {
	src := "$." + castMethods[target] + "()"
	if precision >= 0 {
		src = fmt.Sprintf("$.%s(%d)", castMethods[target], precision)
	}
	if p, ok := castPaths[src]; ok {
		return p, nil
	}
	p, err := path.Parse(src)
	if err != nil {
		return nil, err
	}
	castPaths[src] = p
	return p, nil
}

func valFields(out J, v types.DateTime) J {
	out["v"] = encItem(v)
	out["str"] = v.String()
	return out
}

func classifyTimeErr(err error) string {
	msg := err.Error()
	switch {
	case strings.Contains(msg, "without time zone usage"):
		return "tzRequired"
	case strings.Contains(msg, "format is not recognized"):
		return "notRecognized"
	}
	return "other: " + msg
}

func runTimeCase(c *timeCase, now time.Time) (out J) {
	out = J{"id": c.ID}
	defer func() {
		if r := recover(); r != nil {
			out = J{"id": c.ID}
			if c.Op == "time.unmarshal" {
				out["out"] = "panic"
			} else {
				out["panic"] = fmt.Sprint(r)
			}
		}
	}()

	ctx := context.Background()
	today := todayOf(now.UTC())
	if c.Zone != nil {
		loc, err := c.Zone.location()
		if err != nil {
			out["skip"] = err.Error()
			return out
		}
		if len(c.Src)%2 == 0 {
			// context noise: the zone of the case overrides a decoy zone carried by the parent
			ctx = types.ContextWithTZ(ctx, time.FixedZone("decoy", 5*3600+45*60))
		}
		ctx = types.ContextWithTZ(ctx, loc)
		today = todayIn(now, loc)
	}
	if c.Today != nil && *c.Today != today && c.Op != "time.unmarshal" {
		out["skip"] = "stale today"
		return out
	}

	switch c.Op {
	case "time.parse":
		v, ok := types.ParseTime(ctx, c.Src, c.precision())
		out["ok"] = ok
		if ok {
			valFields(out, v)
			// the returned value belongs to the caller: writing through it must not change what a
			// second parse of the same text returns
			first := fmt.Sprint(v.String(), " ", fmt.Sprintf("%T", v))
			if u, isU := v.(json.Unmarshaler); isU {
				for _, other := range []string{`"1999-12-31"`, `"01:02:03"`, `"01:02:03+01:00"`, `"1999-12-31T01:02:03"`, `"1999-12-31T01:02:03+01:00"`} {
					if u.UnmarshalJSON([]byte(other)) == nil {
						break
					}
				}
			}
			if w, ok2 := types.ParseTime(ctx, c.Src, c.precision()); !ok2 || fmt.Sprint(w.String(), " ", fmt.Sprintf("%T", w)) != first {
				out["ok"] = false
				out["shared"] = "a second ParseTime of the same text returned a value changed through the first result"
			}
		}
	case "time.cast":
		if _, ok := types.ParseTime(ctx, c.Src, c.precision()); !ok {
			out["err"] = "parse"
			return out
		}
		p, err := castPath(c.Target, c.precision())
		if err != nil {
			out["err"] = "path: " + err.Error()
			return out
		}
		var opts []exec.Option
		if c.UseTZ {
			opts = append(opts, exec.WithTZ())
		}
		res, err := p.Query(ctx, c.Src, opts...)
		if err != nil {
			out["err"] = classifyTimeErr(err)
			return out
		}
		if len(res) != 1 {
			out["err"] = fmt.Sprintf("other: %d results", len(res))
			return out
		}
		v, ok := res[0].(types.DateTime)
		if !ok {
			out["err"] = fmt.Sprintf("other: result %T", res[0])
			return out
		}
		valFields(out, v)
	case "time.compare":
		a, ok1 := types.ParseTime(ctx, c.A, c.precision())
		b, ok2 := types.ParseTime(ctx, c.B, c.precision())
		if !ok1 || !ok2 {
			out["err"] = "parse"
			return out
		}
		cmp, err := execCompareDatetime(ctx, a, b, c.UseTZ)
		if err != nil {
			out["err"] = classifyTimeErr(err)
			return out
		}
		out["cmp"] = cmp
	case "time.unmarshal":
		data := make([]byte, len(c.Data))
		for i, b := range c.Data {
			data[i] = byte(b)
		}
		var v types.DateTime
		var err error
		switch c.Kind {
		case "date":
			x := &types.Date{}
			err, v = x.UnmarshalJSON(data), x
		case "time":
			x := &types.Time{}
			err, v = x.UnmarshalJSON(data), x
		case "timetz":
			x := &types.TimeTZ{}
			err, v = x.UnmarshalJSON(data), x
		case "timestamp":
			x := &types.Timestamp{}
			err, v = x.UnmarshalJSON(data), x
		case "timestamptz":
			x := &types.TimestampTZ{}
			err, v = x.UnmarshalJSON(data), x
		default:
			out["err"] = "badKind"
			return out
		}
		if err != nil {
			out["out"] = "err"
			return out
		}
		out["out"] = "ok"
		valFields(out, v)
	case "time.marshal":
		v, ok := types.ParseTime(ctx, c.Src, c.precision())
		if !ok {
			out["err"] = "parse"
			return out
		}
		b, err := v.(json.Marshaler).MarshalJSON()
		if err != nil {
			out["err"] = "other: " + err.Error()
			return out
		}
		out["json"] = string(b)
	default:
		out["error"] = "unknown op " + c.Op
	}
	return out
}

func runTimeMain(args []string) int {
	fs := flag.NewFlagSet("run-time", flag.ExitOnError)
	in := fs.String("in", "", "input file (JSONL cases)")
	outp := fs.String("out", "", "output file (JSONL results)")
	_ = fs.Parse(args)
	time.Local = time.UTC

	fin := os.Stdin
	if *in != "" {
		var err error
		if fin, err = os.Open(*in); err != nil {
			fmt.Fprintln(os.Stderr, err)
			return 1
		}
		defer fin.Close()
	}
	fout := os.Stdout
	if *outp != "" {
		var err error
		if fout, err = os.Create(*outp); err != nil {
			fmt.Fprintln(os.Stderr, err)
			return 1
		}
		defer fout.Close()
	}
	w := bufio.NewWriterSize(fout, 1<<20)
	defer w.Flush()

	sc := bufio.NewScanner(fin)
	sc.Buffer(make([]byte, 1<<20), 1<<26)
	stale := 0
	for sc.Scan() {
		line := sc.Bytes()
		if len(line) == 0 {
			continue
		}
		var c timeCase
		if err := json.Unmarshal(line, &c); err != nil {
			w.Write(marshal(J{"error": err.Error()}))
			w.WriteByte('\n')
			continue
		}
		res := runTimeCase(&c, time.Now())
		// the clock may have passed midnight of the case's zone while the case ran
		if c.Today != nil && c.Zone != nil && c.Op != "time.unmarshal" {
			if loc, err := c.Zone.location(); err == nil && todayIn(time.Now(), loc) != *c.Today {
				res = J{"id": c.ID, "skip": "stale today"}
			}
		}
		if _, ok := res["skip"]; ok {
			stale++
		}
		w.Write(marshal(res))
		w.WriteByte('\n')
	}
	if stale > 0 {
		fmt.Fprintf(os.Stderr, "run-time: %d cases skipped (stale today or unknown zone)\n", stale)
	}
	return 0
}
