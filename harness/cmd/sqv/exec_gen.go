package main

// Generator of (path, document, variables) triples for the executor streams.
// Every random choice comes from one *rand.Rand seeded by the caller.

import (
	"encoding/json"
	"fmt"
	"math"
	"math/rand"
	"strconv"
	"strings"
)

// profile biases the generator towards the constructs one property is about.
type profile struct {
	name       string
	maxDepth   int
	wArith     int // weight of arithmetic in expressions
	wMethod    int // weight of item methods among accessors
	wSubscript int
	wAny       int // .** and wildcards
	wFilter    int
	wDatetime  int
	wKeyvalue  int
	wRegex     int
	wVar       int
	strictPct  int  // percentage of strict paths
	predPct    int  // percentage of top-level predicate check expressions
	numRepr    int  // 0: float64 docs, 1: json.Number docs, 2: mixed per case
	weird      bool // NaN/Inf floats, out-of-range json.Number, int64 in documents
}

var profiles = map[string]profile{
	"general":   {name: "general", maxDepth: 4, wArith: 3, wMethod: 3, wSubscript: 3, wAny: 3, wFilter: 4, wDatetime: 1, wKeyvalue: 1, wRegex: 1, wVar: 1, strictPct: 40, predPct: 20, numRepr: 2, weird: true},
	"accessor":  {name: "accessor", maxDepth: 4, wArith: 0, wMethod: 0, wSubscript: 4, wAny: 4, wFilter: 3, strictPct: 50, predPct: 0, numRepr: 2},
	"arith":     {name: "arith", maxDepth: 3, wArith: 10, wMethod: 2, wSubscript: 1, wAny: 1, wFilter: 1, strictPct: 40, predPct: 10, numRepr: 2, weird: true},
	"predicate": {name: "predicate", maxDepth: 4, wArith: 1, wMethod: 1, wSubscript: 1, wAny: 1, wFilter: 8, wRegex: 2, wVar: 2, strictPct: 50, predPct: 50, numRepr: 2, weird: true},
	"subscript": {name: "subscript", maxDepth: 3, wArith: 2, wMethod: 0, wSubscript: 12, wAny: 1, wFilter: 1, strictPct: 50, predPct: 0, numRepr: 2},
	"any":       {name: "any", maxDepth: 3, wArith: 0, wMethod: 1, wSubscript: 1, wAny: 12, wFilter: 2, strictPct: 50, predPct: 0, numRepr: 2},
	"method":    {name: "method", maxDepth: 3, wArith: 1, wMethod: 12, wSubscript: 1, wAny: 1, wFilter: 1, wKeyvalue: 2, strictPct: 40, predPct: 5, numRepr: 2, weird: true},
	"datetime":  {name: "datetime", maxDepth: 3, wArith: 0, wMethod: 2, wSubscript: 1, wAny: 1, wFilter: 4, wDatetime: 12, strictPct: 40, predPct: 30, numRepr: 0},
}

type gen struct {
	r                     *rand.Rand
	p                     profile
	keys                  []string // keys used by the current path (documents are generated for them)
	vars                  []string
	strs                  []string // string literals used by the path
	reuseTop, reuseFilter []string // expressions generated so far for this path, by scope
	made                  []any    // containers generated so far for this document
}

var keyPool = []string{"a", "b", "c", "d", "x", "key", "value", "id", "é", "a b"}
var varPool = []string{"v", "w", "n", "s"}
var strPool = []string{"", "a", "ab", "abc", "b", "A", "1", "12", "1.5", "-3", "1e2", "true", "yes", "No", "falſe", "off", " 1", "0x10", "inf", "NaN", "1_0", "1__0", "1_", "0x_1p0", "1e1_0", "0x1p-2", "+Infinity", ".5", "5.", "é", "éa", "z", "2023-08-15", "12:34:56", "12:34:56+05:30", "2023-08-15T12:34:56", "2023-08-15 12:34:56Z", "2023-08-15T12:34:56.789+02"}

var dtStrPool = []string{
	"2023-08-15", "2023-08-16", "1999-12-31", "2000-02-29", "0001-01-01", "9999-12-31",
	"12:34:56", "12:34:56.789", "00:00:00", "23:59:59.999999", "12:34:56.1234567",
	"12:34:56+05:30", "12:34:56-08", "12:34:56Z", "07:04:56+00", "23:59:59.9999-12:00", "00:00:00+14:00",
	"2023-08-15T12:34:56", "2023-08-15 12:34:56", "2023-08-15T12:34:56.789", "2023-08-14T23:59:59.999999",
	"2023-08-15T12:34:56Z", "2023-08-15 12:34:56+05:30", "2023-08-15T12:34:56-08", "2023-08-15T00:00:00+14:00",
	"2023-08-16T01:00:00+13:00", "2023-08-15T12:00:00+00", "2023-08-15T07:00:00-05:00",
	"2023-13-01", "2023-02-30", "24:00:00", "12:34", "2023-08-15T12:34:56+5", "bogus", "",
}

func (g *gen) pick(xs []string) string { return xs[g.r.Intn(len(xs))] }
func (g *gen) pct(n int) bool          { return g.r.Intn(100) < n }

// weighted choice: returns index
func (g *gen) choose(ws ...int) int {
	total := 0
	for _, w := range ws {
		total += w
	}
	if total == 0 {
		return 0
	}
	x := g.r.Intn(total)
	for i, w := range ws {
		if x < w {
			return i
		}
		x -= w
	}
	return len(ws) - 1
}

var intLits = []string{"0", "1", "2", "3", "-1", "10", "2147483647", "2147483648", "-2147483648", "-2147483649", "9223372036854775807", "-9223372036854775807", "9007199254740993", "4611686018427387904", "100", "7"}
var numLits = []string{"0.5", "1.5", "2.5", "-0.5", "1.0", "4.0", "0.1", "1e2", "1e308", "5e-324", "1e21", "1e-7", "3.7", "2.9", "-2.5", "9.007199254740993e15", "9223372036854775808.0", "0.0",
	"0.9999999999", "1.0000000001", "2.9999999999", "-0.9999999999", "1.9999999999999998", "0.49999999999999994", "2147483647.5", "-2147483648.5", "1E2", "1.0E2", "5E-1"}

func quoteStr(s string) string {
	// JSON-style quoting is read back identically by the path lexer for these pools
	b, _ := json.Marshal(s)
	return string(b)
}

func (g *gen) keyText() string {
	k := g.pick(keyPool)
	g.keys = append(g.keys, k)
	if isBareIdent(k) && g.pct(70) {
		return k
	}
	return quoteStr(k)
}

func isBareIdent(s string) bool {
	if s == "" {
		return false
	}
	for i, c := range s {
		if !(c == '_' || (c >= 'a' && c <= 'z') || (c >= 'A' && c <= 'Z') || (i > 0 && c >= '0' && c <= '9')) {
			return false
		}
	}
	switch strings.ToLower(s) {
	case "null", "true", "false", "is", "to", "abs", "lax", "date", "flag", "last", "size", "time", "type", "with", "floor", "bigint", "double", "exists", "number", "starts", "strict", "string", "boolean", "ceiling", "decimal", "integer", "time_tz", "unknown", "datetime", "keyvalue", "timestamp", "like_regex", "timestamp_tz":
		// keywords are fine as keys after '.', keep them bare too
	}
	return true
}

// literal returns a scalar literal
func (g *gen) literal() string {
	switch g.choose(4, 3, 3, 1, 1, 1) {
	case 0:
		return g.pick(intLits)
	case 1:
		return g.pick(numLits)
	case 2:
		s := g.pick(strPool)
		if g.p.wDatetime > 0 && g.pct(50) {
			s = g.pick(dtStrPool)
		}
		g.strs = append(g.strs, s)
		return quoteStr(s)
	case 3:
		return "true"
	case 4:
		return "false"
	default:
		return "null"
	}
}

func (g *gen) variable() string {
	v := g.pick(varPool)
	g.vars = append(g.vars, v)
	return "$" + v
}

type scope struct {
	depth       int  // remaining nesting budget
	inFilter    bool // @ allowed
	inSubscript bool // last allowed
}

// primary: the head of an accessor chain
func (g *gen) primary(sc scope) string {
	ws := []int{10, 0, 0, 3, g.p.wVar}
	if sc.inFilter {
		ws[0], ws[1] = 3, 12
	}
	if sc.inSubscript {
		ws[2] = 6
	}
	switch g.choose(ws...) {
	case 0:
		return "$"
	case 1:
		return "@"
	case 2:
		return "last"
	case 3:
		return g.literal()
	default:
		return g.variable()
	}
}

func (g *gen) subscriptExpr(sc scope) string {
	sc.inSubscript = true
	sc.depth--
	switch g.choose(8, 3, 3, 2, 1) {
	case 0:
		return strconv.Itoa(g.r.Intn(9) - 2)
	case 1:
		return "last"
	case 2:
		return "last - " + strconv.Itoa(g.r.Intn(4))
	case 3:
		if sc.inFilter && g.pct(50) {
			return g.pick([]string{"@." + g.keyText(), "@", "@." + g.keyText() + " - 1", "last - @." + g.keyText(), "@.size() - 1"})
		}
		return g.pick([]string{"0.5", "1.9", "-0.9", "2.5", "1e0", "\"1\"", "null", "2147483648", "-2147483649", "1/0", "$.a", "@", "true",
			"0.9999999999", "1.9999999999", "2.9999999999", "-0.9999999999", "1.0000000001", "last - 0.0000000001", "0.29 * 100 - 27", "$." + g.keyText()})
	default:
		if sc.depth > 0 {
			return g.expr(sc)
		}
		return "0"
	}
}

func (g *gen) subscripts(sc scope) string {
	if g.pct(8) {
		// a list whose later subscript uses `last`, followed (by the caller) by whatever comes next
		return g.pick([]string{"[0, last]", "[0, 1 to last]", "[0, last - 1]", "[last, 0]", "[0 to last, last]"})
	}
	n := 1 + g.choose(6, 3, 1)
	parts := make([]string, n)
	for i := range parts {
		s := g.subscriptExpr(sc)
		if g.pct(30) {
			s += " to " + g.subscriptExpr(sc)
		}
		parts[i] = s
	}
	return "[" + strings.Join(parts, ",") + "]"
}

var simpleMethods = []string{"abs", "size", "type", "floor", "ceiling", "double", "bigint", "boolean", "integer", "number", "string"}

func (g *gen) anyStep() string {
	lv := func() string {
		if g.pct(25) {
			return "last"
		}
		return strconv.Itoa(g.r.Intn(4))
	}
	switch g.choose(4, 3, 3) {
	case 0:
		return ".**"
	case 1:
		return ".**{" + lv() + "}"
	default:
		return ".**{" + lv() + " to " + lv() + "}"
	}
}

// accessor returns one accessor step; afterKV restricts what may follow .keyvalue()
func (g *gen) accessor(sc scope, afterKV bool) (string, bool) {
	if afterKV {
		switch g.choose(3, 3, 1, 1) {
		case 0:
			return ".key", false
		case 1:
			return ".value", false
		case 2:
			return ".type()", false
		default:
			return ".size()", false
		}
	}
	ws := []int{10, 2 + g.p.wAny, 2 + g.p.wAny, g.p.wSubscript * 2, g.p.wAny, g.p.wFilter, g.p.wMethod * 2, g.p.wMethod, g.p.wDatetime, g.p.wKeyvalue}
	if sc.depth <= 0 {
		ws[5] = 0
	}
	switch g.choose(ws...) {
	case 0:
		return "." + g.keyText(), false
	case 1:
		return ".*", false
	case 2:
		return "[*]", false
	case 3:
		return g.subscripts(sc), false
	case 4:
		return g.anyStep(), false
	case 5:
		s := sc
		s.depth--
		s.inFilter = true
		s.inSubscript = false
		return " ? (" + g.predicate(s) + ")", false
	case 6:
		return "." + g.pick(simpleMethods) + "()", false
	case 7:
		// decimal
		ps := []string{"1", "2", "3", "5", "10", "15", "17", "308", "1000", "0", "1001", "-1", "2147483648"}
		ss := []string{"0", "1", "2", "-1", "5", "15", "308", "309", "1000", "-1000", "1001", "-1001", "+2"}
		switch g.choose(1, 3, 3) {
		case 0:
			return ".decimal()", false
		case 1:
			return ".decimal(" + g.pick(ps) + ")", false
		default:
			return ".decimal(" + g.pick(ps) + "," + g.pick(ss) + ")", false
		}
	case 8:
		switch g.choose(4, 2, 2, 2, 2, 2, 1) {
		case 0:
			return ".datetime()", false
		case 1:
			return ".date()", false
		case 2:
			return ".time(" + g.prec() + ")", false
		case 3:
			return ".time_tz(" + g.prec() + ")", false
		case 4:
			return ".timestamp(" + g.prec() + ")", false
		case 5:
			return ".timestamp_tz(" + g.prec() + ")", false
		default:
			return ".datetime(\"HH24:MI\")", false
		}
	default:
		return ".keyvalue()", true
	}
}

func (g *gen) prec() string {
	return g.pick([]string{"", "", "", "0", "1", "3", "6", "7", "9", "2147483648"})
}

func (g *gen) accessorExpr(sc scope) string {
	var head string
	needChain := false
	switch {
	case sc.depth > 0 && g.pct(8):
		s := sc
		s.depth--
		head = "(" + g.expr(s) + ")"
		needChain = true
	case sc.depth > 0 && g.pct(4):
		s := sc
		s.depth--
		head = "(" + g.predicate(s) + ")"
		needChain = true
	default:
		head = g.primary(sc)
	}
	n := g.choose(2, 4, 4, 3, 2, 1)
	if needChain && n == 0 {
		n = 1
	}
	var b strings.Builder
	b.WriteString(head)
	// a parenthesised head that yields keyvalue triples is followed like `.keyvalue()` itself:
	// `.*`/`.id` would hand out the raw, address-derived id as a bare number
	afterKV := strings.HasSuffix(head, ".keyvalue())")
	for i := 0; i < n; i++ {
		var s string
		s, afterKV = g.accessor(sc, afterKV)
		b.WriteString(s)
	}
	return b.String()
}

var arithOps = []string{"+", "-", "*", "/", "%"}

// expr returns an expression; now and then it repeats one generated earlier for the same path
// (the same sub-expression evaluated twice, in a different place, is what a cache keyed too
// coarsely gets wrong).
func (g *gen) expr(sc scope) string {
	pool := &g.reuseTop
	if sc.inFilter {
		pool = &g.reuseFilter
	}
	if !sc.inSubscript {
		if len(*pool) > 0 && g.pct(10) {
			return (*pool)[g.r.Intn(len(*pool))]
		}
	}
	e := g.expr0(sc)
	if !sc.inSubscript && len(e) < 60 {
		*pool = append(*pool, e)
		if !sc.inFilter {
			// an expression without @ is also valid inside a filter
			g.reuseFilter = append(g.reuseFilter, e)
		}
	}
	return e
}

func (g *gen) expr0(sc scope) string {
	if sc.depth > 0 {
		switch g.choose(12, g.p.wArith, g.p.wArith/2+1) {
		case 1:
			s := sc
			s.depth--
			l, r := g.expr(s), g.expr(s)
			if g.pct(30) {
				l = "(" + l + ")"
			}
			if g.pct(30) {
				r = "(" + r + ")"
			}
			return l + " " + g.pick(arithOps) + " " + r
		case 2:
			if g.p.wArith > 0 || g.pct(20) {
				s := sc
				s.depth--
				op := "-"
				if g.pct(30) {
					op = "+"
				}
				e := g.expr(s)
				if g.pct(50) {
					return op + "(" + e + ")"
				}
				return op + e
			}
		}
	}
	return g.accessorExpr(sc)
}

var cmpOps = []string{"==", "!=", "<>", "<", "<=", ">", ">="}
var regexPool = []string{"^a", "b$", "a.c", ".*", "[0-9]+", "^$", "A", "a|b", "(", "\\d", "a.b", "é"}
var flagPool = []string{"", "i", "s", "m", "q", "iq", "is", "ism", "x", "z"}

// contextProbe returns a condition that evaluates something context-changing first (a nested
// filter, a nested subscript, a probing exists, a hard error swallowed by `is unknown`) and reads
// the context (@, last) afterwards.
func (g *gen) contextProbe(sc scope) string {
	k1, k2 := g.keyText(), g.keyText()
	changers := []string{
		"(exists(@." + k1 + " ? (@ == $undef))) is unknown",
		"(@." + k1 + " == $undef) is unknown",
		"exists(@." + k1 + " ? (@ > 0))",
		"exists(@[0]." + k1 + ")",
		"exists(@." + k1 + "[*] ? (@ == @))",
		"(@." + k1 + "[last] == 1) is unknown",
		"!(exists(@." + k1 + "." + k2 + "))",
		"(@." + k1 + ".datetime() < \"2024-01-01\".date()) is unknown",
		"exists(@.keyvalue())",
	}
	readers := []string{"@." + k2 + " == 1", "@." + k2 + " > 0", "exists(@." + k2 + ")", "@.type() == \"object\"", "@ == @", "@." + k2 + " starts with \"a\""}
	op := " && "
	if g.pct(30) {
		op = " || "
	}
	if g.pct(50) {
		return g.pick(changers) + op + g.pick(readers)
	}
	return "(" + g.pick(changers) + ")" + op + "(" + g.pick(readers) + ")"
}

func (g *gen) predicate(sc scope) string {
	if sc.inFilter && g.pct(6) {
		return g.contextProbe(sc)
	}
	s := sc
	s.depth--
	ws := []int{12, 4, 4, 3, 3, 3, 2, g.p.wRegex}
	if sc.depth <= 0 {
		ws[1], ws[2], ws[3], ws[4] = 0, 0, 0, 0
	}
	switch g.choose(ws...) {
	case 0:
		if sc.inFilter && g.pct(10) {
			k := g.keyText()
			anchor := "$"
			if g.pct(30) {
				anchor = g.variable()
			}
			return "@." + g.keyText() + " " + g.pick(cmpOps) + " " + anchor + "." + k + "[@." + g.keyText() + "]"
		}
		return g.expr(s) + " " + g.pick(cmpOps) + " " + g.expr(s)
	case 1:
		return g.predOperand(s) + " && " + g.predOperand(s)
	case 2:
		return g.predOperand(s) + " || " + g.predOperand(s)
	case 3:
		return "!(" + g.predicate(s) + ")"
	case 4:
		return "(" + g.predicate(s) + ") is unknown"
	case 5:
		return "exists (" + g.expr(s) + ")"
	case 6:
		var init string
		if g.pct(80) {
			t := g.pick(strPool)
			g.strs = append(g.strs, t)
			init = quoteStr(t)
		} else {
			init = g.variable()
		}
		return g.expr(s) + " starts with " + init
	default:
		f := g.pick(flagPool)
		p := g.pick(regexPool)
		out := g.expr(s) + " like_regex " + quoteStr(p)
		if f != "" {
			out += " flag " + quoteStr(f)
		}
		return out
	}
}

func (g *gen) predOperand(sc scope) string {
	p := g.predicate(sc)
	if g.pct(40) {
		return "(" + p + ")"
	}
	return p
}

// path returns the text of a random path.
func (g *gen) path() string {
	g.keys, g.vars, g.strs = nil, nil, nil
	g.reuseTop, g.reuseFilter = nil, nil
	sc := scope{depth: 1 + g.r.Intn(g.p.maxDepth)}
	var body string
	if g.pct(g.p.predPct) {
		body = g.predicate(sc)
	} else {
		body = g.expr(sc)
	}
	if g.pct(g.p.strictPct) {
		return "strict " + body
	}
	if g.pct(10) {
		return "lax " + body
	}
	return body
}

// ---- documents -------------------------------------------------------------

var floatPool = []float64{0, 1, -1, 2, 3, 10, 0.5, 1.5, 2.5, -2.5, -0.5, 3.7, 1e2, 0.9999999999, 1.0000000001, 2.9999999999, -0.9999999999, 0.49999999999999994, 2147483647.5, 2147483647, 2147483648, -2147483648, -2147483649,
	9007199254740992, 9007199254740993, 9223372036854775807, 9223372036854775808, -9223372036854775808, 1e19, 1e21, 1e308, 5e-324, 1e-7, 0.1, 100, 7, 4611686018427387904}
var jnumPool = []string{"0", "1", "-1", "2", "3", "10", "0.5", "1.5", "2.5", "-2.5", "1e2", "1E2", "1E+2", "-1E3", "5E-1", "1.0E2", "1e+2", "0.0", "-0.0", "2.9999999999", "0.9999999999", "1.50", "100e-2", "2147483647", "2147483648", "-2147483649",
	"9007199254740993", "9223372036854775807", "9223372036854775808", "-9223372036854775808", "-9223372036854775809", "1e19", "1e308", "5e-324", "1e-7", "0.1", "100", "1.0", "-0", "4611686018427387904", "12345678901234567890"}
var jnumWeird = []string{"1e400", "-1e400", "1e-400", "1e999999", "123456789012345678901234567890", bigDigits, "-" + bigDigits, bigDigits + ".5", longMantissaE, "-" + longMantissaE, digits309, "-" + digits309, maxFloatDigits}

func (g *gen) number(repr int) any {
	if g.p.weird && g.pct(3) {
		switch g.r.Intn(4) {
		case 0:
			return g.pick(jnumWeirdAsNumber())
		case 1:
			return math.NaN()
		case 2:
			return math.Inf(1 - 2*g.r.Intn(2))
		default:
			return int64(g.r.Intn(7) - 3)
		}
	}
	if repr == 1 {
		return json.Number(g.pick(jnumPool))
	}
	if g.pct(25) {
		return float64(g.r.Intn(12) - 3)
	}
	return floatPool[g.r.Intn(len(floatPool))]
}

func jnumWeirdAsNumber() []string { return jnumWeird }

func (g *gen) pickNumWeird() any { return json.Number(g.pick(jnumWeird)) }

// exoticPool: values that earlier rounds showed to matter in one position or another (number texts
// that are not canonical, the limits of int64 / int32 / float64, look-alike strings, datetimes with
// nine fractional digits, one-element and empty containers). One scalar in twelve is drawn from it,
// whatever the position, so that such a value meets every operator, method and subscript now and then.
var exoticPool = []any{
	json.Number("1.50"), json.Number("0.2e1"), json.Number("1E2"), json.Number("30.0e-1"), json.Number("-0"), json.Number("1e400"), json.Number("-1E+999"), json.Number(digits309),
	json.Number("9007199254740993"), json.Number("-9223372036854775808.0"), json.Number("2147483647.5"), json.Number("12345678901234567890"), json.Number("0.10"), json.Number("1e-400"),
	int64(math.MaxInt64), int64(math.MinInt64), int64(9007199254740993), int64(2147483648), int64(-2147483649), int64(0),
	2147483647.5, -0.5, 1e308, -1e308, 5e-324, 9007199254740992.0, 0.1, 1e21, 123456789.125,
	"\\U0001f600", "a\\Eb", "000123", " 12", "12:34:56.123456789+01:00", "2024-03-10T02:30:00", "2023-11-05T04:30:00Z", "23:59:59.9999995", "2024-01-01T12:34:56.1234567", "ab", "abc",
	[]any{}, []any{float64(1)}, []any{"ab"}, []any{[]any{float64(7)}, []any{}}, map[string]any{}, []any{json.Number("1")},
}

func (g *gen) scalar(repr int) any {
	if g.pct(8) {
		return deepCopy(exoticPool[g.r.Intn(len(exoticPool))])
	}
	switch g.choose(6, 4, 1, 1, 1) {
	case 0:
		n := g.number(repr)
		if s, ok := n.(string); ok {
			return json.Number(s)
		}
		return n
	case 1:
		if g.p.wDatetime > 0 && g.pct(70) {
			return g.pick(dtStrPool)
		}
		return g.pick(strPool)
	case 2:
		return true
	case 3:
		return false
	default:
		return nil
	}
}

func (g *gen) value(depth int, repr int) any {
	if depth <= 0 {
		return g.scalar(repr)
	}
	// now and then the same subtree again (as an equal copy; the stream aliases equal containers
	// in half of the groups, so that one container is reachable from two positions)
	if len(g.made) > 0 && g.pct(12) {
		return deepCopy(g.made[g.r.Intn(len(g.made))])
	}
	var out any
	switch g.choose(5, 4, 4) {
	case 0:
		return g.scalar(repr)
	case 1:
		n := g.choose(2, 3, 4, 3, 1)
		arr := make([]any, n)
		for i := range arr {
			arr[i] = g.value(depth-1, repr)
		}
		out = arr
	default:
		out = g.object(depth, repr)
	}
	g.made = append(g.made, out)
	return out
}

func (g *gen) object(depth int, repr int) any {
	n := g.choose(1, 3, 4, 2)
	obj := make(map[string]any, n)
	for i := 0; i < n; i++ {
		var k string
		if len(g.keys) > 0 && g.pct(75) {
			k = g.pick(g.keys)
		} else {
			k = g.pick(keyPool)
		}
		obj[k] = g.value(depth-1, repr)
	}
	return obj
}

// document returns a document and variables generated for the current path.
func (g *gen) document() (any, map[string]any, int) {
	repr := g.p.numRepr
	if repr == 2 {
		repr = g.r.Intn(2)
	}
	g.made = nil
	doc := g.value(1+g.r.Intn(3), repr)
	var vars map[string]any
	if len(g.vars) > 0 || g.pct(5) {
		vars = map[string]any{}
		for _, v := range g.vars {
			if g.pct(85) {
				vars[v] = g.value(g.r.Intn(2), repr)
			}
		}
	}
	return doc, vars, repr
}

// collectStrings gathers every string scalar of v into out.
func collectStrings(v any, out map[string]bool) {
	switch v := v.(type) {
	case string:
		out[v] = true
	case json.Number:
		out[string(v)] = true // what .string() gives for it
	case float64:
		out[strconv.FormatFloat(v, 'g', -1, 64)] = true
	case int64:
		out[strconv.FormatInt(v, 10)] = true
	case []any:
		for _, x := range v {
			collectStrings(x, out)
		}
	case map[string]any:
		for k, x := range v {
			out[k] = true
			collectStrings(x, out)
		}
	}
}

func describe(v any) string { return fmt.Sprintf("%v", v) }
