// Empty assembly file: lets the package declare body-less functions bound with go:linkname (time_stream.go).
