package main

// Replay of the witnesses recorded in known_findings.json: a witness names the
// defective behaviour; it STILL-FAILS while the real code shows it.

import (
	"encoding/json"
	"fmt"
	"reflect"
)

func init() {
	// {"kind":"exec","path":…,"doc":wire,"vars":wire|null,"entry":…,"silent":b,"usetz":b,"zoneid":…,"defect":result}
	witnessFns["exec"] = func(w map[string]any) bool {
		in := inputFromCase(w)
		if in == nil {
			return false
		}
		entry, _ := w["entry"].(string)
		silent, _ := w["silent"].(bool)
		c := &execCase{Entry: entry, Silent: silent, UseTZ: in.usetz, ZoneID: in.zoneID}
		got := runExec(in.p, in.doc, in.vars, c)
		delete(got, "panic")
		var gotN, wantN any
		b, _ := json.Marshal(got)
		_ = json.Unmarshal(b, &gotN)
		b, _ = json.Marshal(w["defect"])
		_ = json.Unmarshal(b, &wantN)
		if !reflect.DeepEqual(gotN, wantN) {
			fmt.Println("got:", string(marshal(got)))
			return false
		}
		return true
	}
	// {"kind":"unstable-ids","path":…,"doc":wire,"vars":wire|null}: the keyvalue ids of repeated executions differ
	witnessFns["unstable-ids"] = func(w map[string]any) bool {
		in := inputFromCase(w)
		if in == nil {
			return false
		}
		c := &execCase{Entry: "query", ZoneID: "UTC"}
		first := rawKVIDs(in.p, in.doc, in.vars, c)
		for i := 0; i < 6; i++ {
			if !reflect.DeepEqual(first, rawKVIDs(in.p, in.doc, in.vars, c)) {
				return true
			}
		}
		return false
	}
	// {"kind":"print","text":…,"printed":…}: Parse(text).String() == printed (the defective text)
	witnessFns["print"] = func(w map[string]any) bool {
		text, _ := w["text"].(string)
		printed, _ := w["printed"].(string)
		p, err := parseNoPanic(text)
		if err != nil || p == nil {
			return false
		}
		return p.String() == printed
	}
}
