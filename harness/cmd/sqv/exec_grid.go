package main

// Deterministic small-scope grids for the executor streams (profile names
// "grid-…"): each enumerates a finite space named by a property completely; a
// run takes a seed-dependent sample of n groups of it (thorough runs take all).

import (
	"encoding/json"
	"fmt"
	"math"
	"math/rand"
	"strconv"
	"strings"
)

type group struct {
	text string
	doc  any
	vars map[string]any
}

var gridNames = map[string]func() []group{
	"grid-arith":     gridArith,
	"grid-compare":   gridCompare,
	"grid-subscript": gridSubscript,
	"grid-method":    gridMethod,
	"grid-any":       gridAny,
	"grid-kleene":    gridKleene,
	"grid-context":   gridContext,
	"grid-fail":      gridFail,
	"grid-cancel":    gridCancel,
	"grid-underany":  gridUnderAny,
	"grid-datetime":  gridDatetime,
	"grid-regex":     gridRegex,
	"grid-interact":  gridInteract,
	"grid-big":       gridBig,
	"grid-bigcore":   gridBigCore,
	"grid-bigpoll":   gridBigPoll,
}

func isGrid(name string) bool { _, ok := gridNames[name]; return ok }

// gridSample returns n groups of the grid, chosen by seed (all of it when n <= 0 or n >= len).
func gridSample(name string, seed int64, n int) []group {
	all := gridNames[name]()
	if n <= 0 || n >= len(all) {
		return all
	}
	r := rand.New(rand.NewSource(seed))
	r.Shuffle(len(all), func(i, j int) { all[i], all[j] = all[j], all[i] })
	return all[:n]
}

var gridNums = []string{"0", "1", "-1", "2", "3", "7", "-7", "10", "2147483647", "2147483648", "-2147483648", "-2147483649",
	"4611686018427387904", "9007199254740992", "9007199254740993", "9223372036854775807", "-9223372036854775808",
	"0.5", "1.5", "2.5", "-2.5", "-0.5", "0.1", "3.7", "1e19", "1e308", "5e-324", "1e-7", "9223372036854775808", "1e21",
	"0.9999999999", "2.9999999999", "1E2", "-1E3", "5E-1", "1.0E2", "-0", "0.0", "1e400",
	bigDigits, "-" + bigDigits, "1e-400", "123456789012345678901234567890", "0.0000000000000000000000000000001", digits309, "-" + digits309, maxFloatDigits, digits309 + "0", maxFloatDigits + ".9"}

// longMantissaE: out of float64 range through a long mantissa and a short exponent.
var longMantissaE = "1" + strings.Repeat("0", 250) + "e99"

// bigDigits is a syntactically valid JSON number without exponent that is outside float64 range.
var bigDigits = "1" + strings.Repeat("0", 400)

// digits309 has as many digits as MaxFloat64 written in full and is beyond it; maxFloatDigits is MaxFloat64 itself.
var digits309 = "2" + strings.Repeat("0", 308)
var maxFloatDigits = strconv.FormatFloat(math.MaxFloat64, 'f', -1, 64)

func numReprs(text string) []any {
	var out []any
	if i, err := strconv.ParseInt(text, 10, 64); err == nil {
		out = append(out, i)
	}
	if f, err := strconv.ParseFloat(text, 64); err == nil {
		out = append(out, f)
	}
	out = append(out, json.Number(text))
	return out
}

func gridArith() []group {
	var gs []group
	ops := []string{"+", "-", "*", "/", "%"}
	for _, a := range gridNums {
		for _, va := range numReprs(a) {
			vars := map[string]any{"a": va}
			for _, u := range []string{"-$a", "+$a", "-(-$a)", "(-$a).abs()", "$a.abs()", "$a.floor()", "$a.ceiling()", "-$a.abs()"} {
				gs = append(gs, group{u, nil, vars})
			}
			for _, b := range gridNums {
				for _, vb := range numReprs(b) {
					for _, op := range ops {
						gs = append(gs, group{"$a " + op + " $b", nil, map[string]any{"a": va, "b": vb}})
					}
				}
			}
		}
	}
	// operands that are sequences / non-numbers / documents
	docs := []any{[]any{float64(1)}, []any{float64(1), float64(2)}, []any{}, "a", nil, map[string]any{"a": float64(1)}, []any{[]any{float64(1)}}, []any{"x"},
		// several array items whose elements add up to one number (lax unwrapping on either side)
		[]any{[]any{float64(7)}, []any{}}, []any{[]any{}, []any{float64(7)}, []any{}}, []any{[]any{}, []any{}}, []any{[]any{float64(7)}, []any{float64(8)}}, []any{[]any{json.Number("7")}, []any{}}, []any{[]any{int64(7)}, []any{}, "x"}}
	for _, d := range docs {
		for _, mode := range []string{"", "strict "} {
			for _, t := range []string{"$ + 1", "1 + $", "$[*] * 2", "2 * $[*]", "-$", "+$[*]", "-$[*]", "$ / 0", "1 % $", "($ + 1).abs()", "$.a + $.a", "-$.a", "1 + $[*]", "$[*] + 1", "$[*] - $[*]", "10 % $[*]", "$[*] / 2", "2 / $[*]"} {
				gs = append(gs, group{mode + t, d, nil})
			}
		}
	}
	return gs
}

func gridCompare() []group {
	var vals []any
	for _, t := range []string{"0", "1", "-1", "2", "1.5", "9007199254740992", "9007199254740993", "9223372036854775807", "9223372036854775808", "-9223372036854775808", "1e400", "0.1", "-0", "1E2", "100",
		bigDigits, "-" + bigDigits, "123456789012345678901234567890", bigDigits + ".5", longMantissaE, "-" + longMantissaE, strings.Repeat("9", 300) + "e9", "0." + strings.Repeat("0", 300) + "1e-99", "-5", "-20", "-100", "1E2",
		digits309, "-" + digits309, maxFloatDigits, "1.5E-3"} {
		vals = append(vals, numReprs(t)...)
	}
	for _, s := range []string{"", "a", "ab", "b", "A", "é", "z", "10", "9", "a\u0000"} {
		vals = append(vals, s)
	}
	vals = append(vals, true, false, nil, []any{}, []any{float64(1)}, []any{float64(1), "a"}, map[string]any{}, map[string]any{"a": float64(1)})
	ops := []string{"==", "!=", "<", "<=", ">", ">="}
	var gs []group
	for _, a := range vals {
		for _, b := range vals {
			for _, op := range ops {
				gs = append(gs, group{"$a " + op + " $b", nil, map[string]any{"a": a, "b": b}})
			}
			gs = append(gs, group{"strict $a[*] == $b[*]", nil, map[string]any{"a": a, "b": b}})
			gs = append(gs, group{"$a[*] < $b", nil, map[string]any{"a": a, "b": b}})
			if s, ok := b.(string); ok {
				gs = append(gs, group{"$a starts with " + quoteStr(s), nil, map[string]any{"a": a}})
				gs = append(gs, group{"$a starts with $b", nil, map[string]any{"a": a, "b": b}})
			}
		}
	}
	strs := []string{"", "a", "abc", "ABC", "a\nb", "a.c", "aXc", "é"}
	pats := [][2]string{{"^a", ""}, {"a.c", ""}, {"a.c", "q"}, {"abc", "i"}, {"^b", "m"}, {"a.b", "s"}, {"A", "iq"}, {"", ""}, {"é", ""}}
	for _, s := range strs {
		for _, p := range pats {
			t := "$ like_regex " + quoteStr(p[0])
			if p[1] != "" {
				t += " flag " + quoteStr(p[1])
			}
			gs = append(gs, group{t, s, nil}, group{t, []any{s, float64(1), "abc"}, nil}, group{"strict " + t, []any{float64(1), s}, nil})
		}
	}
	return gs
}

func gridSubscript() []group {
	alphabet := []any{nil, float64(1), "a", []any{float64(2)}, map[string]any{"a": float64(3)}}
	var arrays []any
	var build func(prefix []any, n int)
	build = func(prefix []any, n int) {
		if len(prefix) == n {
			arrays = append(arrays, append([]any{}, prefix...))
			return
		}
		for _, x := range alphabet {
			build(append(prefix, x), n)
		}
	}
	for n := 0; n <= 3; n++ {
		build(nil, n)
	}
	arrays = append(arrays, []any{float64(10), float64(20), float64(30), float64(40)}, []any{map[string]any{"a": float64(1)}, map[string]any{"a": float64(2)}, map[string]any{"a": float64(3)}})
	nonArrays := []any{float64(7), "s", nil, map[string]any{"a": map[string]any{"b": float64(1)}}, true}
	var subs []string
	bounds := []string{"-2", "-1", "0", "1", "2", "3", "4", "6", "last", "last - 1", "last + 1", "last - 5",
		"0.9999999999", "1.9999999999", "2.9999999999", "-0.9999999999", "0.5", "1.5", "-0.5", "1.0000000001", "2147483648", "-2147483649", "\"1\"", "null", "1e0", "1 + 1"}
	for _, b := range bounds {
		subs = append(subs, b)
	}
	small := []string{"-1", "0", "1", "2", "5", "last", "last - 1", "1.9999999999"}
	for _, a := range small {
		for _, b := range small {
			subs = append(subs, a+" to "+b, a+", "+b)
		}
	}
	subs = append(subs, "0, last", "0, 1 to last", "0, -1, last", "last, 0", "0 to last, last - 1", "*")
	follows := []string{"", ".a", " ? (exists(@[0].a))", " ? (exists(@.a))", "[0]", "[last]", ".type()", " ? (@ == 1)"}
	var gs []group
	for _, s := range subs {
		for _, mode := range []string{"", "strict "} {
			for fi, f := range follows {
				for ai, a := range arrays {
					if fi > 0 && ai%7 != 0 { // the follow-ups on a thinner set of arrays
						continue
					}
					gs = append(gs, group{mode + "$[" + s + "]" + f, a, nil})
				}
				for _, d := range nonArrays {
					gs = append(gs, group{mode + "$[" + s + "]" + f, d, nil}, group{mode + "$.a[" + s + "]" + f, d, nil})
				}
			}
		}
	}
	// bounds that arrive as values (variable or document member) in every number representation,
	// around the int32 limits and around integers
	four := []any{float64(10), float64(20), float64(30), float64(40)}
	for _, t := range []string{"2147483647", "2147483647.5", "2147483647.4", "2147483648", "2147483648.5", "-2147483648", "-2147483648.5", "-2147483648.9", "-2147483649", "-2147483649.5",
		"0", "1", "1.9", "0.5", "-0.5", "-0.9999999999", "2.9999999999", "1e0", "1E0", "3", "4", "1e400", "-1e400", bigDigits, "9223372036854775808",
		"0.2e1", "1.5e1", "30.0e-1", "0.275E1", "2.75", "3e0", "25e-1", "0.1e1", "10.0e-1", "0.03e2", "-0.5e0", "-5.0e-1", "1.0", "2.0e0", "00.2e1"} {
		for _, v := range numReprs(t) {
			vars := map[string]any{"b": v}
			doc := map[string]any{"a": four, "b": v}
			for _, mode := range []string{"", "strict "} {
				for _, sub := range []string{"$b", "$b to 0", "0 to $b", "1 to $b", "$b to last", "$b, last", "last, $b"} {
					gs = append(gs, group{mode + "$.a[" + sub + "]", doc, vars}, group{mode + "$.a[" + strings.ReplaceAll(sub, "$b", "$.b") + "]", doc, nil})
				}
			}
		}
	}
	// `last` read inside a filter that hangs off another primary within the subscript
	lastDocs := []any{[]any{[]any{float64(10), float64(20), float64(30)}, []any{float64(40), float64(50), float64(60)}}, map[string]any{"a": []any{"p", "q", "r"}, "k": float64(2), "o": []any{"first", "second"}},
		[]any{float64(0), float64(1), float64(2)}, map[string]any{"a": []any{"p", "q"}, "k": []any{float64(0), float64(1), float64(5)}, "o": []any{"x", "y", "z"}}}
	lastVars := map[string]any{"opts": []any{float64(0), float64(1), float64(2)}, "i": float64(1)}
	for _, t := range []string{"$[0 to last][$opts[*] ? (@ == last)]", "$[*][$opts[*] ? (@ == last)]", "$.a[$.k ? (@ <= last)]", "$.a[$i ? (@ <= last)]", "$[$[*] ? (@ == last)]", "$.a[$.k[*] ? (@ == last)]",
		"$.o[last, $.a[$.k[*] ? (@ == last)]]", "$.a[(1) ? (@ < last)]", "$.a[$opts[*] ? (@ == last - 1)]", "$[last][$opts[*] ? (@ < last) ? (@ > 0)]", "$.a[last ? (@ == 2)]", "$.a[$.k ? (exists(@ ? (@ == last)))]"} {
		for _, d := range lastDocs {
			for _, mode := range []string{"", "strict "} {
				gs = append(gs, group{mode + t, d, lastVars})
			}
		}
	}
	return gs
}

func gridMethod() []group {
	var vals []any
	for _, t := range append([]string{"2147483647.4", "2147483647.5", "-2147483648.5", "-2147483648.4", "9223372036854775807.4", "0.49999999999999994", "-0.5", "123.456", "99.99", "99.999", "100", "1e-400"}, gridNums...) {
		vals = append(vals, numReprs(t)...)
		vals = append(vals, t) // string form
	}
	for _, s := range []string{"true", "T", "tRuE", "yes", "y", "on", "1", "false", "f", "no", "n", "off", "0", "falſe", "yeſ", "tru", "o", "2", "", " true", "1_0", "0x10", "0x1p-2", "inf", "-Infinity", "NaN", "+1", "1e2", "abc", "2023-08-15",
		"000000000123", "0000000000000000000042", "-000000000001", "010", "09", "0644", "+5", " 5", "5 ", "00", "-0", "0000000002147483648", "000000000000000000009223372036854775807"} {
		vals = append(vals, s)
	}
	vals = append(vals, true, false, nil, []any{float64(1), "2"}, []any{}, map[string]any{"b": float64(2), "a": float64(1)}, map[string]any{})
	methods := []string{"type()", "size()", "double()", "number()", "integer()", "bigint()", "boolean()", "string()", "abs()", "floor()", "ceiling()", "keyvalue()", "decimal()"}
	var gs []group
	for _, v := range vals {
		for _, m := range methods {
			for _, mode := range []string{"", "strict "} {
				gs = append(gs, group{mode + "$." + m, v, nil})
			}
		}
		gs = append(gs, group{"$.string().double()", v, nil}, group{"$.string().bigint()", v, nil}, group{"$.string().boolean()", v, nil}, group{"$.double().string()", v, nil})
		gs = append(gs, group{"$ ? (@.string() starts with \"1\")", v, nil}, group{"$[*] ? (@.string() like_regex \"0$\")", []any{v, v}, nil}, group{"$ ? (@.string() == $.string())", v, nil},
			group{"strict $ ? (@.string().double() == @.double())", v, nil})
	}
	ps := []int{1, 2, 3, 5, 15, 16, 17, 308, 309, 1000, 0, 1001, -1}
	ss := []int{-1000, -309, -308, -2, -1, 0, 1, 2, 15, 308, 309, 1000, 1001, -1001}
	dvals := []any{float64(0), float64(1), float64(100), float64(123.456), float64(99.99), float64(99.999), float64(-5.5), float64(1e20), float64(1e-7), json.Number("12345.678"), "77.7", int64(42)}
	// datetime items printed by .string(): every fractional digit the item has (up to nine) is printed
	for _, v := range []any{"12:34:56.1234567+01:00", "12:34:56.123456789+01:00", "00:00:00.000000001+14:00", "23:59:59.999999999-12:00", "12:34:56.12345678", "12:34:56.000000001",
		"2024-01-01T12:34:56.123456789+01:00", "2024-01-01T12:34:56.1234567", "2024-01-01 12:34:56.999999999Z", "2024-01-01", "12:34:56.1+05:30", "12:34:56.120000000+05:30"} {
		for _, m := range []string{"time_tz()", "time()", "timestamp()", "timestamp_tz()", "datetime()", "date()"} {
			gs = append(gs, group{"$." + m + ".string()", v, nil}, group{"$." + m + ".string()." + m + " == $." + m, v, nil}, group{"$." + m + ".string().datetime() == $.datetime()", v, nil})
		}
	}
	// scales at which math.Pow10 is not the double nearest to 10^s (it multiplies two table entries), with operands k * 10^-s
	for _, sc := range []int{22, 23, 24, 33, 34, 37, 39, 45, 49, 57, 64, 100, 150, 200, 250, 300, 307, -22, -23, -24, -25, -26, -28, -33, -64, -100, -200, -300, -307, -308} {
		for _, k := range []string{"1", "2", "3", "7", "1.5", "9.99"} {
			f, _ := strconv.ParseFloat(fmt.Sprintf("%se%d", k, -sc), 64)
			gs = append(gs, group{fmt.Sprintf("$.decimal(1000,%d)", sc), f, nil}, group{fmt.Sprintf("$.decimal(1000,%d)", sc), json.Number(fmt.Sprintf("%se%d", k, -sc)), nil})
		}
	}
	// the largest doubles at negative scales (rounding up leaves the range), integers beyond 2^53 at negative scales
	for _, v := range []any{math.MaxFloat64, -math.MaxFloat64, 1.7e308, 1e308, int64(-9007199254750960), int64(9007199254750960), int64(-9223372036854775807), int64(9223372036854775807), int64(-9007199254740993), json.Number("-9007199254750960")} {
		for _, sc := range []int{-308, -307, -306, -304, -299, -298, -294, -293, -290, -100, -18, -5, -2, -1} {
			gs = append(gs, group{fmt.Sprintf("$.decimal(1000,%d)", sc), v, nil})
		}
	}
	// scales at which value * 10^scale leaves the float64 range (the value has no digits there: unchanged)
	for _, v := range []any{1e300, 1e10, 12345.5, float64(2), -1.75, 1e-300, float64(0), 5e-324, json.Number("1e300"), int64(9007199254740993), "1.5e200"} {
		for _, ps := range [][2]int{{1000, 10}, {1000, 300}, {400, 308}, {1000, 308}, {1000, 307}, {10, -300}, {1000, -308}, {1000, 52}, {1000, 53}} {
			gs = append(gs, group{fmt.Sprintf("$.decimal(%d,%d)", ps[0], ps[1]), v, nil})
		}
	}
	for _, p := range ps {
		for _, v := range dvals {
			gs = append(gs, group{fmt.Sprintf("$.decimal(%d)", p), v, nil})
			for _, sc := range ss {
				gs = append(gs, group{fmt.Sprintf("$.decimal(%d,%d)", p, sc), v, nil})
			}
		}
	}
	// the same values bound to a variable: the head of the chain is `$x`, not `$`
	for _, v := range vals {
		vars := map[string]any{"x": v}
		for _, t := range []string{"$x", "$x.string()", "$x.type()", "$x.double()", "$x.number().string()", "$x.string() ? (@ like_regex \"0$\")", "$x == $", "strict $x.size()"} {
			gs = append(gs, group{t, v, vars})
		}
	}
	kvVars := map[string]any{"x": map[string]any{"b": map[string]any{"c": float64(1)}, "a": []any{float64(1)}}, "y": map[string]any{"k": float64(1)}}
	for _, t := range []string{"$x.keyvalue()", "$x.b.keyvalue()", "$x.keyvalue().value", "$y.keyvalue()", "$x.keyvalue().key", "$ ? (exists($y.keyvalue())).keyvalue()", "$x.a[*].keyvalue()", "$x.*.keyvalue()"} {
		gs = append(gs, group{t, map[string]any{"d": float64(1)}, kvVars}, group{"strict " + t, map[string]any{"d": float64(1)}, kvVars})
	}
	// keyvalue
	objs := []any{map[string]any{"a": float64(1)}, map[string]any{"b": map[string]any{"c": float64(1)}, "a": []any{float64(1)}}, []any{map[string]any{"x": float64(1)}, map[string]any{"y": float64(2), "x": float64(3)}}}
	for _, o := range objs {
		for _, t := range []string{"$.keyvalue()", "$.keyvalue().key", "$.keyvalue().value", "$[*].keyvalue().key", "$.keyvalue().value.keyvalue().key", "strict $.keyvalue()", "$.keyvalue() ? (@.key == \"a\").value", "$.keyvalue().size()"} {
			gs = append(gs, group{t, o, nil})
		}
	}
	return gs
}

func gridAny() []group {
	leaves := []any{float64(1), "a", nil}
	var trees []any
	var gen func(d int) []any
	gen = func(d int) []any {
		out := append([]any{}, leaves...)
		if d == 0 {
			return out
		}
		sub := gen(d - 1)
		out = append(out, []any{}, map[string]any{})
		for i, x := range sub {
			out = append(out, []any{x}, map[string]any{"a": x})
			if i%3 == 0 {
				for j, y := range sub {
					if j%4 == 1 {
						out = append(out, []any{x, y}, map[string]any{"a": x, "b": y})
					}
				}
			}
		}
		return out
	}
	trees = gen(2)
	// leaves that are json.Numbers, some of them beyond the float64 range (they are scalars all the same)
	jbig, jneg := json.Number("1e400"), json.Number("-1E+999")
	trees = append(trees, jbig, []any{jbig}, map[string]any{"a": jbig}, []any{json.Number("1"), jbig, json.Number("2.5"), "x", jneg},
		map[string]any{"a": jbig, "b": []any{jneg, float64(1)}}, []any{[]any{jbig}, map[string]any{"a": jneg}}, []any{json.Number("12345678901234567890"), json.Number("1.50")})
	var accs []string
	for _, a := range []string{".**", ".**{0}", ".**{1}", ".**{2}", ".**{3}", ".**{0 to 1}", ".**{1 to 2}", ".**{2 to 4}", ".**{1 to last}", ".**{0 to last}", ".**{last}", ".**{last to last}", ".**{2 to 1}", ".*", "[*]", ".*.*", "[*][*]", ".*[*]",
		".**{2147483647 to last}", ".**{2147483646 to last}", ".**{2147483647}", ".**{0 to 2147483647}", ".**{0x7fffffff to last}", ".**{1 to 2147483647}"} {
		accs = append(accs, a)
	}
	follows := []string{"", ".a", ".*", "[*]", "[0]", ".type()", " ? (@ == 1)", ".b"}
	var gs []group
	for ti, t := range trees {
		for _, a := range accs {
			for _, mode := range []string{"", "strict "} {
				for fi, f := range follows {
					if fi > 0 && ti%5 != 0 {
						continue
					}
					gs = append(gs, group{mode + "$" + a + f, t, nil})
				}
			}
		}
	}
	return gs
}

func gridKleene() []group {
	operand := []string{"(1 == 1)", "(1 == 2)", "(1 == \"a\")", "($missing == 1)", "(@.a == 1)", "exists(@.a)", "(@.a > 0 && @.b > 0)", "(@.a starts with \"x\")",
		"(@.a like_regex \"^x\")", "(\"abc\" like_regex \"^x\")", "(\"xa\" like_regex \"^x\")"}
	docs := []any{map[string]any{"a": float64(1), "b": float64(2)}, map[string]any{"a": "x"}, map[string]any{}, float64(1), []any{map[string]any{"a": float64(1)}, map[string]any{"a": float64(0)}}}
	var gs []group
	for _, a := range operand {
		for _, mode := range []string{"", "strict "} {
			for _, d := range docs {
				for _, t := range []string{"!" + a, a + " is unknown", "!(" + a + " is unknown)", "!(!" + a + ")"} {
					gs = append(gs, group{mode + strings.ReplaceAll(t, "@", "$"), d, nil}, group{mode + "$ ? (" + t + ")", d, nil}, group{mode + "$[*] ? (" + t + ").a", d, nil})
				}
				for _, b := range operand {
					for _, op := range []string{" && ", " || "} {
						t := a + op + b
						gs = append(gs, group{mode + strings.ReplaceAll(t, "@", "$"), d, nil}, group{mode + "$ ? (" + t + ")", d, nil})
						gs = append(gs, group{mode + "$ ? (!(" + t + "))", d, nil}, group{mode + "$ ? ((" + t + ") is unknown)", d, nil})
					}
				}
			}
		}
	}
	// exists(e) where e ends in a step after a datetime method or .keyvalue(): the step decides, not the method
	edocs := []any{map[string]any{"d": "2024-05-01", "o": map[string]any{"a": float64(5), "b": float64(1)}}, map[string]any{"d": "x", "o": map[string]any{"a": float64(1), "b": float64(5)}},
		map[string]any{"d": []any{"2024-05-01", "2031-06-30"}, "o": map[string]any{"a": float64(5)}}, map[string]any{"d": "12:00:00", "o": map[string]any{}}}
	for _, e := range []string{"@.d.date() ? (@ > \"2030-01-01\".date())", "@.d.date() ? (@ < \"2030-01-01\".date())", "@.d.datetime().type() ? (@ == \"x\")", "@.d.date().double()", "@.d.time() ? (@ > \"13:00:00\".time())",
		"@.d.timestamp().a", "@.o.keyvalue() ? (@.value > 1)", "@.o.keyvalue() ? (@.key == \"a\")", "@.o.keyvalue().value ? (@ < 3)", "@.o.keyvalue().value.double() ? (@ > 9)", "@.d[*].date() ? (@ > \"2030-01-01\".date())"} {
		for _, mode := range []string{"", "strict "} {
			for _, d := range edocs {
				top := strings.ReplaceAll(e, "@", "$")
				gs = append(gs, group{mode + "exists(" + top + ")", d, nil}, group{mode + "!exists(" + top + ")", d, nil}, group{mode + "(exists(" + top + ")) is unknown", d, nil}, group{mode + "exists(" + top + ") && true", d, nil},
					group{mode + "$ ? (exists(" + e + "))", d, nil}, group{mode + top, d, nil})
			}
		}
	}
	// range-shaped conditions over sequences: each bound may be met by a different item
	rdocs := []any{map[string]any{"a": []any{float64(0), float64(10)}}, map[string]any{"a": []any{float64(0.5), float64(7.5), "x"}}, map[string]any{"a": []any{float64(3)}},
		map[string]any{"a": []any{float64(0), float64(3), float64(10)}}, map[string]any{"a": []any{}}, map[string]any{"a": float64(3)}, map[string]any{"a": []any{float64(10), float64(0)}},
		map[string]any{"a": []any{json.Number("0"), json.Number("10")}}, map[string]any{"a": []any{int64(0), int64(10)}}}
	for _, x := range []string{"@.a[*]", "@.a", "@.a[0 to last]", "@.*[*]"} {
		for _, r := range []string{"%s >= 1 && %s <= 5", "%s <= 5 && %s >= 1", "%s > 1 && %s < 5", "%s >= 1 && %s < 5", "%s >= 1.0 && %s <= 5", "%s >= 1 || %s <= 5", "%s == 0 && %s == 10", "%s >= 1 && %s <= $hi"} {
			c := fmt.Sprintf(r, x, x)
			for _, mode := range []string{"", "strict "} {
				for _, d := range rdocs {
					vars := map[string]any{"hi": float64(5)}
					top := strings.ReplaceAll(c, "@", "$")
					gs = append(gs, group{mode + top, d, vars}, group{mode + "$ ? (" + c + ")", d, vars}, group{mode + "$ ? (!(" + c + "))", d, vars},
						group{mode + "(" + top + ") is unknown", d, vars}, group{mode + "!(" + top + ") || !(" + top + ")", d, vars})
				}
			}
		}
	}
	return gs
}

// gridContext: something that changes the evaluation context is evaluated first (nested filter or
// subscript, probing exists, hard error swallowed by `is unknown`, keyvalue), and the context is
// read afterwards.
func gridContext() []group {
	changers := []string{
		"(exists(@.k ? (@ == $undef))) is unknown", "(@.k == $undef) is unknown", "exists(@.k ? (@ > 0))", "exists(@[0].k)",
		"exists(@.k[*] ? (@ == @))", "(@.k[last] == 1) is unknown", "!(exists(@.k.j))", "exists(@.keyvalue())",
		"(@.k.datetime() < \"2024-01-01\".date()) is unknown", "exists(@.k[0 to last])", "(@.k[*] > 1) is unknown", "exists(@ ? (@.k == 5))",
		"exists($undef)", "($undef == 1) is unknown", "exists(@.**{1})",
	}
	readers := []string{"@.id == 1", "@.id > 0", "exists(@.id)", "@.type() == \"object\"", "@.k == 5", "@.id == last", "@ == @"}
	outers := []string{"$[*]", "$", "$.items[*]", "$[0, last]", "$[0 to last]", "$[last, 0]", "$.**{1}", "$.*"}
	docs := []any{
		[]any{map[string]any{"id": float64(1), "k": float64(5)}, map[string]any{"id": float64(1)}, map[string]any{"id": float64(2), "k": []any{float64(1), float64(2)}}},
		[]any{map[string]any{"id": float64(1), "k": map[string]any{"j": float64(1)}}, map[string]any{"id": float64(0), "k": "2023-08-15"}, map[string]any{"k": float64(0), "id": float64(1)}},
		map[string]any{"items": []any{map[string]any{"id": float64(1), "k": float64(5)}, map[string]any{"id": float64(1), "k": float64(-1)}}, "id": float64(1), "k": float64(5)},
		[]any{map[string]any{"a": float64(1)}, map[string]any{"a": float64(2)}, map[string]any{"a": float64(3)}},
	}
	var gs []group
	for _, o := range outers {
		for _, c := range changers {
			for _, r := range readers {
				for _, op := range []string{" && ", " || "} {
					for _, mode := range []string{"", "strict "} {
						for _, d := range docs {
							gs = append(gs, group{mode + o + " ? (" + c + op + r + ")", d, nil})
						}
					}
				}
			}
		}
	}
	// context after a probing filter that follows a subscript list using `last`
	for _, s := range []string{"[0, last]", "[0, 1 to last]", "[0, last - 1]", "[last, 0, last]"} {
		for _, f := range []string{" ? (exists(@[0].a))", " ? (exists(@.a))", " ? (exists(@[*]))", " ? (exists(@.a ? (@ > 0)))", " ? (@.a > 1)", ".a", "[0]"} {
			for _, d := range docs {
				for _, mode := range []string{"", "strict "} {
					gs = append(gs, group{mode + "$" + s + f, d, nil})
				}
			}
		}
	}
	// relational operands anchored at $ or a variable, with @ inside a subscript
	rel := []any{
		map[string]any{"items": []any{map[string]any{"idx": float64(0), "v": float64(10)}, map[string]any{"idx": float64(1), "v": float64(20)}, map[string]any{"idx": float64(2), "v": float64(30)}}, "list": []any{float64(10), float64(20), float64(30)}},
		map[string]any{"items": []any{map[string]any{"idx": float64(2), "v": float64(30)}, map[string]any{"idx": float64(0), "v": float64(30)}}, "list": []any{float64(10), float64(20), float64(30)}},
	}
	for _, d := range rel {
		for _, t := range []string{"$.items[*] ? (@.v == $.list[@.idx])", "$.items[*] ? ($.list[@.idx] == @.v)", "$.items[*] ? (@.v == $list[@.idx])", "$.items[*] ? (@.v > $.list[@.idx - 1])",
			"$.items[*] ? (exists($.list[@.idx] ? (@ == 30)))", "$.items[*].v ? (@ == $.list[last])", "strict $.items[*] ? (@.v == $.list[@.idx])"} {
			gs = append(gs, group{t, d, map[string]any{"list": []any{float64(10), float64(20), float64(30)}}})
		}
	}
	return gs
}

// gridFail: an operand / prefix sequence that fails after exactly k items, consumed by every kind
// of step, so that "error after, before or instead of items" is covered for each consumer.
func gridFail() []group {
	var docs []any
	good, bad := []any{float64(3), float64(21), map[string]any{"n": float64(4)}}, []any{"x", nil, map[string]any{"m": float64(0)}, []any{float64(1)}}
	for n := 1; n <= 3; n++ {
		for pos := 0; pos <= n; pos++ { // pos == n: no offending element
			for _, b := range bad {
				arr := make([]any, 0, n)
				for i := 0; i < n; i++ {
					if i == pos {
						arr = append(arr, b)
					} else {
						arr = append(arr, good[i%2])
					}
				}
				docs = append(docs, arr, map[string]any{"v": arr})
			}
		}
	}
	consumers := []string{"$[*].double() + 1", "10 - $[*].integer()", "$[*].n * 2", "-$[*]", "$[*].abs()", "$[*].double()", "$[*] ? (@.double() > 1)", "$[*] ? (@ > 1).double()",
		"$[$[*].double()]", "$[*].double().string()", "exists($[*].double())", "$[*].double() > 1", "$[*].double() == $[*].integer()", "($[*].double() > 1) is unknown",
		"$.v[*].double() + 1", "10 - $.v[*].integer()", "$.v[*].n", "$.v[*].size()", "$.v[*].keyvalue().key", "$.**.double()", "$.v.**{1}.abs()", "$[0 to last].double()", "$[0,1,2].double()"}
	var gs []group
	for _, d := range docs {
		for _, c := range consumers {
			for _, mode := range []string{"", "strict "} {
				gs = append(gs, group{mode + c, d, nil})
			}
		}
	}
	// the same through the members of an object (.keyvalue(), .*): the offending member first,
	// in the middle, last, absent
	names := []string{"a", "b", "c"}
	objConsumers := []string{"$.keyvalue().value.double()", "$.keyvalue().value.integer()", "$ ? (@.keyvalue().value.double() > 2).c", "$.keyvalue().value.keyvalue().key",
		"$.*.double()", "$.*.integer() + 1", "$ ? (@.*.double() > 2)", "exists($.keyvalue().value.double())", "$.keyvalue().value.double() > 2", "$.keyvalue() ? (@.value.double() > 2).key",
		"$.keyvalue().value.n", "strict $.keyvalue().value.n", "-$.keyvalue().value", "$.*.n", "$.keyvalue().value.abs().string()"}
	for n := 1; n <= 3; n++ {
		for pos := 0; pos <= n; pos++ {
			for _, b := range bad {
				obj := map[string]any{}
				for i := 0; i < n; i++ {
					if i == pos {
						obj[names[i]] = b
					} else {
						obj[names[i]] = good[i%3]
					}
				}
				for _, c := range objConsumers {
					gs = append(gs, group{c, obj, nil})
					if !strings.HasPrefix(c, "strict ") {
						gs = append(gs, group{"strict " + c, obj, nil})
					}
				}
			}
		}
	}
	return gs
}

// gridCancel: a pool of paths covering every node kind (each with steps after it, in predicates,
// in filters, parenthesised with a following accessor, …) for the every-poll cancellation stream.
func gridCancel() []group {
	doc := map[string]any{
		"a": []any{map[string]any{"b": float64(1), "c": []any{float64(1), float64(-1)}}, map[string]any{"b": float64(2), "c": float64(3)}, map[string]any{"b": "x"}},
		"b": "2.5", "s": "abc", "d": "2023-08-15", "t": "2023-08-15T12:34:56.789+02:00", "n": float64(-123.456),
		"k": map[string]any{"u": float64(1), "v": "w"},
	}
	vars := map[string]any{"p": "ab", "n": float64(2)}
	paths := append([]string{}, racePaths...)
	paths = append(paths,
		`(-$.n).abs()`, `(+$.n).floor().type()`, `(-$.a[*].b).abs()`, `(-$.n).abs().string()`, `$ ? (1 < (-@.n).abs())`, `exists((-$.n).abs())`,
		`($.n + 1).abs()`, `($.n * 2).string().size()`, `($.a[0].b == 1).type()`, `(exists($.a)).type()`, `($.s like_regex "a").type()`,
		`$.a[*] ? ((@.b == 1) is unknown)`, `($.a[*].b == 1) is unknown`, `$ ? ((@.n == 1) is unknown).s`, `$ ? (!(@.n == 1)).s`, `$ ? (@.n < 0 && @.s == "abc").k.u`,
		`$ ? (@.n > 0 || @.s == "abc").k.*`, `$.a[*].c[*]`, `$.a[*].c[0 to last]`, `$.a[$.k.u]`, `$.a[last].b`, `$.a[0, last - 1].b`, `$.**{2}.b`, `$.**.u`, `strict $.**{1 to 2}.u`,
		`$.k.keyvalue().value`, `$.k.keyvalue() ? (@.key == "u").value`, `$.n.abs().ceiling().string()`, `$.b.double().floor()`, `$.b.number()`, `$.n.decimal(6,2)`, `$.n.bigint()`, `$.n.integer()`,
		`$.s.boolean()`, `$.a.size()`, `$.a[*].type()`, `$.d.date()`, `$.t.timestamp_tz(2).string()`, `$.t.datetime().type()`, `$.d.datetime() == $.d.date()`, `$.s starts with "a"`,
		`$.s starts with $p`, `$.a[*] ? (@.b > $n)`, `$p`, `$n + 1`, `"lit".size()`, `1.5.floor()`, `null`, `true`, `$.a[*] ? (exists(@.c ? (@ > 0))).b`,
		`$.a[*] ? (@.c[*] > 0)`, `strict $.a[*] ? (@.c.size() > 1)`, `$.missing`, `strict $.missing`, `$.a[*].missing`, `-$.a[*].b`, `+$.n`, `-(-$.n)`, `$.n % 7`, `$.n / 0`, `1 / $.a[0].b`,
		`$.a[*].b ? (@ == 1 || @ == 2)`, `$.a ? (@[*].b == 2)`, `$[*]`, `$.*`, `$.k.*`, `$.a[*].*`, `strict $.a[*].b`, `lax $.a.b`, `$.a.b.size()`, `$.a[*] ? (@.b.type() == "number").b.string()`)
	var gs []group
	for _, t := range paths {
		gs = append(gs, group{t, doc, vars})
	}
	return gs
}

// gridUnderAny: steps whose behaviour depends on the mode (strict/lax) evaluated below an accessor
// that changes the executor's structural-error flag (`.**`) or not (`.*`, `[*]`, `$`): in strict
// mode the predicate rules (all pairs, complete operand sequences) must not follow that flag.
func gridUnderAny() []group {
	prefixes := []string{"$.**", "$.**{1}", "$.**{1 to last}", "$.**{0 to 1}", "$.**{2}", "$.**{2 to last}", "$.*", "$[*]", "$", "$.k", "$.**{1}.**{1}", "$.*.**"}
	suffixes := []string{
		" ? (@[*] == 1)", " ? (1 == @[*])", " ? (@[*] > 0)", " ? (@[*] != 1)", " ? (@[*] starts with \"a\")", " ? (@[*] like_regex \"^a\")",
		" ? (exists(@[*].double()))", " ? (exists(@[*].integer()))", " ? (exists(@.a.b))", " ? (exists(@[*].a))", " ? ((@[*] == 1) is unknown)",
		" ? (exists(@[*].double()) || false)", " ? (exists(@[*].double()) && true)", " ? ((exists(@[*].double())) is unknown)", " ? (!(@[*] == 1))",
		" ? (@.a == 1)", " ? (@.a.b == 1)", " ? (@[0] == 1)", " ? (@[1] == \"x\")", " ? (@[*].a == 2)", " ? (@.size() > 1)", " ? (@.type() == \"array\")",
		".a.b", ".a", ".a[0]", "[0].a", "[0]", "[1]", "[*].a", ".*.a", ".a.b.c", ".keyvalue().key", ".keyvalue().value.a", ".size()", ".a.double()", "[*].double()",
		" ? (exists(@.keyvalue().key)).keyvalue()", " ? (exists(@.keyvalue() ? (@.value == 1))).keyvalue().key", " ? (exists(@.keyvalue().key)).a",
		" ? (@.a == 1).keyvalue()", ".keyvalue().keyvalue()", " ? (exists(@[*] ? (@.double() > 0)))", " ? (@[*].double() > 0)", ".a ? (@.b == 1)", " ? (@.a > 0).a.b",
	}
	docs := []any{
		map[string]any{"k": []any{float64(1), "x"}},
		map[string]any{"k": []any{"1", "x"}},
		map[string]any{"k": []any{"x", "1"}},
		map[string]any{"x": map[string]any{"a": map[string]any{"b": float64(1)}}, "y": map[string]any{"a": float64(2)}},
		[]any{[]any{float64(1), "x"}, []any{"a", float64(1)}},
		map[string]any{"k": []any{"a", float64(1), "ab"}, "a": float64(1)},
		[]any{map[string]any{"a": float64(1)}, map[string]any{"a": map[string]any{"b": float64(1)}}, []any{map[string]any{"a": float64(2)}}},
		map[string]any{"k": map[string]any{"a": []any{map[string]any{"b": float64(1)}, float64(3)}}, "a": map[string]any{"b": map[string]any{"c": float64(1)}}},
		[]any{float64(1), "x", []any{"1"}},
		map[string]any{"k": []any{json.Number("1"), json.Number("1e400"), "x"}, "a": json.Number("-1E+999")},
	}
	var gs []group
	for _, pre := range prefixes {
		for _, suf := range suffixes {
			for _, mode := range []string{"", "strict "} {
				for _, d := range docs {
					gs = append(gs, group{mode + pre + suf, d, nil})
				}
			}
		}
	}
	return gs
}

// dtZones are the context zones of grid-datetime (a "#zone=…;usetz=…#" prefix of the group text
// selects zone and WithTZ; execStream strips it).
var dtZones = []string{"UTC", "America/New_York", "Australia/Lord_Howe", "Europe/Berlin", "fixed:19800", "fixed:-16200"}

// gridDatetime: pairs of datetime strings x pairs of methods x comparison operators, with named
// context zones and values inside DST gaps and overlaps of those zones; the same string under two
// different methods in one execution.
func gridDatetime() []group {
	strs := []any{
		"2024-03-10", "2024-03-10T02:30:00", "2024-03-10T01:30:00.5", "2024-03-10T06:30:00.2Z", "2024-03-10T07:30:00+00:00", "2024-03-10T03:30:00-04:00",
		"2024-11-03T01:30:00", "2024-11-03T05:30:00Z", "2024-11-03T06:30:00+00", "2024-11-03T01:30:00-04:00", "2024-11-03T01:30:00-05:00", "2024-11-03",
		"01:30:00", "02:30:00", "01:30:00-05", "12:00:00+05:30", "2015-08-02", "2015-08-02T00:00:00-04:00", "2015-08-02T00:00:00", "2023-12-31T23:59:59.999999",
		"2024-01-01T00:00:00+14:00", "2024-10-06", "2024-10-06T02:15:00", "2024-10-05T15:30:00Z", "2024-03-31T02:30:00", "2024-03-31T01:30:00+01:00", "00:00:00", "23:59:59.9999995",
		"2024-03-09T20:00:00Z", "2024-03-10T02:00:00+00:00", "2015-08-01T20:00:00+00:00", "2015-08-02T02:00:00Z", "2024-04-07T01:15:00", "2024-04-06T14:45:00Z",
	}
	methods := []string{"datetime()", "date()", "time()", "time_tz()", "timestamp()", "timestamp_tz()"}
	var texts []string
	for j := range strs {
		for _, m1 := range methods {
			for _, m2 := range methods {
				for _, op := range []string{"==", "<", ">="} {
					texts = append(texts, fmt.Sprintf("$[*] ? (@.%s %s $[%d].%s)", m1, op, j, m2))
				}
				texts = append(texts, fmt.Sprintf("$[%d].%s == $[%d].%s", j, m1, j, m2), fmt.Sprintf("$[%d].%s < $[%d].%s", j, m1, j, m2))
				// many pairs in one predicate: a pair that needs the time zone comes before or after a pair that decides
				texts = append(texts, fmt.Sprintf("$[*].%s < $[%d].%s", m1, j, m2), fmt.Sprintf("$ ? (@[*].%s >= $[%d].%s)", m1, j, m2))
			}
		}
		texts = append(texts, fmt.Sprintf("$[%d].datetime().type()", j), fmt.Sprintf("$[%d].timestamp_tz().string()", j), fmt.Sprintf("$[%d].timestamp(2).string()", j),
			fmt.Sprintf("$[%d].date().string()", j), fmt.Sprintf("$[%d].time_tz(0).string()", j), fmt.Sprintf("$[%d].time().string()", j), fmt.Sprintf("$[%d].datetime().string()", j))
	}
	for _, m1 := range methods {
		for _, m2 := range methods {
			texts = append(texts, fmt.Sprintf("$[*] ? (@.%s == @.%s)", m1, m2), fmt.Sprintf("$[*] ? (@.%s <= @.%s || @.%s > @.%s)", m1, m2, m1, m2),
				fmt.Sprintf("$[*] ? ((@.%s == @.%s) is unknown)", m1, m2))
		}
	}
	var gs []group
	for _, t := range texts {
		for _, z := range dtZones {
			for _, u := range []string{"0", "1"} {
				gs = append(gs, group{"#zone=" + z + ";usetz=" + u + "#" + t, strs, nil})
			}
		}
	}
	return gs
}

// gridRegex: like_regex over patterns, flags and subjects with non-ASCII case folding.
func gridRegex() []group {
	subjects := []any{"s", "\u017f", "S", "\u03c3", "\u03c2", "\u03a3", "\u00b5", "\u03bc", "\u039c", "i", "I", "\u0130", "\u0131", "k", "K", "\u212a", "\u00df", "ss", "SS",
		"aXc", "a.c", "A.C", "a\nc", "\u00e9", "\u00c9", "e\u0301", "ab", "a|b", "", "a b", "AB", "\u01c5", "\u01c4", "\u01c6"}
	pats := []string{"s", "\u017f", "\u03c3", "\u03c2", "\u00b5", "\u03bc", "i", "\u0130", "\u0131", "k", "\u212a", "ss", "\u00df", "a.c", "A.C", "\u00e9", "\u00c9", "^a", "c$", "a|b", ".", "a b", " a b ", "[a-c]+", "^.$", "^..$", "\u01c5", "\u01c6", "(?i)s", "\\\\d", "A # x"}
	flags := []string{"", "i", "q", "iq", "qi", "x", "ix", "s", "m", "sm", "iqx", "is"}
	var gs []group
	for _, p := range pats {
		for _, f := range flags {
			t := "like_regex " + quoteStr(p)
			if f != "" {
				t += " flag " + quoteStr(f)
			}
			gs = append(gs, group{"$[*] ? (@ " + t + ")", subjects, nil}, group{"strict $[*] ? (!(@ " + t + "))", subjects, nil}, group{"$[0] " + t, []any{subjects[len(p)%len(subjects)]}, nil})
		}
	}
	return gs
}

// gridInteract: two features that are each fine alone. (1) lookup tables: an operand or a whole
// filter condition that is anchored at `$` or a variable but depends on the current item through a
// subscript (`$.lim[@.i]`), over several items whose subscripts differ — what a memo keyed by node
// or an "invariant operand" analysis gets wrong; (2) hard errors raised inside subscripts and
// after the first item, under every kind of suppression and through every entry point;
// (3) consecutive filters over nested arrays (each filter unwraps again in lax mode);
// (4) operand sequences in which arrays follow each other.
func gridInteract() []group {
	doc := map[string]any{
		"items": []any{
			map[string]any{"i": float64(0), "v": float64(10), "q": float64(2), "s": "alpha"},
			map[string]any{"i": float64(2), "v": float64(20), "q": float64(1), "s": "cat"},
			map[string]any{"i": float64(1), "v": float64(99), "q": float64(2), "s": "beta"},
			map[string]any{"i": float64(1), "v": float64(20), "q": float64(4), "s": "b"},
		},
		"lim": []any{float64(10), float64(20), float64(30)}, "w": []any{float64(10), float64(20), float64(30)},
		"z": []any{float64(5), float64(0), float64(2.5)}, "names": []any{"a", "b", "c"},
	}
	vars := map[string]any{"lim": []any{float64(10), float64(20), float64(30)}, "names": []any{"a", "b", "c"}, "one": float64(1)}
	var gs []group
	add := func(t string, d any, v map[string]any) {
		gs = append(gs, group{t, d, v}, group{"strict " + t, d, v})
	}
	for _, op := range []string{"==", "!=", "<", "<=", ">", ">="} {
		for _, t := range []string{"@.v %s $.lim[@.i]", "$.lim[@.i] %s @.v", "@.v %s $lim[@.i]", "$lim[@.i] %s @.v", "@.v %s $.lim[@.i to @.i + 1]",
			"$.w[@.i] * @.q %s 40", "@.q * $.w[@.i] %s 40", "$.w[@.i] + 0 %s $.w[@.i]", "100 / $.z[@.i] %s 30", "7 %% $.z[@.i] %s 1", "$.lim[@.i] %s $.w[@.i]",
			"$.lim[last - @.i] %s @.v", "$.lim[@.i].double() %s @.v", "$.items[@.i].v %s @.v", "$.lim[$.items[@.i].i] %s 20"} {
			c := fmt.Sprintf(t, op)
			add("$.items[*] ? ("+c+")", doc, vars)
			add("$.items[*] ? (!("+c+")).i", doc, vars)
			add("$.items[1 to last] ? ("+c+" && @.q > 1)", doc, vars)
		}
	}
	for _, c := range []string{"@.s starts with $.names[@.i]", "@.s starts with $names[@.i]", "$.names[@.i] like_regex \"c\"", "$.names[@.i] == \"c\"", "exists($.lim[@.i] ? (@ > 15))",
		"exists($.lim[@.i to last] ? (@ == 30))", "($.lim[@.i] > 15) is unknown", "$.names[@.i] == \"b\" || @.v == 10", "$.lim[@.i].type() == \"number\"", "$.z[@.i] == 0"} {
		add("$.items[*] ? ("+c+")", doc, vars)
		add("$.items[*] ? ("+c+").v", doc, vars)
	}
	add("$[*] ? ($[@] == 1)", []any{float64(1), float64(0)}, nil)
	add("$[*] ? ($[@] > @)", []any{float64(2), float64(0), float64(1)}, nil)
	// (2) hard errors inside subscripts / after the first item
	arr := []any{float64(1), float64(2), float64(3)}
	objs := []any{map[string]any{"v": []any{float64(1), float64(2)}}, map[string]any{"v": []any{float64(5)}}}
	dts := []any{"2020-01-01 10:00:00+00", "2020-01-01 10:00:00", "2020-01-02 10:00:00+01"}
	for _, t := range []string{"$[$undef]", "$[0, $undef]", "$[0, $undef to last]", "$[$undef to 1]", "$[0 to $undef]", "$[*] ? (@ == 1 || @ > $undef)", "$[*] ? (@ > 1 && @ > $undef)",
		"$[0, \"a\".datetime(\"HH24\")]", "$[0, 1.decimal(0)]", "$[*] ? (@ == $[$undef])", "exists($[$undef])", "$[$undef] == 1", "($[$undef] == 1) is unknown", "$[0, last ? (@ > $undef)]"} {
		add(t, arr, nil)
	}
	for _, t := range []string{"$[*] ? (@.v[$undef] > 1)", "$[*].v[$undef]", "$[*].v[0, $undef]", "$[*] ? (exists(@.v[$undef]))", "$[*] ? ((@.v[$undef] > 1) is unknown)", "$[*].v[last - $undef]"} {
		add(t, objs, nil)
	}
	for _, t := range []string{"$[*].timestamp_tz()", "$[*].timestamp_tz().string()", "$[*] ? (@.timestamp_tz() > \"2020-01-01 00:00:00+00\".timestamp_tz())", "$[0 to 1].timestamp_tz()", "$[*].datetime() ? (@ < \"2021-01-01\".date())",
		"$[*].time_tz()", "$[1, 0].timestamp_tz()"} {
		add(t, dts, nil)
	}
	// (3) consecutive filters over nested arrays
	nested := []any{[]any{[]any{float64(1), float64(5)}, []any{float64(7)}}, []any{float64(1), []any{float64(2), float64(3)}, []any{}}, map[string]any{"a": []any{[]any{float64(1), float64(5)}, float64(3)}},
		[]any{[]any{float64(1), float64(2)}}, []any{map[string]any{"a": float64(1)}, []any{map[string]any{"a": float64(2)}}}}
	filters := []string{"? (@.size() > 1)", "? (@ > 2)", "? (@.type() == \"array\")", "? (@.type() == \"number\")", "? (@[*] > 1)", "? (exists(@[0]))", "? (@.a > 0)", "? (@ == @)"}
	for _, d := range nested {
		for _, f1 := range filters {
			for _, f2 := range filters {
				for _, pre := range []string{"$", "$[*]", "$.a", "$.*"} {
					add(pre+" "+f1+" "+f2, d, nil)
				}
			}
			add("$ "+f1+" ? (@ > 0) ? (@ < 6)", d, nil)
		}
	}
	// (4) operand sequences in which arrays follow each other
	seqs := []any{[]any{[]any{float64(1)}, []any{float64(2)}}, []any{[]any{}, []any{float64(2)}}, []any{[]any{float64(1)}, []any{}, []any{float64(2)}}, []any{float64(3), []any{float64(1), float64(2)}},
		[]any{[]any{float64(1), float64(2)}, float64(3)}, map[string]any{"a": []any{"w"}, "b": []any{"x"}}, []any{[]any{"ab"}, []any{"b"}}, []any{[]any{[]any{float64(2)}}, []any{float64(2)}}}
	for _, d := range seqs {
		for _, t := range []string{"$[*] == 2", "2 == $[*]", "$[*] < 3", "$.* == \"x\"", "$[*] starts with \"b\"", "$[*] like_regex \"^b\"", "$[*] == $[*]", "-$[*]", "$[*] + 1", "($[*] == 2) is unknown",
			"$ ? (@[*] == 2)", "$[*] ? (@ == 2)", "$.*[*] == \"x\"", "$[*][*] == 2"} {
			add(t, d, nil)
		}
	}
	// (5) nested exists / nested filters whose later steps read the OUTER @ (in a subscript, in a
	// sibling operand), nested filters applied to array-valued items (lax unwrap inside a filter)
	nest := []any{
		[]any{map[string]any{"b": float64(1)}, map[string]any{"c": float64(2)}},
		[]any{map[string]any{"c": float64(2)}, map[string]any{"b": float64(1)}},
		map[string]any{"o": map[string]any{"pick": float64(1), "rows": []any{map[string]any{"ok": true, "vals": []any{"a", "b"}}, map[string]any{"ok": false, "vals": []any{"c", "d"}}}}},
		[]any{map[string]any{"pick": float64(1), "rows": []any{[]any{float64(1), float64(20)}, []any{float64(0), float64(5)}}}, map[string]any{"pick": float64(0), "rows": []any{[]any{float64(20), float64(1)}}},
			map[string]any{"pick": float64(1), "rows": []any{[]any{float64(3), float64(20), float64(7)}}}},
	}
	for _, d := range nest {
		for _, t := range []string{"exists($[*] ? (exists(@.b)))", "exists($[*] ? (exists(@.c)))", "$[*] ? (exists(@ ? (exists(@.b))))", "exists($[*] ? (exists(@.b)) ? (exists(@.b)))",
			"exists($[*] ? (!(exists(@.b))))", "(exists($[*] ? (exists(@.zz)))) is unknown", "$.o ? (@.rows ? (@.ok == true).vals[@.pick] == \"b\")", "$.o ? (@.rows[*] ? (@.ok == true).vals[@.pick] == \"b\")",
			"$.o ? (@.rows ? (@.ok == false).vals[@.pick] == \"d\")", "$[*] ? (@.rows[*] ? (@[0] > 0) [@.pick] == 20)", "$[*] ? (@.rows ? (@.size() > 1) [@.pick] == 20)", "$[*] ? (@.rows[*] ? (@.size() > 1) [@.pick] == 20).pick",
			"$[*] ? (@.rows[*] ? (@[0] > 0) [0] > @.pick)", "$[*] ? (exists(@.rows[*] ? (@[0] > 0)) && @.pick == 1)"} {
			add(t, d, nil)
		}
	}
	// (6) a later pair of a predicate / a later operand raises a hard error (tz-requiring comparison
	// without WithTZ): the deciding pair stops the loop in lax mode; `is unknown` absorbs it
	tz := []any{
		map[string]any{"t": []any{"2023-01-01", "2023-06-01T00:00:00+00:00"}, "d": "2023-01-01", "ts": "2023-06-01T00:00:00+00:00"},
		map[string]any{"t": []any{"12:00:00", "2023-06-01T00:00:00+00:00"}, "d": "2023-01-01", "ts": "2023-06-01T00:00:00+00:00"},
		map[string]any{"t": []any{"2023-06-01T00:00:00+00:00", "2023-01-01"}, "d": "2024-05-05", "ts": "2023-06-01T00:00:00+00:00"},
	}
	for _, d := range tz {
		for _, t := range []string{"$ ? (@.t[*].datetime() < \"2024-01-01\".datetime())", "$ ? (@.t[*].datetime() > \"2024-01-01\".datetime())", "$.t[*].datetime() < \"2024-01-01\".datetime()",
			"($.d.date() < $.ts.timestamp_tz()) is unknown", "$.d.date() < $.ts.timestamp_tz() || 1 == 1", "1 == 2 && $.d.date() < $.ts.timestamp_tz()", "!($.d.date() < $.ts.timestamp_tz())",
			"$ ? ((@.d.date() < @.ts.timestamp_tz()) is unknown)", "$ ? (exists(@.t[*] ? (@.datetime() < \"2024-01-01\".datetime())))", "$.t[*].datetime() == $.t[*].datetime()"} {
			gs = append(gs, group{"#zone=UTC;usetz=0#" + t, d, nil}, group{"#zone=UTC;usetz=0#strict " + t, d, nil}, group{"#zone=UTC;usetz=1#" + t, d, nil})
		}
	}
	// (7) long operand sequences (more than 16 pairs) with look-alike items of different types
	long := []any{"1", float64(1)}
	long2 := []any{float64(1), "1"}
	for i := 0; i < 30; i++ {
		long = append(long, float64(i+2))
		long2 = append(long2, "x")
	}
	long3 := append([]any{"true", true, nil, "<nil>", "tr"}, long[2:]...)
	for _, d := range []any{long, long2, long3} {
		for _, t := range []string{"$[*] == 1", "1 == $[*]", "$[*] <= 1", "$[*] == $[0]", "$[*] starts with \"tr\"", "$[*] like_regex \"^tr\"", "$[*] == true", "$[*] == null", "$[*] == \"1\"", "$[*] == $[*]"} {
			add(t, d, nil)
		}
	}
	// (8) arithmetic: operands ending in a filter over nested arrays; `@ op literal` overflowing in a filter
	for _, d := range []any{map[string]any{"a": []any{[]any{float64(7)}}}, map[string]any{"a": []any{[]any{float64(7)}, []any{float64(8)}}}, map[string]any{"a": []any{float64(3), float64(4)}, "b": []any{}}, map[string]any{"a": []any{float64(3), float64(4)}}} {
		for _, t := range []string{"$.a ? (@.size() == 1) + 1", "-$.a ? (@.size() == 1)", "1 + $.a ? (@.size() == 1)", "$.a[*] + $.b", "$.b / $.a[*]", "$.a * $.b", "$.a[*] ? (@ > 3) + $.a[*] ? (@ < 4)", "$.a[*] + $.zz", "$.b[*] + $.a[*]"} {
			add(t, d, nil)
		}
	}
	for _, t := range []string{"@ * 1e308 > 0", "1e308 * @ > 0", "@ / 1e-300 > 0", "@ - 1.7e308 < 0", "@ + 1.7e308 > 0", "@ * 1e308 == @ * 1e308", "(@ * 1e308 > 0) is unknown", "@ % 1e-320 == 0", "@ / 0.1 > 0"} {
		add("$[*] ? ("+t+")", []any{float64(1e10), float64(-1.7e308), float64(5), float64(1e308)}, nil)
	}
	// (9) subscript expressions that yield one number and then fail, or an array holding one number
	subdoc := map[string]any{"a": []any{float64(10), float64(20), float64(30)}, "i": []any{float64(1)}, "j": []any{float64(1), "x"}, "k": []any{[]any{float64(1)}}}
	for _, t := range []string{"$.a[$.i[0,1]]", "$ ? (@.a[@.i[0,1]] == 20)", "$.a[$.i]", "$.a[0 to $.i]", "$.a[$.j[*].double()]", "$.a[$.j[0 to 1].double()]", "$ ? (@.a[@.j[*].double()] == 20)", "$.a[$.k]", "$.a[$.k[0]]", "$.a[$.i[*]]", "$.a[$.i[0]]"} {
		add(t, subdoc, nil)
	}
	add("$[$[0]]", []any{[]any{float64(2)}, "x", "y"}, nil)
	// (10) filters nested 2 … 12 deep; each level reads its own @ after the nested filter has run
	for depth := 2; depth <= 12; depth++ {
		var doc any = map[string]any{"n": float64(depth)}
		for lvl := depth - 1; lvl >= 1; lvl-- {
			doc = map[string]any{"n": float64(lvl), "c": doc}
		}
		cond := fmt.Sprintf("@.n == %d", depth)
		for lvl := depth - 1; lvl >= 1; lvl-- {
			cond = fmt.Sprintf("exists(@.c ? (%s)) && @.n == %d", cond, lvl)
		}
		add("$ ? ("+cond+")", doc, nil)
		add("$ ? ("+strings.Replace(cond, fmt.Sprintf("@.n == %d", depth), fmt.Sprintf("@.n == %d", depth+1), 1)+")", doc, nil)
		cond2 := fmt.Sprintf("@.n == %d", depth)
		for lvl := depth - 1; lvl >= 1; lvl-- {
			cond2 = fmt.Sprintf("@.n == %d && exists(@.c ? (%s))", lvl, cond2)
		}
		add("$ ? ("+cond2+")", doc, nil)
	}
	// (12) an arithmetic node with a following step, probed: the step's verdict on the first operand item must not decide
	for _, d := range []any{map[string]any{"a": []any{float64(1), float64(5)}}, map[string]any{"a": []any{float64(5), float64(1)}}, []any{float64(1), float64(-5), float64(2)}, map[string]any{"a": []any{float64(1), "x", float64(5)}}, map[string]any{"a": float64(5)}, []any{}} {
		for _, t := range []string{"(-$.a[*]) ? (@ < -3)", "(+$.a[*]) ? (@ > 3)", "(-$[*]).abs() ? (@ > 3)", "(+$[*]).abs() ? (@ > 3)", "(-$.a[*]).type()", "(-$[*]) ? (@ > 3).abs()", "(-$.a[*]) ? (@ < -3) ? (@ < 0)",
			"($.a[0] + 1) ? (@ > 3)", "($.a[1] * 2) ? (@ > 3)", "exists((-$.a[*]) ? (@ < -3))", "$ ? (exists((-@.a[*]) ? (@ < -3)))", "(-$.a[*]).double() ? (@ < -3)", "(-$.a[*])[0] ? (@ < -3)"} {
			add(t, d, nil)
		}
	}
	// (14) state set up by one construct and read by another: `last` after a probing subscript with a following step inside a
	// subscript filter; `$`- and `$var`-rooted operands below .**; the keyvalue base object and id counter after a probe or a failed operand
	ldoc := map[string]any{"a": []any{float64(10), float64(20), float64(30), float64(40)}, "b": []any{map[string]any{"x": float64(1), "k": float64(1)}, map[string]any{"k": float64(2)}}, "i": float64(0), "j": []any{float64(0), float64(1), float64(2), float64(3)}}
	for _, t := range []string{"$.a[$.i ? (exists($.b[0].x)) to last]", "$.a[$.i ? (exists($.b[0].x)), last]", "$.a[$.j[*] ? (exists($.b[0].k) && @ == last)]", "$.a[$.j[*] ? (@ == last && exists($.b[0].k))]",
		"$.a[$.i ? (exists($.b[0])) to last]", "$.a[($.i ? (exists($.b[last].k))) + last]", "$.a[$.j[*] ? (exists($.b[0 to 1].k) && @ == last)]", "$.a[$.i ? (exists($.b[5].x)) to last]", "$.a[0, last] ? (exists($.b[0].x))",
		"$.j[$.j[*] ? (exists($.b[0].k)) ? (@ == last)]"} {
		add(t, ldoc, nil)
	}
	for _, d := range []any{map[string]any{"a": map[string]any{"b": float64(1)}, "lim": float64(5)}, []any{float64(1), []any{float64(2)}}, map[string]any{"nokey": float64(1), "a": []any{float64(1)}}} {
		for _, t := range []string{"$.** ? (!exists($.nokey))", "$.** ? (!(@ == $.nokey))", "$.** ? ((@ == $.lim.x) is unknown)", "$.** ? (!($n.size() > 1))", "$.** ? (($n.size() > 1) is unknown)", "$.** ? (!exists($n.x))",
			"$.** ? (!exists($.a[5]))", "$.** ? (($m.a == 1) is unknown)", "$.**{1 to last} ? (!exists($.lim.x))", "$ ? (!exists($.nokey))", "$.* ? (!($n.size() > 1))", "$.** ? (!exists(@.nokey))"} {
			add(t, d, map[string]any{"n": float64(5), "m": float64(7)})
		}
	}
	kdoc := map[string]any{"o": map[string]any{"a": float64(1), "b": float64(2)}, "s": "x", "a": float64(1)}
	for _, t := range []string{"$v ? (($.s.double() > 1) is unknown).keyvalue()", "$.o.keyvalue() ? (($.s.double() > 1) is unknown).keyvalue()", "$ ? (exists(@.keyvalue().key)).keyvalue().keyvalue()",
		"$.o.keyvalue().keyvalue() ? (@.id >= 20000000000)", "$.o.keyvalue().keyvalue() ? (@.id < 10000000000)", "$.o ? (exists(@.keyvalue().keyvalue() ? (@.id >= 20000000000)))", "$v.keyvalue()",
		"$v ? (($.s.double() > 1) is unknown || @.k == 1).keyvalue().key", "$.o.keyvalue() ? (exists($.s.a) || true).keyvalue()", "$.o ? (exists(@.keyvalue().value)).keyvalue().keyvalue().key"} {
		add(t, kdoc, map[string]any{"v": map[string]any{"k": float64(1)}})
	}
	// (13) the right operand of starts with is a variable bound to something that is not a string (no unwrapping on that side)
	for _, pv := range []any{[]any{"ab"}, []any{}, []any{"zz", "ab"}, []any{[]any{"ab"}}, "ab", "zz", float64(1), nil, map[string]any{"a": "ab"}, []any{"ab", float64(1)}} {
		vars := map[string]any{"p": pv}
		for _, t := range []string{"$[*] ? (@ starts with $p)", "$[*] ? (!(@ starts with $p))", "$[*] ? ((@ starts with $p) is unknown)", "$[0] starts with $p", "!($[0] starts with $p)", "$[*] starts with $p",
			"$[*] ? (@ starts with $p || @ == 1)", "$[*] ? (@ == $p)", "$[*] ? (@ like_regex \"^ab\" && @ starts with $p)"} {
			add(t, []any{"abc", "xyz", float64(1), "abd"}, vars)
		}
	}
	// (11) the filter item is a json.Number whose text is not what its value prints as: the condition sees the text
	jn := func(ts ...string) []any {
		out := make([]any, len(ts))
		for i, t := range ts {
			out[i] = json.Number(t)
		}
		return out
	}
	texts := jn("1.50", "1.5", "100.0", "100", "1e2", "1E2", "0.10", "-0", "0", "9007199254740993", "1.0e0", "12345678901234567890", "2.50e1")
	for _, t := range []string{"$[*] ? (@.string() == \"1.50\")", "$[*] ? (@.string() starts with \"1\")", "$[*] ? (@.string() like_regex \"0$\")", "$[*] ? (@.string() == \"100\")", "$[*] ? (@.string() == $[*].string())",
		"$[*] ? (@.string() like_regex \"[eE]\")", "$[*] ? (@ == 100 && @.string() != \"100\")", "$[*].string()", "$[*] ? (@.type() == \"number\").string()", "$[*] ? (!(@.string() == \"1.5\"))",
		"$[*] ? (@.double() == 1.5 && @.string() == \"1.50\")", "$[*] ? (@.string().double() == @)", "$[*] ? (exists(@ ? (@.string() == \"0.10\")))"} {
		add(t, texts, nil)
		add(strings.Replace(t, "$[*]", "$.a[*]", 1), map[string]any{"a": texts}, nil)
	}
	add("$[*] ? (@.string() == $v.string())", texts, map[string]any{"v": json.Number("1.50")})
	add("$v ? (@.string() == \"1.50\")", float64(0), map[string]any{"v": json.Number("1.50")})
	return gs
}

// gridBig: sizes no random generator reaches — arrays of 64 … 10,050 elements, objects of 130 and
// 4,100 members, 1,024+ operand pairs, results of exactly k·4096 items, nesting 200 … 7,000 deep —
// under the steps whose implementations have loops, buffers or counters that might be tuned for
// "large" inputs.
func gridBig() []group {
	seq := func(n int, f func(i int) any) []any {
		out := make([]any, n)
		for i := range out {
			out[i] = f(i)
		}
		return out
	}
	num := func(i int) any { return float64(i) }
	var gs []group
	add := func(t string, d any, v map[string]any) {
		gs = append(gs, group{t, d, v}, group{"strict " + t, d, v})
	}
	for _, n := range []int{33, 64, 100, 130, 257, 1023, 1024, 1025, 4096, 4097, 8192, 10050} {
		arr := seq(n, num)
		for _, t := range []string{"$[*]", "$[0 to last]", "$[last]", "$[1023]", "$[5, 1023, 7]", "-$[*]", "+$[*]", "$[*] ? (@ >= 0)", "$[*] ? (@ < 0)", "$.**{1}", "$.**", "$.**{last}", "$.size()",
			"$[*] == -1", "$[*] ? (@ == $[last])", "($[*] > -1) is unknown", "exists($[*] ? (@ > 5))", "$[last - 1 to last]", "$[*].type() == \"x\""} {
			add(t, arr, nil)
		}
		rows := seq(n, func(i int) any {
			return map[string]any{"id": float64(i), "tags": []any{float64(i), float64(i + 1)}, "m": map[string]any{"b": float64(i % 3)}}
		})
		if n <= 4097 {
			for _, t := range []string{"$[*].tags[*]", "$[*] ? (exists(@.tags[*]))", "$[*] ? (exists(@.m.*))", "$[*] ? (@.m.*.b == 1).id", "$[*].m.b", "$[*].zz", "$[*] ? (@.id == 1023)", "$[*].tags[1]"} {
				add(t, rows, nil)
			}
		} else if n == 10050 {
			add("$[*] ? (exists(@.m.*))", rows, nil)
			add("$[*] ? (@.m.*.b == 1).id", rows, nil)
		}
		obj := map[string]any{}
		for i := 0; i < n && n <= 4100; i++ {
			obj[fmt.Sprintf("k%05d", i)] = float64(i)
		}
		if n <= 4100 {
			for _, t := range []string{"$.*", "$.keyvalue().key", "$.keyvalue().value", "$.**{1}", "$.* ? (@ > 5)", "$.k00063", "$.size()"} {
				add(t, obj, nil)
			}
		}
	}
	// 1,024 and more operand pairs, with integers beyond 2^53 that share a float64
	big := func(base int64, n int) []any { return seq(n, func(i int) any { return base + int64(2*i) }) }
	a32, b32 := big(9007199254740993, 32), big(9007199254740992, 32)
	a31, b31 := big(9007199254740993, 31), big(9007199254740992, 31)
	a40 := seq(40, func(i int) any { return json.Number(fmt.Sprint(9007199254740993 + int64(2*i))) })
	for _, d := range []any{map[string]any{"a": a32, "b": b32}, map[string]any{"a": a31, "b": b31}, map[string]any{"a": a40, "b": b32}, map[string]any{"a": seq(1100, num), "b": seq(1100, func(i int) any { return float64(i + 5000) })}} {
		for _, t := range []string{"$.a[*] == $.b[*]", "$.a[*] != $.b[*]", "$.a[*] < $.b[*]", "$.a[last] > $.b[last]", "$.a[last] == $.b[last]", "$ ? (@.a[*] == @.b[*])", "$.a[*] ? (@ == $.b[*])", "!($.a[*] == $.b[*])"} {
			add(t, d, nil)
		}
	}
	allowed := seq(1100, func(i int) any { return int64(4611686018427387904) + int64(28672+2*i) })
	ids := []any{map[string]any{"id": int64(4611686018427387904 + 28673)}, map[string]any{"id": int64(4611686018427387904 + 28672)}, map[string]any{"id": int64(7)}}
	add("$[*] ? (@.id == $allowed[*])", ids, map[string]any{"allowed": allowed})
	add("$[*] ? (!(@.id == $allowed[*]))", ids, map[string]any{"allowed": allowed})
	// deep nesting
	for _, depth := range []int{60, 200, 900} {
		var d any = float64(1)
		for i := 0; i < depth; i++ {
			if i%2 == 0 {
				d = []any{d}
			} else {
				d = map[string]any{"a": d}
			}
		}
		for _, t := range []string{"$.**{last}", "$.** ? (@ == 1)", "$.**.type()", "$.**{2 to 3}", "$.** == 2", "exists($.**{last})"} {
			add(t, d, nil)
		}
	}
	return gs
}

// gridBigCore is the part of grid-big that sits exactly on the sizes where a long-input shortcut
// would start (64, 128, 256, 1024, 4096 and 10000 items, results of exactly k*4096 items, 1,024
// operand pairs): small enough to run whole on every change.
func gridBigCore() []group {
	seq := func(n int, f func(i int) any) []any {
		out := make([]any, n)
		for i := range out {
			out[i] = f(i)
		}
		return out
	}
	num := func(i int) any { return float64(i) }
	var gs []group
	add := func(t string, d any, v map[string]any) {
		gs = append(gs, group{t, d, v}, group{"strict " + t, d, v})
	}
	// unary operators over 64 and more items, twice in one path and in adjacent calls
	for _, n := range []int{64, 100, 257} {
		add("-$[*]", seq(n, num), nil)
		add("+$[*]", seq(n, func(i int) any { return float64(7000 + i) }), nil)
	}
	ab := map[string]any{"a": seq(80, num), "b": seq(80, func(i int) any { return float64(i + 500) })}
	add("-$.a[*] == -$.b[*]", ab, nil)
	add("-$.a[*] < +$.b[*]", ab, nil)
	add("$ ? (-@.a[*] == -@.b[*])", ab, nil)
	// positions 1023, 2047, ... of long arrays
	for _, n := range []int{1024, 1025, 2048, 3000} {
		arr := seq(n, num)
		for _, t := range []string{"$[1023]", "$[last]", "$[0 to last]", "$[5, 1023, 7]", "$[1020 to 1026]", "$[last - 1 to last]"} {
			add(t, arr, nil)
		}
	}
	// results of exactly 4096 and 8192 items
	for _, n := range []int{4095, 4096, 8192} {
		add("$[*]", seq(n, num), nil)
		add("$[*] ? (@ >= 0)", seq(n, num), nil)
	}
	rows := func(n int) []any {
		return seq(n, func(i int) any {
			return map[string]any{"id": float64(i), "tags": []any{float64(i), float64(i + 1)}, "m": map[string]any{"b": float64(i % 3)}}
		})
	}
	add("$[*].tags[*]", rows(2048), nil)
	add("$[*].id", rows(4096), nil)
	// more than 10000 elements whose filter leaves the element early
	big := rows(10050)
	add("$[*] ? (exists(@.tags[*]))", big, nil)
	add("$[*] ? (exists(@.m.*))", big, nil)
	add("$[*] ? (@.m.*.b == 1).id", big, nil)
	// objects with 128 and more members
	for _, n := range []int{127, 128, 300} {
		obj := map[string]any{}
		for i := 0; i < n; i++ {
			obj[fmt.Sprintf("k%05d", i)] = float64(i)
		}
		for _, t := range []string{"$.keyvalue().key", "$.keyvalue().value", "$.*", "$.k00063"} {
			add(t, obj, nil)
		}
	}
	// 1,024 operand pairs with integers beyond 2^53 that share a float64; 31 x 31 as the control
	bigs := func(base int64, n int) []any { return seq(n, func(i int) any { return base + int64(2*i) }) }
	for _, d := range []any{
		map[string]any{"a": bigs(9007199254740993, 32), "b": bigs(9007199254740992, 32)},
		map[string]any{"a": bigs(9007199254740993, 31), "b": bigs(9007199254740992, 31)},
		map[string]any{"a": seq(40, func(i int) any { return json.Number(fmt.Sprint(9007199254740993 + int64(2*i))) }), "b": bigs(9007199254740992, 32)},
		map[string]any{"a": bigs(9007199254740993, 1024), "b": []any{int64(9007199254740992 + 4000)}},
	} {
		for _, t := range []string{"$.a[*] == $.b[*]", "$.a[*] != $.b[*]", "$.a[last] > $.b[last]", "$.a[last] == $.b[last]", "$.a[*] ? (@ == $.b[*])", "!($.a[*] == $.b[*])"} {
			add(t, d, nil)
		}
	}
	allowed := seq(1100, func(i int) any { return int64(4611686018427387904) + int64(28672+2*i) })
	ids := []any{map[string]any{"id": int64(4611686018427387904 + 28673)}, map[string]any{"id": int64(4611686018427387904 + 28672)}, map[string]any{"id": int64(7)}}
	add("$[*] ? (@.id == $allowed[*])", ids, map[string]any{"allowed": allowed})
	add("$[*] ? (!(@.id == $allowed[*]))", ids, map[string]any{"allowed": allowed})
	// level bounds of .** at the int32 limit (the largest level the parser accepts)
	for _, d := range []any{map[string]any{"a": map[string]any{"b": float64(1)}, "c": []any{float64(2), "x"}}, []any{float64(1), []any{float64(2)}}, float64(5)} {
		for _, t := range []string{"$.**{2147483647 to last}", "$.**{2147483646 to last}", "$.**{2147483647}", "$.**{0 to 2147483647}", "$.**{0x7fffffff to last}", "$.**{1 to 2147483647}", "$.**{last to 2147483647}", "$.**{2147483647 to 2147483647}.a"} {
			add(t, d, nil)
		}
	}
	// long operand sequences without an early decision (polls inside a comparison loop)
	thousand := map[string]any{"a": seq(1000, num), "s": seq(600, func(i int) any { return fmt.Sprint("s", i) })}
	for _, t := range []string{"$.a[*] == -1", "exists($ ? (@.a[*] == -1))", "$.s[*] starts with \"zz\"", "$.s[*] like_regex \"^zz\"", "($.a[*] == -1) is unknown"} {
		add(t, thousand, nil)
	}
	return gs
}

// gridBigPoll: long loops that finish without an early decision, for the cancellation stream
// (a poll added inside such a loop shows at the sampled late poll indexes).
func gridBigPoll() []group {
	seq := func(n int, f func(i int) any) []any {
		out := make([]any, n)
		for i := range out {
			out[i] = f(i)
		}
		return out
	}
	num := func(i int) any { return float64(i) }
	var gs []group
	add := func(t string, d any, v map[string]any) {
		gs = append(gs, group{t, d, v}, group{"strict " + t, d, v})
	}
	thousand := map[string]any{"a": seq(1000, num), "s": seq(600, func(i int) any { return fmt.Sprint("s", i) })}
	for _, t := range []string{"$.a[*] == -1", "exists($ ? (@.a[*] == -1))", "$.s[*] starts with \"zz\"", "$.s[*] like_regex \"^zz\"", "($.a[*] == -1) is unknown", "-$.a[*]", "$.a[0 to last]", "$.a[*]", "$.a.**", "$.a[*] ? (@ < 0)", "$.a[*].type()", "$.a[*] + 1 == 0"} {
		add(t, thousand, nil)
	}
	arr := seq(3000, num)
	for _, t := range []string{"$[0 to last]", "$[*]", "$[1020 to 2050]", "$.**{1}", "-$[*]", "$[*] ? (@ == $[last])"} {
		add(t, arr, nil)
	}
	obj := map[string]any{}
	for i := 0; i < 300; i++ {
		obj[fmt.Sprintf("k%05d", i)] = float64(i)
	}
	for _, t := range []string{"$.*", "$.keyvalue().key", "$.* ? (@ < 0)"} {
		add(t, obj, nil)
	}
	return gs
}
