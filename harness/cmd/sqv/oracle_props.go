package main

// Oracles for the value-level and step-level executor properties (C07, C09–C16).

import (
	"encoding/json"
	"fmt"
	"math"
	"math/big"
	"math/rand"
	"reflect"
	"strconv"
	"strings"
)

func mustInput(text string, doc any, vars map[string]any) *inputs {
	p, err := parseNoPanic(text)
	if err != nil || p == nil {
		return nil
	}
	return &inputs{text: text, p: p, doc: doc, vars: vars, zoneID: "UTC"}
}

// numeric corpus in three representations
var numCorpus = []string{"0", "1", "-1", "2", "3", "7", "-7", "10", "100", "2147483647", "2147483648", "-2147483648", "-2147483649",
	"4611686018427387904", "9007199254740992", "9007199254740993", "9223372036854775807", "-9223372036854775808", "-9223372036854775807",
	"0.5", "1.5", "2.5", "-2.5", "-0.5", "0.1", "3.7", "1e19", "1e308", "5e-324", "1e-7", "9223372036854775808", "1e21"}

func numValue(text string, repr int) (any, bool) {
	switch repr {
	case 0: // int64 when integral and in range, else skip
		i, err := strconv.ParseInt(text, 10, 64)
		if err != nil {
			return nil, false
		}
		return i, true
	case 1:
		f, err := strconv.ParseFloat(text, 64)
		if err != nil {
			return nil, false
		}
		return f, true
	default:
		return json.Number(text), true
	}
}

// exactOf returns the exact rational value the executor reads from a numeric item
// (json.Number: int64 if it parses as one, else its float64).
func exactOf(v any) (*big.Rat, bool, bool) { // value, isInt, ok
	switch v := v.(type) {
	case int64:
		return new(big.Rat).SetInt64(v), true, true
	case float64:
		if math.IsNaN(v) || math.IsInf(v, 0) {
			return nil, false, false
		}
		r := new(big.Rat)
		r.SetFloat64(v)
		return r, false, true
	case json.Number:
		if i, err := v.Int64(); err == nil {
			return new(big.Rat).SetInt64(i), true, true
		}
		if f, err := v.Float64(); err == nil {
			return exactOf(f)
		}
	}
	return nil, false, false
}

var minI64 = new(big.Int).SetInt64(math.MinInt64)
var maxI64 = new(big.Int).SetInt64(math.MaxInt64)

func fitsInt64(r *big.Rat) bool {
	if !r.IsInt() {
		return false
	}
	n := r.Num()
	return n.Cmp(minI64) >= 0 && n.Cmp(maxI64) <= 0
}

func init() {
	// ---- C13 ------------------------------------------------------------------------
	oracles["C13"] = func(o *oracleRun) J {
		if o.replay != nil {
			return c13pair(o, fmt.Sprint(o.replay["a"]), fmt.Sprint(o.replay["b"]), int(toF(o.replay["ra"])), int(toF(o.replay["rb"])), fmt.Sprint(o.replay["op"]))
		}
		r := rand.New(rand.NewSource(o.seed))
		ops := []string{"+", "-", "*", "/", "%"}
		for i := 0; i < o.n*4; i++ {
			a, b := numCorpus[r.Intn(len(numCorpus))], numCorpus[r.Intn(len(numCorpus))]
			if v := c13pair(o, a, b, r.Intn(3), r.Intn(3), ops[r.Intn(len(ops))]); v != nil {
				return v
			}
		}
		return nil
	}

	// ---- C12 ------------------------------------------------------------------------
	oracles["C12"] = func(o *oracleRun) J {
		r := rand.New(rand.NewSource(o.seed))
		var corpus []any
		for _, t := range numCorpus {
			for repr := 0; repr < 3; repr++ {
				if v, ok := numValue(t, repr); ok {
					corpus = append(corpus, v)
				}
			}
		}
		for _, s := range []string{"", "a", "ab", "b", "A", "é", "z", "10", "9"} {
			corpus = append(corpus, s)
		}
		corpus = append(corpus, true, false, nil, []any{}, []any{float64(1)}, map[string]any{}, map[string]any{"a": float64(1)})
		cmp := func(a, b any, op string) (string, *inputs) { // "t","f","u","e"
			in := mustInput("$a "+op+" $b", nil, map[string]any{"a": a, "b": b})
			in.p, _ = parseNoPanic("strict $a " + op + " $b")
			c := in.run("query", false, nil)
			if c.err != nil || c.panic_ != nil || len(c.items) != 1 {
				return "e", in
			}
			switch v := c.items[0].(type) {
			case bool:
				if v {
					return "t", in
				}
				return "f", in
			case nil:
				return "u", in
			}
			return "e", in
		}
		isScalar := func(v any) bool {
			switch v.(type) {
			case []any, map[string]any:
				return false
			}
			return true
		}
		mixedBig := func(a, b any) bool {
			big53 := func(v any) bool {
				r, _, ok := exactOf(v)
				if !ok {
					return false
				}
				lim := new(big.Rat).SetInt64(1 << 53)
				return new(big.Rat).Abs(r).Cmp(lim) > 0
			}
			_, ia, oka := exactOf(a)
			_, ib, okb := exactOf(b)
			return oka && okb && ia != ib && (big53(a) || big53(b))
		}
		for i := 0; i < o.n*2; i++ {
			a, b, c := corpus[r.Intn(len(corpus))], corpus[r.Intn(len(corpus))], corpus[r.Intn(len(corpus))]
			lt, in := cmp(a, b, "<")
			eq, _ := cmp(a, b, "==")
			gt, _ := cmp(a, b, ">")
			le, _ := cmp(a, b, "<=")
			ge, _ := cmp(a, b, ">=")
			ne, _ := cmp(a, b, "!=")
			gtr, _ := cmp(b, a, ">")
			ex := J{"a": encItem(a), "b": encItem(b), "lt": lt, "eq": eq, "gt": gt, "le": le, "ge": ge, "ne": ne}
			if lt == "e" || eq == "e" || gt == "e" {
				return violation(in, "comparison raised an error or returned several items", ex)
			}
			if !isScalar(a) || !isScalar(b) {
				if a != nil && b != nil && (lt != "u" || eq != "u" || gt != "u") {
					return violation(in, "a container compared as something other than unknown", ex)
				}
				continue
			}
			if lt == "u" || eq == "u" || gt == "u" {
				if !(lt == "u" && eq == "u" && gt == "u" && le == "u" && ge == "u" && ne == "u") {
					return violation(in, "unknown for some operators only", ex)
				}
				if reflect.TypeOf(a) == reflect.TypeOf(b) && a != nil {
					return violation(in, "same-type scalars compared as unknown", ex)
				}
				continue
			}
			if a == nil || b == nil {
				// null equals only null; otherwise only != is true
				wantEq := a == nil && b == nil
				if (eq == "t") != wantEq || (ne == "t") == wantEq {
					return violation(in, "null comparison rule", ex)
				}
				continue
			}
			n := 0
			for _, x := range []string{lt, eq, gt} {
				if x == "t" {
					n++
				}
			}
			if n != 1 {
				return violation(in, "not exactly one of <, ==, > holds", ex)
			}
			if (le == "t") != (lt == "t" || eq == "t") || (ge == "t") != (gt == "t" || eq == "t") || (ne == "t") == (eq == "t") {
				return violation(in, "<=, >=, != are not the unions/negation", ex)
			}
			if lt != gtr {
				return violation(in, "a < b differs from b > a", ex)
			}
			// numbers: by exact value (modulo D16)
			ra, _, oka := exactOf(a)
			rb, _, okb := exactOf(b)
			if oka && okb {
				want := ra.Cmp(rb)
				got := 0
				if lt == "t" {
					got = -1
				} else if gt == "t" {
					got = 1
				}
				if want != got && !(mixedBig(a, b) && o.isKnown("D16")) {
					return violation(in, "numbers are not ordered by value", ex)
				}
			}
			// transitivity
			lt2, _ := cmp(b, c, "<")
			lt3, _ := cmp(a, c, "<")
			if lt == "t" && lt2 == "t" && lt3 != "t" && !((mixedBig(a, b) || mixedBig(b, c) || mixedBig(a, c)) && o.isKnown("D16")) {
				ex["c"] = encItem(c)
				return violation(in, "< is not transitive", ex)
			}
			eq2, _ := cmp(b, c, "==")
			eq3, _ := cmp(a, c, "==")
			if eq == "t" && eq2 == "t" && eq3 != "t" && !((mixedBig(a, b) || mixedBig(b, c) || mixedBig(a, c)) && o.isKnown("D16")) {
				ex["c"] = encItem(c)
				return violation(in, "== is not transitive", ex)
			}
		}
		return nil
	}

	// ---- C14 ------------------------------------------------------------------------
	oracles["C14"] = func(o *oracleRun) J {
		r := rand.New(rand.NewSource(o.seed))
		alphabet := []any{nil, float64(1), "a", []any{float64(2)}, map[string]any{"a": float64(3)}}
		for i := 0; i < o.n*4; i++ {
			n := r.Intn(5)
			arr := make([]any, n)
			for j := range arr {
				arr[j] = alphabet[r.Intn(len(alphabet))]
			}
			k := 1 + r.Intn(3)
			var subs []string
			type rng struct{ from, to int }
			var ranges []rng
			for j := 0; j < k; j++ {
				from := r.Intn(9) - 2
				to := from
				s := strconv.Itoa(from)
				if r.Intn(3) == 0 {
					to = r.Intn(9) - 2
					s += " to " + strconv.Itoa(to)
				}
				subs = append(subs, s)
				ranges = append(ranges, rng{from, to})
			}
			strict := r.Intn(2) == 0
			text := "$[" + strings.Join(subs, ",") + "]"
			if strict {
				text = "strict " + text
			}
			in := mustInput(text, arr, nil)
			if in == nil {
				continue
			}
			c := in.run("query", false, nil)
			var want []any
			oob := false
			for _, rg := range ranges {
				if rg.from < 0 || rg.from > rg.to || rg.to >= n {
					oob = true
					if strict {
						break
					}
				}
				for idx := max(rg.from, 0); idx <= min(rg.to, n-1); idx++ {
					want = append(want, arr[idx])
				}
			}
			ex := J{"got": showCall(c)}
			if c.panic_ != nil {
				continue
			}
			if strict && oob {
				if c.class != "verbose" {
					return violation(in, "strict: out-of-range subscript is not the structural error", ex)
				}
				continue
			}
			if c.err != nil {
				return violation(in, "unexpected error for in-range or lax subscripts", ex)
			}
			if !sameItems(c.items, want) {
				// known: nulls dropped
				var wantNoNull []any
				for _, x := range want {
					if x != nil {
						wantNoNull = append(wantNoNull, x)
					}
				}
				if o.isKnown("D6") && sameItems(c.items, wantNoNull) {
					continue
				}
				items := make([]any, len(want))
				for i2, x := range want {
					items[i2] = encItem(x)
				}
				ex["want"] = items
				return violation(in, "subscripts do not select by position", ex)
			}
		}
		return nil
	}

	// ---- C15 ------------------------------------------------------------------------
	oracles["C15"] = func(o *oracleRun) J {
		r := rand.New(rand.NewSource(o.seed))
		var genTree func(d int) any
		genTree = func(d int) any {
			if d == 0 || r.Intn(3) == 0 {
				return []any{float64(1), "a", true, nil}[r.Intn(4)]
			}
			n := r.Intn(4)
			if r.Intn(2) == 0 {
				arr := make([]any, n)
				for i := range arr {
					arr[i] = genTree(d - 1)
				}
				return arr
			}
			obj := map[string]any{}
			for i := 0; i < n; i++ {
				obj[string(rune('a'+i))] = genTree(d - 1)
			}
			return obj
		}
		var walk func(v any, depth int, visit func(v any, depth int))
		walk = func(v any, depth int, visit func(v any, depth int)) {
			visit(v, depth)
			switch v := v.(type) {
			case []any:
				for _, x := range v {
					walk(x, depth+1, visit)
				}
			case map[string]any:
				keys := make([]string, 0, len(v))
				for k := range v {
					keys = append(keys, k)
				}
				sortStrings(keys)
				for _, k := range keys {
					walk(v[k], depth+1, visit)
				}
			}
		}
		for i := 0; i < o.n*3; i++ {
			doc := genTree(3)
			first, last := r.Intn(4), r.Intn(5)
			var text string
			var sel func(v any, d int) bool
			switch r.Intn(5) {
			case 0:
				text = "$.**"
				sel = func(v any, d int) bool { return true }
			case 1:
				text = fmt.Sprintf("$.**{%d}", first)
				sel = func(v any, d int) bool { return d == first }
			case 2:
				text = fmt.Sprintf("$.**{%d to %d}", first, last)
				sel = func(v any, d int) bool { return d >= first && d <= last }
			case 3:
				text = fmt.Sprintf("$.**{%d to last}", first)
				sel = func(v any, d int) bool { return d >= first }
			default:
				text = "$.**{last}"
				sel = func(v any, d int) bool {
					switch v.(type) {
					case []any, map[string]any:
						return false
					}
					return d >= 1
				}
			}
			if r.Intn(2) == 0 {
				text = "strict " + text
			}
			in := mustInput(text, doc, nil)
			if in == nil {
				continue
			}
			c := in.run("query", false, nil)
			var want []any
			walk(doc, 0, func(v any, d int) {
				if sel(v, d) {
					want = append(want, v)
				}
			})
			if c.panic_ != nil {
				continue
			}
			if c.err != nil || !sameItems(c.items, want) {
				items := make([]any, len(want))
				for i2, x := range want {
					items[i2] = encItem(x)
				}
				return violation(in, ".** does not visit the pre-order nodes of the selected depths once", J{"got": showCall(c), "want": items})
			}
		}
		return nil
	}

	// ---- C11 ------------------------------------------------------------------------
	oracles["C11"] = func(o *oracleRun) J {
		operand := map[string]string{"t": "(1 == 1)", "f": "(1 == 2)", "u": "(1 == \"a\")", "e": "($missing == 1)"}
		val := func(text string, strict bool) (string, *inputs) {
			if strict {
				text = "strict " + text
			}
			in := mustInput(text, nil, nil)
			if in == nil {
				return "x", nil
			}
			c := in.run("query", false, nil)
			if c.panic_ != nil {
				return "x", in
			}
			if c.err != nil {
				return "e", in
			}
			if len(c.items) != 1 {
				return "x", in
			}
			switch v := c.items[0].(type) {
			case bool:
				if v {
					return "t", in
				}
				return "f", in
			case nil:
				return "u", in
			}
			return "x", in
		}
		kand := func(a, b string) string {
			switch {
			case a == "f":
				return "f"
			case a == "e":
				return "e"
			case b == "f":
				return "f"
			case b == "e":
				return "e"
			case a == "t" && b == "t":
				return "t"
			}
			return "u"
		}
		kor := func(a, b string) string {
			switch {
			case a == "t":
				return "t"
			case a == "e":
				return "e"
			case b == "t":
				return "t"
			case b == "e":
				return "e"
			case a == "f" && b == "f":
				return "f"
			}
			return "u"
		}
		knot := map[string]string{"t": "f", "f": "t", "u": "u", "e": "e"}
		isunk := map[string]string{"t": "f", "f": "f", "u": "t", "e": "t"} // a non-cancellation error means unknown
		for _, strict := range []bool{false, true} {
			for a, ta := range operand {
				if got, in := val("!"+ta, strict); got != knot[a] {
					return violation(in, "! does not follow the Kleene table", J{"operand": a, "got": got, "want": knot[a]})
				}
				if got, in := val(ta+" is unknown", strict); got != isunk[a] {
					return violation(in, "is unknown is not two-valued on the operand's outcome", J{"operand": a, "got": got, "want": isunk[a]})
				}
				for b, tb := range operand {
					if got, in := val(ta+" && "+tb, strict); got != kand(a, b) {
						return violation(in, "&& does not follow the Kleene table", J{"a": a, "b": b, "got": got, "want": kand(a, b)})
					}
					if got, in := val(ta+" || "+tb, strict); got != kor(a, b) {
						return violation(in, "|| does not follow the Kleene table", J{"a": a, "b": b, "got": got, "want": kor(a, b)})
					}
				}
			}
		}
		// exists: true / false by emptiness, unknown when the operand fails
		for _, tc := range []struct{ text, want string }{
			{"exists($.a)", "t"}, {"exists($.b)", "f"}, {"strict exists($.b)", "u"}, {"exists($.a ? (@ > 5))", "f"}} {
			in := mustInput(tc.text, map[string]any{"a": float64(1)}, nil)
			c := in.run("query", false, nil)
			got := "x"
			if c.err == nil && len(c.items) == 1 {
				switch v := c.items[0].(type) {
				case bool:
					got = map[bool]string{true: "t", false: "f"}[v]
				case nil:
					got = "u"
				}
			}
			if got != tc.want {
				return violation(in, "exists() outcome", J{"got": got, "want": tc.want})
			}
		}
		return nil
	}

	// ---- C07 ------------------------------------------------------------------------
	oracles["C07"] = func(o *oracleRun) J {
		return execOracle(o, []string{"accessor"}, func(in *inputs) J {
			if !in.p.IsLax() || !accessorOnly(in.text) {
				return nil
			}
			for _, entry := range []string{"query", "exists"} {
				c := in.run(entry, false, nil)
				if c.panic_ != nil {
					continue
				}
				if c.err != nil && c.class != "NULL" {
					return violation(in, "lax accessor path returned an error", J{"entry": entry, "got": showCall(c)})
				}
			}
			return nil
		})
	}

	// ---- C09 ------------------------------------------------------------------------
	oracles["C09"] = func(o *oracleRun) J {
		r := rand.New(rand.NewSource(o.seed))
		steps := []string{".a", ".b", ".*", "[*]", "[0]", "[1]", "[last]", "[0 to 1]", ".type()", ".size()", ".abs()", ".string()", ".double()", ".c"}
		g := &gen{r: r, p: profiles["accessor"]}
		g.keys = []string{"a", "b", "c"}
		for i := 0; i < o.n*2; i++ {
			np, ns := 1+r.Intn(3), 1+r.Intn(3)
			var P, S string
			for j := 0; j < np; j++ {
				P += steps[r.Intn(len(steps))]
			}
			for j := 0; j < ns; j++ {
				S += steps[r.Intn(len(steps))]
			}
			mode := ""
			if r.Intn(2) == 0 {
				mode = "strict "
			}
			doc := g.value(3, r.Intn(2))
			full := mustInput(mode+"$"+P+S, doc, nil)
			pre := mustInput(mode+"$"+P, doc, nil)
			if full == nil || pre == nil {
				continue
			}
			cf := full.run("query", false, nil)
			cp := pre.run("query", false, nil)
			if cf.panic_ != nil || cp.panic_ != nil {
				continue
			}
			var want []any
			var wantErr string
			if cp.err != nil {
				wantErr = cp.class
			} else {
				for _, x := range cp.items {
					suf := mustInput(mode+"$"+S, x, nil)
					cs := suf.run("query", false, nil)
					if cs.err != nil {
						wantErr = cs.class
						break
					}
					want = append(want, cs.items...)
				}
			}
			ex := J{"P": P, "S": S, "full": showCall(cf), "prefix": showCall(cp)}
			if wantErr != "" {
				if cf.class != wantErr {
					return violation(full, "P S does not fail where P then S fails", ex)
				}
				continue
			}
			if cf.err != nil || !sameItems(cf.items, want) {
				return violation(full, "Query(P S) differs from the concatenation of Query($ S, x) over Query(P)", ex)
			}
		}
		return nil
	}

	// ---- C10 ------------------------------------------------------------------------
	oracles["C10"] = func(o *oracleRun) J {
		r := rand.New(rand.NewSource(o.seed))
		conds := []string{"@ > 1", "@ == 1", "@.a == 1", "exists(@.a)", "@ starts with \"a\"", "@ like_regex \"^a\"", "@ > 1 && @ < 3", "!(@ == 1)",
			"(@ == 1) is unknown", "@.a > 1 || @.b == \"a\"", "@.type() == \"number\"", "@ == $v", "@.size() > 1"}
		prefixes := []string{"$", "$.a", "$[*]", "$.*", "$.a[*]", "$.**"}
		g := &gen{r: r, p: profiles["predicate"]}
		g.keys = []string{"a", "b"}
		for i := 0; i < o.n*2; i++ {
			P, C := prefixes[r.Intn(len(prefixes))], conds[r.Intn(len(conds))]
			mode := ""
			strict := r.Intn(2) == 0
			if strict {
				mode = "strict "
			}
			doc := g.value(3, r.Intn(2))
			vars := map[string]any{"v": float64(1)}
			fin := mustInput(mode+P+" ? ("+C+")", doc, vars)
			pin := mustInput(mode+P, doc, vars)
			if fin == nil || pin == nil {
				continue
			}
			cf, cp := fin.run("query", false, nil), pin.run("query", false, nil)
			if cf.panic_ != nil || cp.panic_ != nil || cp.err != nil {
				continue
			}
			items := cp.items
			if !strict { // one level of unwrapping in lax mode
				var un []any
				for _, x := range items {
					if a, ok := x.([]any); ok {
						un = append(un, a...)
					} else {
						un = append(un, x)
					}
				}
				items = un
			}
			var want []any
			hard := false
			for _, x := range items {
				ci := mustInput(mode+strings.ReplaceAll(C, "@", "$"), x, vars)
				cc := ci.run("query", false, nil)
				if cc.err != nil {
					if cc.class == "hard" {
						hard = true
						break
					}
					continue // a suppressible error inside C is unknown
				}
				if len(cc.items) == 1 && cc.items[0] == true {
					want = append(want, x)
				}
			}
			ex := J{"P": P, "C": C, "filter": showCall(cf), "prefix": showCall(cp)}
			if hard {
				if cf.class != "hard" {
					return violation(fin, "a non-suppressible error inside the condition is not reported", ex)
				}
				continue
			}
			if cf.err != nil || !sameItems(cf.items, want) {
				return violation(fin, "filter does not keep exactly the items for which the condition is true", ex)
			}
		}
		return nil
	}

	// ---- C16 ------------------------------------------------------------------------
	oracles["C16"] = func(o *oracleRun) J {
		r := rand.New(rand.NewSource(o.seed))
		texts := append([]string{}, numCorpus...)
		texts = append(texts, "2147483647.4", "2147483647.5", "-2147483648.5", "9223372036854775807.4", "0.49999999999999994", "-0.5", "1e400")
		for i := 0; i < o.n*3; i++ {
			t := texts[r.Intn(len(texts))]
			repr := r.Intn(4)
			var v any
			if repr == 3 {
				v = t // string form
			} else {
				var ok bool
				v, ok = numValue(t, repr)
				if !ok {
					continue
				}
			}
			exact, ok := new(big.Rat).SetString(t)
			if f, isF := v.(float64); isF {
				exact, _, ok = exactOf(f)
			}
			if !ok {
				continue
			}
			for _, m := range []string{"integer", "bigint", "double", "number"} {
				in := mustInput("$."+m+"()", v, nil)
				c := in.run("query", false, nil)
				if c.panic_ != nil {
					return violation(in, "panic", J{"got": showCall(c)})
				}
				ex := J{"got": showCall(c)}
				if c.err != nil {
					if c.class != "verbose" {
						return violation(in, "conversion error is not suppressible", ex)
					}
					continue
				}
				if len(c.items) != 1 {
					return violation(in, "conversion returned several items", ex)
				}
				switch m {
				case "integer", "bigint":
					got, isInt := c.items[0].(int64)
					if !isInt {
						return violation(in, "not an integer result", ex)
					}
					if m == "integer" && (got > math.MaxInt32 || got < math.MinInt32) {
						return violation(in, ".integer() outside int32", ex)
					}
					if _, isStr := v.(string); isStr {
						continue
					}
					// correctly rounded (half away from zero) value of what the executor read
					rd, _, _ := exactOf(v)
					if rd == nil {
						continue
					}
					want := roundHalfAway(rd)
					if want.Cmp(big.NewInt(got)) != 0 {
						if jn, isJ := v.(json.Number); isJ && o.isKnown("D17d") {
							if _, err := jn.Int64(); err != nil {
								continue
							}
						}
						ex["want"] = want.String()
						return violation(in, "."+m+"() is not the correctly rounded value", ex)
					}
				case "double", "number":
					f, isF := c.items[0].(float64)
					if !isF || math.IsNaN(f) || math.IsInf(f, 0) {
						return violation(in, "."+m+"() returned a non-finite or non-double value", ex)
					}
				}
			}
			_ = exact
			// .string() then back
			in := mustInput("$.string()", v, nil)
			c := in.run("query", false, nil)
			if c.err == nil && len(c.items) == 1 {
				if s, ok := c.items[0].(string); ok {
					back := map[string]string{}
					switch v.(type) {
					case float64, json.Number:
						back["double"] = "double"
					case int64:
						back["bigint"] = "bigint"
					}
					for m := range back {
						in2 := mustInput("$."+m+"()", s, nil)
						orig := mustInput("$."+m+"()", v, nil)
						c2, c1 := in2.run("query", false, nil), orig.run("query", false, nil)
						if c1.err == nil && (c2.err != nil || !sameItems(c1.items, c2.items)) {
							return violation(in2, ".string() output does not convert back to an equal value", J{"via": m, "direct": showCall(c1), "back": showCall(c2), "orig": encItem(v)})
						}
					}
				}
			}
		}
		// decimal digit count / NaN (known findings)
		for _, tc := range []struct {
			v    any
			p, s int
		}{{float64(100), 2, 0}, {float64(1), 2, 309}, {float64(123.456), 4, 1}, {float64(99.99), 4, 2}, {float64(99.999), 4, 2},
			{1e300, 1000, 10}, {1e10, 1000, 300}, {12345.5, 400, 308}, {float64(2), 1000, 308}, {-1.75, 1000, 308}, {1e300, 1000, -300}, {1e-300, 1000, 308}, {float64(0), 5, 308}} {
			in := mustInput(fmt.Sprintf("$.decimal(%d,%d)", tc.p, tc.s), tc.v, nil)
			c := in.run("query", false, nil)
			if c.err != nil || len(c.items) != 1 {
				continue
			}
			f, _ := c.items[0].(float64)
			if math.IsNaN(f) || math.IsInf(f, 0) {
				if (tc.s > 308 || tc.s < -308) && o.isKnown("D17c") {
					continue
				}
				return violation(in, ".decimal returned a non-finite value", J{"got": showCall(c)})
			}
			if math.Abs(f) >= math.Pow10(tc.p-tc.s) {
				if o.isKnown("D17b") {
					continue
				}
				return violation(in, ".decimal returned a value outside the declared precision", J{"got": showCall(c)})
			}
		}
		return nil
	}
}

func toF(v any) float64 {
	switch v := v.(type) {
	case float64:
		return v
	case json.Number:
		f, _ := v.Float64()
		return f
	}
	return 0
}

func roundHalfAway(r *big.Rat) *big.Int {
	two := big.NewInt(2)
	num := new(big.Int).Mul(r.Num(), two)
	den := new(big.Int).Set(r.Denom())
	// floor((2n + d) / 2d) for positives; mirror for negatives
	neg := r.Sign() < 0
	if neg {
		num.Neg(num)
	}
	num.Add(num, den)
	den.Mul(den, two)
	q := new(big.Int).Quo(num, den)
	if neg {
		q.Neg(q)
	}
	return q
}

func sortStrings(s []string) {
	for i := 1; i < len(s); i++ {
		for j := i; j > 0 && s[j] < s[j-1]; j-- {
			s[j], s[j-1] = s[j-1], s[j]
		}
	}
}

// accessorOnly reports whether the path text uses only accessor syntax (no
// filters, methods, arithmetic, variables or literals besides subscript bounds).
func accessorOnly(text string) bool {
	for _, bad := range []string{"?", "(", "+", "/", "%", "\"", " to $", "$v", "$w", "$n", "$s", "@", "=", "<", ">", "!", "&", "|", "e", "."} {
		_ = bad
	}
	if strings.ContainsAny(text, "?()+/%@=<>!&|") {
		return false
	}
	body := strings.TrimPrefix(strings.TrimPrefix(text, "lax "), "strict ")
	if !strings.HasPrefix(body, "$") || strings.Contains(body[1:], "$") {
		return false
	}
	// subscripts must be small literal integers, `last`, or `last - k`
	depth := 0
	for i := 0; i < len(body); i++ {
		switch body[i] {
		case '[':
			depth++
			if depth > 1 {
				return false // a subscript applied inside a subscript is an expression, not a literal or last-relative bound
			}
		case ']':
			depth--
		default:
			if depth > 0 {
				c := body[i]
				ok := c == ' ' || c == ',' || c == '-' || c == '*' || (c >= '0' && c <= '9') || strings.ContainsRune("lasto", rune(c))
				if !ok {
					return false
				}
			}
		}
	}
	// no huge literals, fractions or quoted things inside subscripts
	for _, tok := range strings.FieldsFunc(body, func(r rune) bool { return r == '[' || r == ']' || r == ',' || r == ' ' }) {
		if n, err := strconv.ParseInt(tok, 10, 64); err == nil && (n > 1<<20 || n < -(1<<20)) {
			return false
		}
	}
	return !strings.Contains(body, "\"1\"") && !strings.Contains(body, "null") && !strings.Contains(body, "true")
}

func c13pair(o *oracleRun, a, b string, ra, rb int, op string) J {
	va, ok1 := numValue(a, ra)
	vb, ok2 := numValue(b, rb)
	if !ok1 || !ok2 {
		return nil
	}
	in := mustInput("$a "+op+" $b", nil, map[string]any{"a": va, "b": vb})
	if in == nil {
		return nil
	}
	c := in.run("query", false, nil)
	ex := J{"a": a, "b": b, "ra": ra, "rb": rb, "op": op, "got": showCall(c)}
	if c.panic_ != nil {
		return violation(in, "panic", ex)
	}
	xa, ia, oka := exactOf(va)
	xb, ib, okb := exactOf(vb)
	if !oka || !okb {
		return nil
	}
	if (op == "/" || op == "%") && xb.Sign() == 0 {
		if c.class != "verbose" {
			return violation(in, "division by zero is not the suppressible error", ex)
		}
		return nil
	}
	if c.err != nil {
		if c.class != "verbose" {
			return violation(in, "arithmetic error is not suppressible", ex)
		}
		// only overflow may fail
		return nil
	}
	if len(c.items) != 1 {
		return violation(in, "arithmetic returned several items", ex)
	}
	if f, isF := c.items[0].(float64); isF && (math.IsNaN(f) || math.IsInf(f, 0)) {
		return violation(in, "arithmetic returned Inf or NaN", ex)
	}
	if ia && ib {
		var exact *big.Rat
		switch op {
		case "+":
			exact = new(big.Rat).Add(xa, xb)
		case "-":
			exact = new(big.Rat).Sub(xa, xb)
		case "*":
			exact = new(big.Rat).Mul(xa, xb)
		case "/":
			q := new(big.Int).Quo(xa.Num(), xb.Num()) // truncated
			exact = new(big.Rat).SetInt(q)
		case "%":
			m := new(big.Int).Rem(xa.Num(), xb.Num())
			exact = new(big.Rat).SetInt(m)
		}
		got, isInt := c.items[0].(int64)
		if fitsInt64(exact) {
			if !isInt || exact.Num().Cmp(big.NewInt(got)) != 0 {
				ex["want"] = exact.String()
				return violation(in, "integer operands, result fits int64, but the result is not that integer", ex)
			}
		} else if isInt {
			ex["exact"] = exact.String()
			return violation(in, "an integer result that does not fit was wrapped into a wrong integer", ex)
		}
	}
	// commutativity
	if op == "+" || op == "*" {
		in2 := mustInput("$b "+op+" $a", nil, map[string]any{"a": va, "b": vb})
		c2 := in2.run("query", false, nil)
		if (c2.err == nil) != (c.err == nil) || (c.err == nil && !sameItems(c.items, c2.items)) {
			return violation(in, "x op y differs from y op x", ex)
		}
	}
	return nil
}
