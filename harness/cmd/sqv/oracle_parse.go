package main

// Go-only oracles for the parser properties C02, C03, C04: the properties written as predicates
// over the real API (no model involved). Used to search for a failing input after a proof
// obligation or the correspondence broke, and to replay one.

import (
	"bytes"
	"fmt"
	"math"
	"math/rand"
	"strconv"
	"strings"

	"github.com/theory/sqljson/path"
	"github.com/theory/sqljson/path/ast"
)

func init() {
	oracles["C02"] = func(o *oracleRun) J { return parseOracle(o, checkC02) }
	oracles["C03"] = func(o *oracleRun) J { return parseOracle(o, checkC03) }
	oracles["C04"] = func(o *oracleRun) J { return parseOracle(o, checkC04) }
}

// parseInput is one candidate: a source text, or an AST in wire form (printer cases).
type parseInput struct {
	src  []byte
	astW any
	toks toks // token list the text was joined from, when known
}

func (in parseInput) J() J {
	if in.astW != nil {
		return J{"op": "print", "ast": in.astW}
	}
	return J{"op": "parse", "bytes": bytesToInts(in.src), "text": string(in.src)}
}

func parseInputOf(m map[string]any) (parseInput, bool) {
	if c, ok := m["case"].(map[string]any); ok {
		m = c
	}
	if m["op"] == "print" && m["ast"] != nil {
		return parseInput{astW: m["ast"]}, true
	}
	if b, ok := m["bytes"]; ok {
		return parseInput{src: intsToBytes(b)}, true
	}
	if s, ok := m["text"].(string); ok {
		return parseInput{src: []byte(s)}, true
	}
	return parseInput{}, false
}

type parseCheck func(o *oracleRun, g *pathGen, in parseInput) J

func parseOracle(o *oracleRun, check parseCheck) J {
	g := newPathGen(rand.New(rand.NewSource(o.seed)))
	if o.replay != nil {
		if in, ok := parseInputOf(o.replay); ok {
			return check(o, g, in)
		}
		if inp, ok := o.replay["input"].(map[string]any); ok {
			if in, ok := parseInputOf(inp); ok {
				return check(o, g, in)
			}
		}
		return nil
	}
	for _, s := range o.seeds {
		if in, ok := parseInputOf(s); ok {
			if v := check(o, g, in); v != nil {
				return v
			}
		}
	}
	n := o.n * 10
	for i := 0; i < n; i++ {
		var in parseInput
		switch c := g.r.Intn(100); {
		case c < 55:
			g.inFilter, g.inSubscript = 0, 0
			t := g.genPath()
			in = parseInput{src: g.join(t), toks: t}
		case c < 65:
			g.inFilter, g.inSubscript = 0, 0
			in = parseInput{src: g.mutate(g.join(g.genPath()))}
		case c < 72:
			in = parseInput{src: g.randomBytes()}
		case c < 82:
			s := nearMisses[g.r.Intn(len(nearMisses))]
			t := contextTemplates[g.r.Intn(len(contextTemplates))]
			in = parseInput{src: []byte(strings.ReplaceAll(t, "%s", s))}
		case c < 90:
			g.inFilter, g.inSubscript = 0, 0
			t := g.genPath()
			pt := panicTokens[g.r.Intn(len(panicTokens))]
			k := g.r.Intn(len(t) + 1)
			in = parseInput{src: g.join(append(append(append(toks{}, t[:k]...), pt), t[k:]...))}
		default:
			a := &astGen{g: g, cs: charSet{}}
			in = parseInput{astW: J{"root": a.node(3, false, false, false), "lax": g.chance(0.5), "pred": false}}
		}
		if v := check(o, g, in); v != nil {
			return v
		}
	}
	return nil
}

// pathOf turns an input into a *path.Path (nil when it does not parse / cannot be built).
func pathOf(in parseInput) (p *path.Path) {
	defer func() {
		if recover() != nil {
			p = nil
		}
	}()
	if in.astW != nil {
		m, _ := normJSON(in.astW).(map[string]any)
		root, err := decNode(m["root"])
		if err != nil || root == nil {
			return nil
		}
		lax, _ := m["lax"].(bool)
		pred, _ := m["pred"].(bool)
		a, err := ast.New(lax, pred, root)
		if err != nil {
			return nil
		}
		return path.New(a)
	}
	_, p = goParse(string(in.src))
	return p
}

func safeString(p *path.Path) (s string, ok bool) {
	defer func() {
		if recover() != nil {
			ok = false
		}
	}()
	return p.String(), true
}

// knownPrintShape reports the recorded findings D3 (an operator/predicate node carrying an
// accessor chain prints without parentheses) and D5 (a numeric literal with an integral value
// prints as an integer) anywhere in the tree.
func knownPrintShape(w any) string {
	m, ok := w.(J)
	if !ok {
		if mm, ok2 := w.(map[string]any); ok2 {
			m = J(mm)
		} else {
			return ""
		}
	}
	if m == nil {
		return ""
	}
	switch m["t"] {
	case "binary":
		switch m["op"] {
		case "subscript", "decimal":
		default:
			if m["next"] != nil {
				return "D3"
			}
		}
	case "unary":
		switch m["op"] {
		case "exists", "not", "isUnknown", "plus", "minus":
			if m["next"] != nil {
				return "D3"
			}
		}
	case "regex":
		if m["next"] != nil {
			return "D3"
		}
	case "numeric":
		if f, ok := m["f"].(string); ok {
			if bits, err := strconv.ParseUint(f, 16, 64); err == nil {
				if v := math.Float64frombits(bits); v == math.Trunc(v) {
					return "D5"
				}
			}
		}
	}
	for _, k := range []string{"next", "l", "r", "x"} {
		if s := knownPrintShape(m[k]); s != "" {
			return s
		}
	}
	if subs, ok := m["subs"].([]any); ok {
		for _, s := range subs {
			if k := knownPrintShape(s); k != "" {
				return k
			}
		}
	}
	return ""
}

// checkC02: canonical text round-trips.
func checkC02(o *oracleRun, _ *pathGen, in parseInput) J {
	if in.astW == nil {
		if r, _ := goParse(string(in.src)); r["out"] == "glue" {
			if what := fmt.Sprint(r["what"]); strings.Contains(what, "Marshal") || strings.Contains(what, "Scan") || strings.Contains(what, "Value") || strings.Contains(what, "copy") {
				return J{"violates": "C02: " + what, "input": in.J()}
			}
		}
	}
	p := pathOf(in)
	if p == nil {
		return nil
	}
	s1, ok := safeString(p)
	if !ok {
		return nil // String() on a tree no parser produces (nil operands); not C02's subject
	}
	if in.astW != nil {
		// C02 speaks about paths accepted by Parse: a constructed tree only serves to find one
		if _, p = goParse(s1); p == nil {
			return nil
		}
		if s1, ok = safeString(p); !ok {
			return J{"violates": "C02: String() panics on a parsed path", "input": in.J()}
		}
	}
	w1 := encAST(p.AST)
	if k := knownPrintShape(w1.(J)["root"]); k != "" && knownListed(o, k) {
		return nil
	}
	p2, err := path.Parse(s1)
	viol := func(why string, extra J) J {
		out := J{"violates": "C02: " + why, "input": in.J(), "printed": s1}
		for k, v := range extra {
			out[k] = v
		}
		return out
	}
	if err != nil {
		return viol("Parse(p.String()) fails", J{"error": err.Error()})
	}
	if s2 := p2.String(); s2 != s1 {
		return viol("String is not a fixed point", J{"reprinted": s2})
	}
	if w2 := encAST(p2.AST); !bytes.Equal(marshal(w1), marshal(w2)) {
		return viol("Parse(p.String()) is a different tree", J{"tree": w1, "reparsed": w2})
	}
	if g := parseGlue(s1, p2, nil); g != "" {
		return viol("wrapper: "+g, nil)
	}
	return nil
}

func knownListed(o *oracleRun, id string) bool {
	for _, k := range o.known {
		if k.ID == id {
			return true
		}
	}
	return false
}

// checkC03: the value of the text does not depend on layout or on what follows it; literals
// denote their value.
func checkC03(_ *oracleRun, g *pathGen, in parseInput) J {
	if in.astW != nil {
		return nil
	}
	res := func(b []byte) string {
		r, _ := goParse(string(b))
		delete(r, "str")
		return string(marshal(r))
	}
	base := res(in.src)
	viol := func(why string, other []byte) J {
		return J{"violates": "C03: " + why, "input": in.J(), "other": J{"bytes": bytesToInts(other), "text": string(other)},
			"result": base, "other_result": res(other)}
	}
	if in.toks != nil {
		for i := 0; i < 3; i++ {
			alt := g.join(in.toks)
			if res(alt) != base {
				return viol("two layouts of the same token sequence parse differently", alt)
			}
		}
	}
	if strings.Contains(base, `"out":"ok"`) {
		for _, tail := range []string{" ", "\n", "\t", " /* c */", "/**/ "} {
			alt := append(append([]byte{}, in.src...), tail...)
			if res(alt) != base {
				return viol("the result depends on trailing layout", alt)
			}
		}
	}
	// literals denote their value
	n := g.r.Int63n(1 << uint(1+g.r.Intn(40)))
	forms := []string{strconv.FormatInt(n, 10), "0x" + strconv.FormatInt(n, 16), "0X" + strings.ToUpper(strconv.FormatInt(n, 16)),
		"0o" + strconv.FormatInt(n, 8), "0b" + strconv.FormatInt(n, 2)}
	if d := strconv.FormatInt(n, 10); len(d) > 2 {
		forms = append(forms, d[:1]+"_"+d[1:])
	}
	for _, f := range forms {
		_, p := goParse(f)
		if p == nil {
			return J{"violates": "C03: an integer literal form is rejected", "input": J{"text": f}}
		}
		in2, ok := p.AST.Root().(*ast.IntegerNode)
		if !ok || in2.Int() != n {
			return J{"violates": "C03: an integer literal does not denote its value", "input": J{"text": f}, "expected": n, "printed": p.String()}
		}
	}
	content := g.stringContent()
	keep := content[:0:0]
	for _, r := range content {
		if r != 0 {
			keep = append(keep, r)
		}
	}
	for i := 0; i < 2; i++ {
		lit := g.quoted(keep)
		for _, tail := range []string{"", " ", " == 1"} {
			_, p := goParse(lit + tail)
			if p == nil {
				return J{"violates": "C03: a string literal spelling is rejected", "input": J{"text": lit + tail}}
			}
			var node ast.Node = p.AST.Root()
			if b, ok := node.(*ast.BinaryNode); ok {
				node = b.Left()
			}
			sn, ok := node.(*ast.StringNode)
			if !ok || sn.Text() != string(keep) {
				return J{"violates": "C03: a string literal does not denote its characters", "input": J{"text": lit + tail}, "expected": string(keep)}
			}
		}
	}
	return nil
}

// checkC04: Parse is total and the wrappers agree with it.
func checkC04(_ *oracleRun, _ *pathGen, in parseInput) J {
	if in.astW != nil {
		return nil
	}
	r, p := goParse(string(in.src))
	switch r["out"] {
	case "panic":
		return J{"violates": "C04: Parse panics", "input": in.J()}
	case "glue":
		return J{"violates": fmt.Sprint("C04: ", r["what"]), "input": in.J()}
	}
	if p != nil {
		var rx []*ast.RegexNode
		regexNodes(p.AST.Root(), &rx)
		for _, n := range rx {
			if !regexCompiles(n) {
				return J{"violates": "C04: an accepted like_regex does not compile at execution time", "input": in.J()}
			}
		}
	}
	return nil
}

func regexCompiles(n *ast.RegexNode) (ok bool) {
	defer func() {
		if recover() != nil {
			ok = false
		}
	}()
	return n.Regexp() != nil
}
