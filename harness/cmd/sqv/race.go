package main

// race: N goroutines x M calls over a pool of paths of every node kind against
// shared documents and variable maps; each concurrent outcome is compared with
// the outcome of the same call run alone. Built with -race in the thorough
// tier of C19 (the race detector makes the process exit with status 66).

import (
	"context"
	"flag"
	"fmt"
	"math/rand"
	"os"
	"reflect"
	"sync"

	"github.com/theory/sqljson/path"
	"github.com/theory/sqljson/path/exec"
	"github.com/theory/sqljson/path/types"
)

func init() {
	register("race", "concurrent calls on shared paths/documents, compared with isolated calls", raceCmd)
}

var racePaths = []string{
	`$.a[*] ? (@.b > 1).c`, `strict $.**{1 to 2}`, `$.*.keyvalue().value`, `$.a.size() + $.b.double()`,
	`$.s like_regex "^a.*" flag "i"`, `$.s starts with $p`, `$.d.datetime() < "2024-01-01".date()`,
	`$.t.timestamp_tz(3)`, `$.a[last - 1, 0 to 1]`, `exists($.a[*] ? (@.b == $n))`, `($.a[*].b == 2) is unknown`,
	`-$.a[*].b`, `$.a[*].b.string().bigint()`, `$.n.decimal(5,2)`, `lax $.x.y.z`, `strict $.x.y.z`,
	`$.a[*] ? (exists(@.c ? (@ > 0)))`, `$.k.*.type()`, `!($.a.size() > 5) && $.s == "abc"`,
}

func raceCmd(args []string) int {
	fs := flag.NewFlagSet("race", flag.ExitOnError)
	seed := fs.Int64("seed", 1, "seed")
	workers := fs.Int("workers", 16, "goroutines")
	calls := fs.Int("calls", 300, "calls per goroutine")
	out := fs.String("out", "", "write a mismatch report here")
	_ = fs.Parse(args)

	doc := map[string]any{
		"a": []any{map[string]any{"b": float64(1), "c": []any{float64(1), float64(-1)}}, map[string]any{"b": float64(2), "c": float64(3)}, map[string]any{"b": "x"}},
		"b": "2.5", "s": "abc", "d": "2023-08-15", "t": "2023-08-15T12:34:56.789123+02:00", "n": float64(123.456),
		"k": map[string]any{"u": float64(1), "v": "w", "z": nil},
	}
	vars := exec.Vars{"p": "ab", "n": float64(2)}
	type job struct {
		p     *path.Path
		entry int
	}
	var jobs []job
	for _, t := range racePaths {
		p, err := path.Parse(t)
		if err != nil {
			fmt.Fprintln(os.Stderr, "race: cannot parse", t, err)
			return 2
		}
		for e := 0; e < 5; e++ {
			jobs = append(jobs, job{p, e})
		}
	}
	ctx := types.ContextWithTZ(context.Background(), zoneFor("fixed:3600"))
	runJob := func(j job) (res string) {
		defer func() {
			if r := recover(); r != nil {
				res = fmt.Sprint("panic: ", r)
			}
		}()
		opts := []exec.Option{exec.WithVars(vars), exec.WithTZ()}
		switch j.entry {
		case 0:
			v, err := j.p.Query(ctx, doc, opts...)
			enc := make([]any, len(v))
			for i, x := range v {
				enc[i] = encItem(maskIDs(x))
			}
			return fmt.Sprint(string(marshal(enc)), err)
		case 1:
			v, err := j.p.First(ctx, doc, opts...)
			return fmt.Sprint(string(marshal(encItem(maskIDs(v)))), err)
		case 2:
			v, err := j.p.Exists(ctx, doc, opts...)
			return fmt.Sprint(v, err)
		case 3:
			v, err := j.p.Match(ctx, doc, append(opts, exec.WithSilent())...)
			return fmt.Sprint(v, err)
		default:
			q, err := path.Parse(j.p.String())
			if err != nil {
				return "reparse: " + err.Error()
			}
			return j.p.String() + " | " + q.String()
		}
	}
	want := make([]string, len(jobs))
	for i, j := range jobs {
		want[i] = runJob(j)
	}
	docBefore := encItem(doc)
	var mu sync.Mutex
	var mismatch []string
	var wg sync.WaitGroup
	for w := 0; w < *workers; w++ {
		wg.Add(1)
		go func(w int) {
			defer wg.Done()
			r := rand.New(rand.NewSource(*seed*1000 + int64(w)))
			for c := 0; c < *calls; c++ {
				i := r.Intn(len(jobs))
				if got := runJob(jobs[i]); got != want[i] {
					mu.Lock()
					mismatch = append(mismatch, fmt.Sprintf("path %q entry %d: alone %s, concurrent %s", jobs[i].p.String(), jobs[i].entry, want[i], got))
					mu.Unlock()
				}
			}
		}(w)
	}
	wg.Wait()
	if !reflect.DeepEqual(docBefore, encItem(doc)) {
		mismatch = append(mismatch, "shared document modified")
	}
	fmt.Printf("race: %d goroutines x %d calls over %d jobs, %d mismatches\n", *workers, *calls, len(jobs), len(mismatch))
	if len(mismatch) > 0 {
		if *out != "" {
			_ = os.WriteFile(*out, marshal(J{"violates": "a concurrent call returned something else than the same call run alone", "mismatches": mismatch[:min(len(mismatch), 10)], "seed": *seed}), 0o644)
		}
		return 1
	}
	return 0
}
