// Command sqv is the Go side of the correspondence check: it generates cases,
// runs them against the real packages under /repo, and hosts the per-property
// oracles used to search for a failing input.
//
// Usage: sqv <subcommand> [flags]
//
// Every subcommand registers itself in `commands` from its own file.
package main

import (
	"fmt"
	"os"
	"sort"
)

type command struct {
	help string
	run  func(args []string) int
}

var commands = map[string]command{}

func register(name, help string, run func(args []string) int) {
	commands[name] = command{help, run}
}

func main() {
	if len(os.Args) < 2 {
		usage()
		os.Exit(2)
	}
	c, ok := commands[os.Args[1]]
	if !ok {
		usage()
		os.Exit(2)
	}
	os.Exit(c.run(os.Args[2:]))
}

func usage() {
	names := make([]string, 0, len(commands))
	for n := range commands {
		names = append(names, n)
	}
	sort.Strings(names)
	fmt.Fprintln(os.Stderr, "usage: sqv <subcommand> [flags]")
	for _, n := range names {
		fmt.Fprintf(os.Stderr, "  %-14s %s\n", n, commands[n].help)
	}
}
