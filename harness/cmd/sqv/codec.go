package main

// Wire format shared with the Lean driver (lean/Sqljson/Driver/Codec.lean).

import (
	"bytes"
	"encoding/json"
	"fmt"
	"math"
	"sort"
	"strconv"
	"time"

	"github.com/theory/sqljson/path/ast"
	"github.com/theory/sqljson/path/types"
)

// J is a JSON object under construction.
type J = map[string]any

// encItem converts a Go SQL/JSON item to the wire form.
func encItem(v any) any {
	switch v := v.(type) {
	case nil:
		return nil
	case bool:
		return v
	case int64:
		return J{"i": strconv.FormatInt(v, 10)}
	case int:
		return J{"i": strconv.Itoa(v)}
	case float64:
		if math.IsNaN(v) {
			return J{"f": "7ff8000000000001"} // one canonical NaN (payloads are not compared)
		}
		return J{"f": fmt.Sprintf("%016x", math.Float64bits(v))}
	case json.Number:
		return J{"n": string(v)}
	case string:
		return J{"s": v}
	case []any:
		out := make([]any, len(v))
		for i, x := range v {
			out[i] = encItem(x)
		}
		return out
	case map[string]any:
		keys := make([]string, 0, len(v))
		for k := range v {
			keys = append(keys, k)
		}
		sort.Strings(keys)
		ms := make([]any, len(keys))
		for i, k := range keys {
			ms[i] = []any{k, encItem(v[k])}
		}
		return J{"o": ms}
	case *types.Date:
		return encDT("date", v.Time)
	case *types.Time:
		return encDT("time", v.Time)
	case *types.TimeTZ:
		return encDT("timetz", v.Time)
	case *types.Timestamp:
		return encDT("timestamp", v.Time)
	case *types.TimestampTZ:
		return encDT("timestamptz", v.Time)
	default:
		return J{"unknown": fmt.Sprintf("%T", v)}
	}
}

func encDT(kind string, t time.Time) any {
	_, off := t.Zone()
	return J{"dt": J{
		"k":    kind,
		"sec":  strconv.FormatInt(t.Unix(), 10),
		"nsec": t.Nanosecond(),
		"off":  off,
	}}
}

// decItem converts the wire form back into a Go item (datetimes excluded:
// they only ever arise as results).
func decItem(w any) (any, error) {
	switch w := w.(type) {
	case nil:
		return nil, nil
	case bool:
		return w, nil
	case []any:
		out := make([]any, len(w))
		for i, x := range w {
			v, err := decItem(x)
			if err != nil {
				return nil, err
			}
			out[i] = v
		}
		return out, nil
	case map[string]any:
		if s, ok := w["i"].(string); ok {
			n, err := strconv.ParseInt(s, 10, 64)
			return n, err
		}
		if s, ok := w["f"].(string); ok {
			b, err := strconv.ParseUint(s, 16, 64)
			return math.Float64frombits(b), err
		}
		if s, ok := w["n"].(string); ok {
			return json.Number(s), nil
		}
		if s, ok := w["s"].(string); ok {
			return s, nil
		}
		if ms, ok := w["o"].([]any); ok {
			out := make(map[string]any, len(ms))
			for _, m := range ms {
				kv, ok := m.([]any)
				if !ok || len(kv) != 2 {
					return nil, fmt.Errorf("bad member")
				}
				k, ok := kv[0].(string)
				if !ok {
					return nil, fmt.Errorf("bad key")
				}
				v, err := decItem(kv[1])
				if err != nil {
					return nil, err
				}
				out[k] = v
			}
			return out, nil
		}
	}
	return nil, fmt.Errorf("bad item %v", w)
}

var constNames = map[ast.Constant]string{
	ast.ConstRoot: "root", ast.ConstCurrent: "current", ast.ConstLast: "last",
	ast.ConstAnyArray: "anyArray", ast.ConstAnyKey: "anyKey", ast.ConstTrue: "true",
	ast.ConstFalse: "false", ast.ConstNull: "null",
}

var binNames = map[ast.BinaryOperator]string{
	ast.BinaryAnd: "and", ast.BinaryOr: "or", ast.BinaryEqual: "eq", ast.BinaryNotEqual: "ne",
	ast.BinaryLess: "lt", ast.BinaryGreater: "gt", ast.BinaryLessOrEqual: "le",
	ast.BinaryGreaterOrEqual: "ge", ast.BinaryStartsWith: "startsWith", ast.BinaryAdd: "add",
	ast.BinarySub: "sub", ast.BinaryMul: "mul", ast.BinaryDiv: "div", ast.BinaryMod: "mod",
	ast.BinarySubscript: "subscript", ast.BinaryDecimal: "decimal",
}

var unNames = map[ast.UnaryOperator]string{
	ast.UnaryExists: "exists", ast.UnaryNot: "not", ast.UnaryIsUnknown: "isUnknown",
	ast.UnaryPlus: "plus", ast.UnaryMinus: "minus", ast.UnaryFilter: "filter",
	ast.UnaryDateTime: "datetime", ast.UnaryDate: "date", ast.UnaryTime: "time",
	ast.UnaryTimeTZ: "timeTZ", ast.UnaryTimestamp: "timestamp", ast.UnaryTimestampTZ: "timestampTZ",
}

var methodNames = map[ast.MethodName]string{
	ast.MethodAbs: "abs", ast.MethodSize: "size", ast.MethodType: "type", ast.MethodFloor: "floor",
	ast.MethodCeiling: "ceiling", ast.MethodDouble: "double", ast.MethodKeyValue: "keyvalue",
	ast.MethodBigInt: "bigint", ast.MethodBoolean: "boolean", ast.MethodInteger: "integer",
	ast.MethodNumber: "number", ast.MethodString: "string",
}

// regexParts reads pattern and flag bits of a RegexNode through the verif hook.
func regexParts(n *ast.RegexNode) (string, int) {
	pat, flags := n.VerifRegexParts()
	return pat, int(flags)
}

// encNode walks a Go AST through its exported accessors.
func encNode(n ast.Node) any {
	if n == nil {
		return nil
	}
	switch n := n.(type) {
	case *ast.ConstNode:
		return J{"t": "const", "k": constNames[n.Const()], "next": encNode(n.Next())}
	case *ast.MethodNode:
		return J{"t": "method", "m": methodNames[n.Name()], "next": encNode(n.Next())}
	case *ast.StringNode:
		return J{"t": "str", "s": n.Text(), "next": encNode(n.Next())}
	case *ast.VariableNode:
		return J{"t": "var", "s": n.Text(), "next": encNode(n.Next())}
	case *ast.KeyNode:
		return J{"t": "key", "s": n.Text(), "next": encNode(n.Next())}
	case *ast.NumericNode:
		return J{"t": "numeric", "f": fmt.Sprintf("%016x", math.Float64bits(n.Float())), "next": encNode(n.Next())}
	case *ast.IntegerNode:
		return J{"t": "integer", "i": strconv.FormatInt(n.Int(), 10), "next": encNode(n.Next())}
	case *ast.AnyNode:
		return J{"t": "any", "first": int64(n.First()), "last": int64(n.Last()), "next": encNode(n.Next())}
	case *ast.BinaryNode:
		return J{"t": "binary", "op": binNames[n.Operator()], "l": encNode(n.Left()), "r": encNode(n.Right()), "next": encNode(n.Next())}
	case *ast.UnaryNode:
		return J{"t": "unary", "op": unNames[n.Operator()], "x": encNode(n.Operand()), "next": encNode(n.Next())}
	case *ast.RegexNode:
		pat, flags := regexParts(n)
		return J{"t": "regex", "x": encNode(n.Operand()), "pattern": pat, "flags": flags, "next": encNode(n.Next())}
	case *ast.ArrayIndexNode:
		subs := make([]any, len(n.Subscripts()))
		for i, s := range n.Subscripts() {
			subs[i] = encNode(s)
		}
		return J{"t": "arrayIndex", "subs": subs, "next": encNode(n.Next())}
	}
	return J{"t": "unknown"}
}

func encAST(a *ast.AST) any {
	return J{"root": encNode(a.Root()), "lax": a.IsLax(), "pred": a.IsPredicate()}
}

// marshal encodes v compactly without HTML escaping.
func marshal(v any) []byte {
	var buf bytes.Buffer
	enc := json.NewEncoder(&buf)
	enc.SetEscapeHTML(false)
	if err := enc.Encode(v); err != nil {
		panic(err)
	}
	return bytes.TrimRight(buf.Bytes(), "\n")
}
