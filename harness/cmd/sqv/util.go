package main

import (
	"bytes"
	"encoding/json"
	"io"
)

func bytesReader(b []byte) io.Reader { return bytes.NewReader(b) }

// normJSON converts json.Number leaves produced by UseNumber decoding of wire
// values back to plain values where the wire format expects them (wire numbers
// are only ever small ints: nsec, off, flags).
func normJSON(v any) any {
	switch v := v.(type) {
	case json.Number:
		if i, err := v.Int64(); err == nil {
			return float64(i)
		}
		f, _ := v.Float64()
		return f
	case []any:
		for i := range v {
			v[i] = normJSON(v[i])
		}
		return v
	case map[string]any:
		for k := range v {
			v[k] = normJSON(v[k])
		}
		return v
	}
	return v
}
