package main

// oracle: the properties written as Go predicates over results of the real API.
// They are run to search for a failing input when a proof obligation or the
// correspondence broke, and to replay a reported violation; they never decide
// a property on a tree whose obligations and correspondence hold.

import (
	"encoding/json"
	"flag"
	"fmt"
	"os"
)

// oracleFn searches for a failing input. It returns nil when none was found.
type oracleFn func(o *oracleRun) J

type oracleRun struct {
	prop   string
	seed   int64
	n      int
	seeds  []map[string]any // disagreeing cases to try first
	known  []knownFinding
	replay map[string]any // when replaying a recorded failing input
}

type knownFinding struct {
	ID       string         `json:"id"`
	Property string         `json:"property"`
	Kind     string         `json:"kind"`
	What     string         `json:"what"`
	Sig      string         `json:"signature"`
	Witness  map[string]any `json:"witness"`
}

var oracles = map[string]oracleFn{}

func init() {
	register("oracle", "search for a failing input of a property on the Go code", oracleCmd)
	register("witness", "replay a known-finding witness on the Go code", witnessCmd)
}

func loadKnown(path string) []knownFinding {
	if path == "" {
		return nil
	}
	b, err := os.ReadFile(path)
	if err != nil {
		return nil
	}
	var f struct {
		Findings []knownFinding `json:"findings"`
	}
	if json.Unmarshal(b, &f) != nil {
		return nil
	}
	return f.Findings
}

func oracleCmd(args []string) int {
	fs := flag.NewFlagSet("oracle", flag.ExitOnError)
	prop := fs.String("prop", "", "property id")
	seed := fs.Int64("seed", 1, "seed")
	n := fs.Int("n", 4000, "budget (groups)")
	out := fs.String("out", "oracle.json", "failing input is written here")
	seedsF := fs.String("seeds", "", "JSONL of cases to try first")
	knownF := fs.String("known", "", "known_findings.json")
	replayF := fs.String("replay", "", "replay file to re-evaluate")
	_ = fs.Parse(args)
	fn, ok := oracles[*prop]
	if !ok {
		fmt.Fprintln(os.Stderr, "no oracle for", *prop)
		return 0
	}
	o := &oracleRun{prop: *prop, seed: *seed, n: *n, known: loadKnown(*knownF)}
	if *seedsF != "" {
		if b, err := os.ReadFile(*seedsF); err == nil {
			for _, line := range splitLines(b) {
				var m map[string]any
				if json.Unmarshal(line, &m) == nil {
					o.seeds = append(o.seeds, m)
				}
			}
		}
	}
	if *replayF != "" {
		b, err := os.ReadFile(*replayF)
		if err != nil {
			fmt.Fprintln(os.Stderr, err)
			return 2
		}
		var rp struct {
			Detail map[string]any `json:"detail"`
		}
		if json.Unmarshal(b, &rp) != nil {
			return 2
		}
		o.replay = rp.Detail
	}
	res := fn(o)
	if res == nil {
		fmt.Println("oracle: no failing input found")
		return 0
	}
	if *replayF != "" {
		fmt.Println("REPRODUCED:", string(marshal(res)))
		return 1
	}
	os.WriteFile(*out, marshal(res), 0o644)
	fmt.Println("oracle: failing input written to", *out)
	return 1
}

func splitLines(b []byte) [][]byte {
	var out [][]byte
	start := 0
	for i, c := range b {
		if c == '\n' {
			if i > start {
				out = append(out, b[start:i])
			}
			start = i + 1
		}
	}
	if start < len(b) {
		out = append(out, b[start:])
	}
	return out
}

// witnessFns replays one recorded witness; true = the defect is still there.
var witnessFns = map[string]func(w map[string]any) bool{}

func witnessCmd(args []string) int {
	fs := flag.NewFlagSet("witness", flag.ExitOnError)
	js := fs.String("json", "", "witness object")
	_ = fs.Parse(args)
	var w map[string]any
	if err := json.Unmarshal([]byte(*js), &w); err != nil {
		fmt.Println("bad witness:", err)
		return 2
	}
	kind, _ := w["kind"].(string)
	fn, ok := witnessFns[kind]
	if !ok {
		fmt.Println("unknown witness kind", kind)
		return 2
	}
	if fn(w) {
		fmt.Println("STILL-FAILS")
		return 0
	}
	fmt.Println("NO-LONGER-FAILS")
	return 3
}
