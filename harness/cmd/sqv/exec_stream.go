package main

// exec-stream: generate executor cases and run them against the real code.
//
//   sqv exec-stream -seed S -n N -profile P -cases cases.jsonl -out go.jsonl [-cancel] [-stats stats.json]
//   sqv exec-run -in cases.jsonl -out go.jsonl          (re-run an existing case file: replay)

import (
	"bufio"
	"bytes"
	"context"
	"encoding/json"
	"errors"
	"flag"
	"fmt"
	"math/rand"
	"os"
	"reflect"
	"regexp"
	"sort"
	"strings"
	"time"

	"github.com/theory/sqljson/path"
	"github.com/theory/sqljson/path/ast"
	"github.com/theory/sqljson/path/exec"
	"github.com/theory/sqljson/path/types"
)

func init() {
	register("exec-stream", "generate executor cases and run them on the Go code", execStream)
	register("exec-run", "run an existing executor case file on the Go code", execRun)
}

// countingCtx is a context whose Done() channel is closed from its k-th call on.
type countingCtx struct {
	context.Context
	k      int // -1: never done
	calls  int
	kind   error
	closed chan struct{}
	open   chan struct{}
	cancel context.CancelCauseFunc
	early  bool
}

// errCustomCause is the cause used by the "cause" cancel kind (context.WithCancelCause).
var errCustomCause = errors.New("custom cancellation cause")

func newCountingCtx(parent context.Context, k int, kind error) *countingCtx {
	c := &countingCtx{Context: parent, k: k, kind: kind, closed: make(chan struct{}), open: make(chan struct{})}
	close(c.closed)
	if kind == errCustomCause {
		// a real cancel-cause context underneath: Err() is context.Canceled, Cause() the custom error
		inner, cancel := context.WithCancelCause(parent)
		c.Context = inner
		c.cancel = cancel
		c.kind = context.Canceled
	}
	return c
}

func (c *countingCtx) Done() <-chan struct{} {
	i := c.calls
	c.calls++
	if c.k >= 0 && i >= c.k {
		if c.cancel != nil {
			c.cancel(errCustomCause)
			return c.Context.Done()
		}
		return c.closed
	}
	return c.open
}

func (c *countingCtx) Err() error {
	if c.k >= 0 && c.calls > c.k {
		return c.kind
	}
	if c.early && c.k >= 0 && c.calls >= c.k {
		// "async" kind: the context ended between two polls — Err() already reports it, the next
		// Done() will too. Code that consults Err() on its own (instead of polling Done()) and then
		// stops quietly returns a truncated result where the next poll would have reported the end.
		return c.kind
	}
	return nil
}

// execCase is one line of the case file.
type execCase struct {
	ID     int     `json:"id"`
	Op     string  `json:"op"`
	Path   string  `json:"path"` // informational (the model reads "ast")
	AST    any     `json:"ast"`
	Doc    any     `json:"doc"`
	Vars   any     `json:"vars"`
	Entry  string  `json:"entry"`
	Silent bool    `json:"silent"`
	UseTZ  bool    `json:"usetz"`
	Zone   any     `json:"zone"`
	ZoneID string  `json:"zoneid"`
	Today  int64   `json:"today"`
	Cancel *int    `json:"cancel"`
	Kind   string  `json:"kind,omitempty"` // cancel kind: canceled|deadline
	Regex  [][]any `json:"regex"`
	Group  int     `json:"group"` // cases of one (path, doc, vars) triple share a group
}

func encVars(vars map[string]any) any {
	if vars == nil {
		return nil
	}
	keys := make([]string, 0, len(vars))
	for k := range vars {
		keys = append(keys, k)
	}
	sort.Strings(keys)
	out := make([]any, len(keys))
	for i, k := range keys {
		out[i] = []any{k, encItem(vars[k])}
	}
	return out
}

func classify(err error, ctxErr error) string {
	switch {
	case errors.Is(err, exec.NULL):
		return "NULL"
	case errors.Is(err, exec.ErrInvalid):
		return "invalid"
	case errors.Is(err, exec.ErrExecution):
		if ctxErr != nil && errors.Is(err, ctxErr) {
			return "cancelled"
		}
		if errors.Is(err, context.Canceled) || errors.Is(err, context.DeadlineExceeded) {
			return "cancelled"
		}
		if errors.Is(err, exec.ErrVerbose) {
			return "verbose"
		}
		return "hard"
	default:
		return "other"
	}
}

// maskIDs zeroes the address-derived id of .keyvalue() triples.
func maskIDs(v any) any {
	switch v := v.(type) {
	case []any:
		out := make([]any, len(v))
		for i, x := range v {
			out[i] = maskIDs(x)
		}
		return out
	case map[string]any:
		out := make(map[string]any, len(v))
		for k, x := range v {
			out[k] = maskIDs(x)
		}
		if len(out) == 3 {
			_, hasKey := out["key"]
			_, hasVal := out["value"]
			if id, ok := out["id"].(int64); ok && hasKey && hasVal {
				// id = baseObjectID * 10^10 + address offset: keep the base-object part, which the
				// model predicts; the offset depends on heap addresses (< 10^10 in this process)
				out["id"] = id / 10000000000
				// the triple generated for the "id" member of another triple carries an id as its value
				if v, ok := out["value"].(int64); ok && out["key"] == "id" {
					out["value"] = v / 10000000000
				}
			}
		}
		return out
	}
	return v
}

// zoneFor decodes a zone id: "UTC", "fixed:<secs>", or an IANA name.
func zoneFor(id string) *time.Location {
	if id == "" || id == "UTC" {
		return time.UTC
	}
	var secs int
	if n, _ := fmt.Sscanf(id, "fixed:%d", &secs); n == 1 {
		return time.FixedZone("", secs)
	}
	loc, err := time.LoadLocation(id)
	if err != nil {
		panic(err)
	}
	return loc
}

func zoneWire(id string) any {
	loc := zoneFor(id)
	var secs int
	if n, _ := fmt.Sscanf(id, "fixed:%d", &secs); n == 1 {
		return J{"initial": secs, "trans": []any{}}
	}
	if loc == time.UTC {
		return J{"initial": 0, "trans": []any{}}
	}
	return zoneTable(loc)
}

var zoneWireMemo = map[string]any{}

func zoneWireCached(id string) any {
	if w, ok := zoneWireMemo[id]; ok {
		return w
	}
	w := zoneWire(id)
	zoneWireMemo[id] = w
	return w
}

// zoneTable probes loc for its transitions between 1900 and 2100.
func zoneTable(loc *time.Location) any {
	start := time.Date(1900, 1, 1, 0, 0, 0, 0, time.UTC).Unix()
	end := time.Date(2100, 1, 1, 0, 0, 0, 0, time.UTC).Unix()
	off := func(t int64) int {
		_, o := time.Unix(t, 0).In(loc).Zone()
		return o
	}
	initial := off(start)
	trans := []any{}
	cur := initial
	const step = 6 * 3600
	for t := start; t < end; t += step {
		if o := off(t + step); o != cur {
			lo, hi := t, t+step
			for hi-lo > 1 {
				mid := (lo + hi) / 2
				if off(mid) == cur {
					lo = mid
				} else {
					hi = mid
				}
			}
			trans = append(trans, []any{hi, o})
			cur = o
		}
	}
	return J{"initial": initial, "trans": trans}
}

// runExec executes one case on the real code and returns the canonical result.
func runExec(p *path.Path, doc any, vars map[string]any, c *execCase) (res J) {
	defer func() {
		if r := recover(); r != nil {
			res = J{"out": "panic", "panic": fmt.Sprint(r)}
		}
	}()
	var opts []exec.Option
	if vars != nil {
		if c.ID%2 == 1 {
			// option noise: an earlier WithVars is overridden by the later one and must stay untouched
			decoy := map[string]any{"zz_decoy": int64(1)}
			for k := range vars {
				decoy[k] = "decoy"
			}
			for _, k := range append([]string{"allowed", "lo", "hi"}, varPool...) {
				decoy[k] = "decoy" // a name the later map lacks stays undefined
			}
			decoyCopy := deepCopy(any(decoy))
			opts = append(opts, exec.WithVars(exec.Vars(decoy)))
			defer func() {
				if !reflect.DeepEqual(any(decoy), decoyCopy) {
					res = J{"out": "input-mutated", "what": "overridden WithVars map"}
				}
			}()
		}
		opts = append(opts, exec.WithVars(exec.Vars(vars)))
	}
	if c.Silent {
		opts = append(opts, exec.WithSilent())
		if c.ID%3 == 1 {
			opts = append(opts, exec.WithSilent())
		}
	}
	if c.UseTZ {
		opts = append(opts, exec.WithTZ())
		if c.ID%3 == 2 {
			opts = append(opts, exec.WithTZ())
		}
	}
	var kind error
	k := -1
	if c.Cancel != nil {
		k = *c.Cancel
		kind = context.Canceled
		if c.Kind == "deadline" {
			kind = context.DeadlineExceeded
		} else if c.Kind == "cause" {
			kind = errCustomCause
		}
	}
	early := c.Kind == "async"
	// context noise: the zone of the case overrides a decoy zone set on the parent context
	parent := context.Background()
	if c.ID%2 == 0 {
		parent = types.ContextWithTZ(parent, time.FixedZone("decoy", -9*3600-30*60))
	}
	base := types.ContextWithTZ(parent, zoneFor(c.ZoneID))
	cctx := newCountingCtx(base, k, kind)
	cctx.early = early
	var ctx context.Context = cctx

	if kind == errCustomCause {
		kind = context.Canceled
	}
	errRes := func(err error) J {
		cl := classify(err, kind)
		if cl == "NULL" {
			return J{"out": "NULL"}
		}
		return J{"out": "error", "class": cl}
	}
	switch c.Entry {
	case "query":
		items, err := p.Query(ctx, doc, opts...)
		if err != nil {
			return errRes(err)
		}
		out := make([]any, len(items))
		for i, x := range items {
			out[i] = encItem(maskIDs(x))
		}
		return J{"out": "items", "v": out}
	case "first":
		item, err := p.First(ctx, doc, opts...)
		if err != nil {
			return errRes(err)
		}
		return J{"out": "first", "v": encItem(maskIDs(item))}
	case "exists":
		b, err := p.Exists(ctx, doc, opts...)
		if err != nil {
			return errRes(err)
		}
		return J{"out": "bool", "v": b}
	case "match":
		b, err := p.Match(ctx, doc, opts...)
		if err != nil {
			return errRes(err)
		}
		return J{"out": "bool", "v": b}
	case "eom":
		b, err := p.ExistsOrMatch(ctx, doc, opts...)
		if err != nil {
			return errRes(err)
		}
		return J{"out": "bool", "v": b}
	}
	return J{"out": "skip", "why": "bad entry"}
}

const spareMark = "\x00spare"

// withSpare copies v, giving every array two unused slots of capacity that hold spareMark: a callee
// that appends to (a slice aliasing) a document array writes there, which spareOK detects.
func withSpare(v any) any {
	switch v := v.(type) {
	case []any:
		out := make([]any, len(v), len(v)+2)
		for i, x := range v {
			out[i] = withSpare(x)
		}
		full := out[:cap(out)]
		for i := len(out); i < len(full); i++ {
			full[i] = spareMark
		}
		return out
	case map[string]any:
		out := make(map[string]any, len(v))
		for k, x := range v {
			out[k] = withSpare(x)
		}
		return out
	}
	return v
}

// aliasEqual returns v with every non-empty container that equals an earlier one (in a fixed walk
// order) replaced by that earlier one: a document in which one map or slice is reachable from two
// positions, as a caller may well build it. The library must treat it like the tree it denotes.
func aliasEqual(v any, seen map[string]any) any {
	switch x := v.(type) {
	case []any:
		for i := range x {
			x[i] = aliasEqual(x[i], seen)
		}
		if len(x) == 0 {
			return x
		}
		key := string(marshal(encItem(x)))
		if first, ok := seen[key]; ok {
			return first
		}
		seen[key] = x
		return x
	case map[string]any:
		keys := make([]string, 0, len(x))
		for k := range x {
			keys = append(keys, k)
		}
		sort.Strings(keys)
		for _, k := range keys {
			x[k] = aliasEqual(x[k], seen)
		}
		if len(x) == 0 {
			return x
		}
		key := string(marshal(encItem(x)))
		if first, ok := seen[key]; ok {
			return first
		}
		seen[key] = x
		return x
	}
	return v
}

// nilEmpties replaces every empty array by a nil []any and every empty object by a nil map.
func nilEmpties(v any) any {
	switch x := v.(type) {
	case []any:
		if len(x) == 0 {
			return []any(nil)
		}
		for i := range x {
			x[i] = nilEmpties(x[i])
		}
		return x
	case map[string]any:
		if len(x) == 0 {
			return map[string]any(nil)
		}
		for k, e := range x {
			x[k] = nilEmpties(e)
		}
		return x
	}
	return v
}

// staticBack is backing storage outside the heap: a document array living here is far (≥ 10^10
// bytes) from the heap objects it holds, which is legitimate and must not change what .keyvalue()
// returns apart from the address-derived part of the ids.
var staticBack [64]any

// zeroIDs masks keyvalue ids completely.
func zeroIDs(v any) any {
	switch x := v.(type) {
	case []any:
		out := make([]any, len(x))
		for i, e := range x {
			out[i] = zeroIDs(e)
		}
		return out
	case map[string]any:
		out := make(map[string]any, len(x))
		for k, e := range x {
			out[k] = zeroIDs(e)
		}
		if _, ok := out["id"].(int64); ok && len(out) == 3 {
			out["id"] = int64(0)
			if _, isInt := out["value"].(int64); isInt && out["key"] == "id" {
				out["value"] = int64(0)
			}
		}
		return out
	}
	return v
}

func spareOK(v any) bool {
	switch v := v.(type) {
	case []any:
		full := v[:cap(v)]
		for i := len(v); i < len(full); i++ {
			if full[i] != any(spareMark) {
				return false
			}
		}
		for _, x := range v {
			if !spareOK(x) {
				return false
			}
		}
	case map[string]any:
		for _, x := range v {
			if !spareOK(x) {
				return false
			}
		}
	}
	return true
}

// runExecPure is runExec plus the purity check of C05: the document and the variables must encode
// after the call to what they encoded to before it.
// plainQuery runs Query with the options of the case on a plain (never done) context.
func plainQuery(p *path.Path, doc any, vars map[string]any, c *execCase, withVars bool) (items []any, err error) {
	defer func() {
		if recover() != nil {
			err = errors.New("panic")
		}
	}()
	var opts []exec.Option
	if vars != nil && withVars {
		opts = append(opts, exec.WithVars(exec.Vars(vars)))
	}
	if c.Silent {
		opts = append(opts, exec.WithSilent())
	}
	if c.UseTZ {
		opts = append(opts, exec.WithTZ())
	}
	return p.Query(types.ContextWithTZ(context.Background(), zoneFor(c.ZoneID)), doc, opts...)
}

// plainBool runs Exists or Match likewise.
func plainBool(p *path.Path, doc any, vars map[string]any, c *execCase, withVars bool) (res string) {
	defer func() {
		if recover() != nil {
			res = "panic"
		}
	}()
	var opts []exec.Option
	if vars != nil && withVars {
		opts = append(opts, exec.WithVars(exec.Vars(vars)))
	}
	if c.Silent {
		opts = append(opts, exec.WithSilent())
	}
	if c.UseTZ {
		opts = append(opts, exec.WithTZ())
	}
	ctx := types.ContextWithTZ(context.Background(), zoneFor(c.ZoneID))
	var b bool
	var err error
	switch c.Entry {
	case "exists":
		b, err = p.Exists(ctx, doc, opts...)
	case "match":
		b, err = p.Match(ctx, doc, opts...)
	default:
		b, err = p.ExistsOrMatch(ctx, doc, opts...)
	}
	return fmt.Sprint(b, " ", classify(err, nil))
}

// earlier is the raw result of the previous Query case of this process with its encoding at the
// time it was returned: a later call must not change it (pooled or shared result buffers).
var earlier struct {
	items []any
	enc   []byte
}

type clobber struct{}

// perturb returns a copy of v in which every scalar differs from the original.
func perturb(v any) any {
	switch v := v.(type) {
	case []any:
		out := make([]any, len(v))
		for i, x := range v {
			out[i] = perturb(x)
		}
		return out
	case map[string]any:
		out := make(map[string]any, len(v))
		for k, x := range v {
			out[k] = perturb(x)
		}
		return out
	case float64:
		return v + 7000.5
	case int64:
		return v/2 + 7001
	case string:
		return v + "~"
	case bool:
		return !v
	}
	return v
}

func runExecPure(p *path.Path, doc any, vars map[string]any, c *execCase, docB, varsB []byte) J {
	var before string
	stateProbe := c.Cancel == nil && vars != nil && (c.Entry == "exists" || c.Entry == "match" || c.Entry == "eom")
	if stateProbe {
		before = plainBool(p, doc, vars, c, false)
	}
	res := runExec(p, doc, vars, c)
	if stateProbe {
		// C06/C19: a call without WithVars answers the same before and after a call with WithVars
		if after := plainBool(p, doc, vars, c, false); after != before {
			return J{"out": "state-left-behind", "what": "a call without WithVars answers differently after a call with WithVars: " + before + " / " + after}
		}
	}
	if c.Cancel == nil && c.Entry == "query" {
		if earlier.items != nil && !bytes.Equal(earlier.enc, marshal(encItem(maskIDs(any(earlier.items))))) {
			earlier.items = nil
			return J{"out": "earlier-result-changed", "what": "the slice returned by an earlier Query changed during a later call"}
		}
		// C05/C19: the returned slice belongs to the caller: writing to it changes neither the
		// inputs nor another result
		if r1, e1 := plainQuery(p, doc, vars, c, true); e1 == nil && len(r1) > 0 {
			enc1 := marshal(encItem(maskIDs(any(r1))))
			keep := append([]any(nil), r1...)
			if r2, e2 := plainQuery(p, doc, vars, c, true); e2 == nil {
				for i := range r2 {
					r2[i] = clobber{}
				}
				r2 = append(r2, clobber{}, clobber{})
				_ = r2
				for i := range r1 {
					if _, bad := r1[i].(clobber); bad {
						return J{"out": "results-share-memory", "what": "writing to one returned slice changed another"}
					}
				}
			}
			if !bytes.Equal(docB, marshal(encItem(doc))) || !bytes.Equal(varsB, marshal(encVars(vars))) || !spareOK(doc) || !spareOK(any(vars)) {
				return J{"out": "result-aliases-input", "what": "writing to the returned slice changed the document or the variables"}
			}
			// a call on other data must not reach into r1 (buffers handed on from call to call)
			_, _ = plainQuery(p, perturb(doc), vars, c, true)
			if !bytes.Equal(enc1, marshal(encItem(maskIDs(any(r1))))) {
				return J{"out": "earlier-result-changed", "what": "the slice returned by a Query changed during a call on another document"}
			}
			_ = keep
			earlier.items, earlier.enc = r1, enc1
		}
	}
	if c.Cancel == nil && (c.Entry == "query" || c.Entry == "first") && strings.Contains(c.Path, "keyvalue") && !kvBelowGenerated(p.AST.Root()) {
		// C16: ids are stable over repeated executions (heap addresses of the document do not move)
		a, b := rawKVIDs(p, doc, vars, c), rawKVIDs(p, doc, vars, c)
		if !reflect.DeepEqual(a, b) {
			return J{"out": "unstable-keyvalue-ids"}
		}
	}
	if arr, ok := doc.([]any); ok && c.Cancel == nil && c.Entry == "query" && len(arr) > 0 && len(arr) <= len(staticBack) && strings.Contains(c.Path, "keyvalue") && !strings.Contains(c.Path, ".id") {
		// C16: the same document with its top-level array in static storage gives the same triples
		copy(staticBack[:], arr)
		opts := []exec.Option{}
		if vars != nil {
			opts = append(opts, exec.WithVars(exec.Vars(vars)))
		}
		if c.Silent {
			opts = append(opts, exec.WithSilent())
		}
		if c.UseTZ {
			opts = append(opts, exec.WithTZ())
		}
		bctx := types.ContextWithTZ(context.Background(), zoneFor(c.ZoneID))
		i1, e1 := func() (r []any, e error) {
			defer func() {
				if recover() != nil {
					e = errors.New("panic")
				}
			}()
			return p.Query(bctx, any(staticBack[:len(arr)]), opts...)
		}()
		i2, e2 := func() (r []any, e error) {
			defer func() {
				if recover() != nil {
					e = errors.New("panic")
				}
			}()
			return p.Query(bctx, doc, opts...)
		}()
		// a result may be the static array itself ($ selected): encode before the storage is wiped
		var b1, b2 []byte
		if e1 == nil && e2 == nil {
			b1, b2 = marshal(encItem(zeroIDs(any(i1)))), marshal(encItem(zeroIDs(any(i2))))
		}
		clear(staticBack[:])
		if (e1 == nil) != (e2 == nil) || !bytes.Equal(b1, b2) {
			return J{"out": "keyvalue-depends-on-document-location"}
		}
	}
	if c.Cancel == nil && c.Entry == "query" && strings.Contains(c.Path, "keyvalue") && !strings.Contains(c.Path, ".id") && !kvBelowGenerated(p.AST.Root()) {
		// C16/C05: the caller may edit an object between two calls; the second call sees the object as it is
		// then, exactly as a fresh copy of it would be seen
		var maps []map[string]any
		var walk func(v any)
		walk = func(v any) {
			switch v := v.(type) {
			case []any:
				for _, x := range v {
					walk(x)
				}
			case map[string]any:
				if _, has := v["k_added"]; !has && v != nil && len(maps) < 64 {
					maps = append(maps, v)
				}
				for _, x := range v {
					walk(x)
				}
			}
		}
		walk(doc)
		// twice: a member added, then a member renamed (the member count stays what it was)
		for pass := 0; pass < 2 && len(maps) > 0; pass++ {
			type undo struct {
				m   map[string]any
				k   string
				v   any
				had bool
			}
			var undos []undo
			for _, m := range maps {
				if pass == 1 && len(m) > 0 {
					first := ""
					for k := range m {
						if first == "" || k < first {
							first = k
						}
					}
					undos = append(undos, undo{m, first, m[first], true})
					m["k_added"] = m[first]
					delete(m, first)
				} else {
					m["k_added"] = int64(7)
				}
				undos = append(undos, undo{m, "k_added", nil, false})
			}
			i1, e1 := plainQuery(p, doc, vars, c, true)
			i2, e2 := plainQuery(p, deepCopy(doc), vars, c, true)
			var b1, b2 []byte // results share the document's values: encode before the edit is undone
			if e1 == nil && e2 == nil {
				b1, b2 = marshal(encItem(zeroIDs(any(i1)))), marshal(encItem(zeroIDs(any(i2))))
			}
			for _, u := range undos {
				if u.had {
					u.m[u.k] = u.v
				} else {
					delete(u.m, u.k)
				}
			}
			if (e1 == nil) != (e2 == nil) || !bytes.Equal(b1, b2) {
				return J{"out": "stale-view-of-an-edited-object"}
			}
		}
	}
	if !bytes.Equal(docB, marshal(encItem(doc))) {
		return J{"out": "input-mutated", "what": "document"}
	}
	if !bytes.Equal(varsB, marshal(encVars(vars))) {
		return J{"out": "input-mutated", "what": "variables"}
	}
	if !spareOK(doc) || !spareOK(any(vars)) {
		return J{"out": "input-mutated", "what": "spare capacity of an input array was written"}
	}
	return res
}

// isPredicateShape: the grammar makes a path a predicate check expression exactly when its root
// is a boolean node (connective, comparison, starts with, like_regex, exists, !, is unknown) with
// no accessor chained to it.
func isPredicateShape(n ast.Node) bool {
	if n == nil || reflect.ValueOf(n).IsNil() || n.Next() != nil {
		return false
	}
	switch x := n.(type) {
	case *ast.BinaryNode:
		switch x.Operator() {
		case ast.BinaryAnd, ast.BinaryOr, ast.BinaryEqual, ast.BinaryNotEqual, ast.BinaryLess, ast.BinaryGreater,
			ast.BinaryLessOrEqual, ast.BinaryGreaterOrEqual, ast.BinaryStartsWith:
			return true
		}
	case *ast.UnaryNode:
		switch x.Operator() {
		case ast.UnaryExists, ast.UnaryNot, ast.UnaryIsUnknown:
			return true
		}
	case *ast.RegexNode:
		return true
	}
	return false
}

// kvBelowGenerated recognises the shape of known finding D30: in one accessor chain a .keyvalue()
// is applied to something reached by leaving a generated {key,value,id} triple through a member
// or descendant accessor (`.keyvalue().value.keyvalue()`, `.keyvalue().*…keyvalue()`, `.keyvalue().**…`):
// the id of such an object is its distance from the freshly allocated triple, which differs from
// one execution to the next.
func kvBelowGenerated(n ast.Node) bool {
	if n == nil || reflect.ValueOf(n).IsNil() {
		return false
	}
	seenKV, left := false, false
	for cur := n; cur != nil && !reflect.ValueOf(cur).IsNil(); cur = cur.Next() {
		switch x := cur.(type) {
		case *ast.MethodNode:
			if x.Name() == ast.MethodKeyValue {
				if seenKV && left {
					return true
				}
				seenKV, left = true, false
			}
		case *ast.KeyNode, *ast.AnyNode:
			if seenKV {
				left = true
			}
		case *ast.ConstNode:
			if seenKV && (x.Const() == ast.ConstAnyKey || x.Const() == ast.ConstAnyArray) {
				left = true
			}
		case *ast.BinaryNode:
			if kvBelowGenerated(x.Left()) || kvBelowGenerated(x.Right()) {
				return true
			}
		case *ast.UnaryNode:
			if kvBelowGenerated(x.Operand()) {
				return true
			}
		case *ast.RegexNode:
			if kvBelowGenerated(x.Operand()) {
				return true
			}
		case *ast.ArrayIndexNode:
			for _, sub := range x.Subscripts() {
				if kvBelowGenerated(sub) {
					return true
				}
			}
		}
	}
	return false
}

// rawKVIDs runs the query and returns the unmasked ids of the keyvalue triples in its result.
func rawKVIDs(p *path.Path, doc any, vars map[string]any, c *execCase) (ids []int64) {
	defer func() { _ = recover() }()
	var opts []exec.Option
	if vars != nil {
		opts = append(opts, exec.WithVars(exec.Vars(vars)))
	}
	if c.Silent {
		opts = append(opts, exec.WithSilent())
	}
	if c.UseTZ {
		opts = append(opts, exec.WithTZ())
	}
	items, _ := p.Query(types.ContextWithTZ(context.Background(), zoneFor(c.ZoneID)), doc, opts...)
	var walk func(v any)
	walk = func(v any) {
		switch v := v.(type) {
		case []any:
			for _, x := range v {
				walk(x)
			}
		case map[string]any:
			keys := make([]string, 0, len(v))
			for k := range v {
				keys = append(keys, k)
			}
			sort.Strings(keys)
			for _, k := range keys {
				if id, ok := v[k].(int64); ok && k == "id" && len(v) == 3 {
					ids = append(ids, id)
				}
				walk(v[k])
			}
		}
	}
	walk(any(items))
	return ids
}

// countPolls runs the uncancelled query and returns how often the context was polled.
func countPolls(p *path.Path, doc any, vars map[string]any, entry string, silent bool) (n int) {
	defer func() {
		if r := recover(); r != nil {
			n = -1
		}
	}()
	var opts []exec.Option
	if vars != nil {
		opts = append(opts, exec.WithVars(exec.Vars(vars)))
	}
	if silent {
		opts = append(opts, exec.WithSilent())
	}
	cctx := newCountingCtx(context.Background(), -1, nil)
	switch entry {
	case "query":
		_, _ = p.Query(cctx, doc, opts...)
	case "first":
		_, _ = p.First(cctx, doc, opts...)
	case "exists":
		_, _ = p.Exists(cctx, doc, opts...)
	case "match":
		_, _ = p.Match(cctx, doc, opts...)
	}
	return cctx.calls
}

// regexNodes collects the RegexNodes of a tree.
func regexNodes(n ast.Node, out *[]*ast.RegexNode) {
	if n == nil || reflect.ValueOf(n).IsNil() {
		return
	}
	switch n := n.(type) {
	case *ast.BinaryNode:
		regexNodes(n.Left(), out)
		regexNodes(n.Right(), out)
	case *ast.UnaryNode:
		regexNodes(n.Operand(), out)
	case *ast.RegexNode:
		*out = append(*out, n)
		regexNodes(n.Operand(), out)
	case *ast.ArrayIndexNode:
		for _, s := range n.Subscripts() {
			regexNodes(s, out)
		}
	}
	regexNodes(n.Next(), out)
}

// pathStrings adds the string literals of the path (they can be the subject of like_regex).
func pathStrings(n ast.Node, out map[string]bool) {
	if n == nil || reflect.ValueOf(n).IsNil() {
		return
	}
	switch n := n.(type) {
	case *ast.StringNode:
		out[n.Text()] = true
	case *ast.BinaryNode:
		pathStrings(n.Left(), out)
		pathStrings(n.Right(), out)
	case *ast.UnaryNode:
		pathStrings(n.Operand(), out)
	case *ast.RegexNode:
		pathStrings(n.Operand(), out)
	case *ast.ArrayIndexNode:
		for _, s := range n.Subscripts() {
			pathStrings(s, out)
		}
	}
	pathStrings(n.Next(), out)
}

var extraRegexStrings = []string{"number", "string", "boolean", "null", "array", "object", "true", "false", "date",
	"time without time zone", "time with time zone", "timestamp without time zone", "timestamp with time zone"}

func regexOracle(p *path.Path, doc any, vars map[string]any, lits []string) [][]any {
	var nodes []*ast.RegexNode
	regexNodes(p.Root(), &nodes)
	if len(nodes) == 0 {
		return [][]any{}
	}
	pool := map[string]bool{}
	collectStrings(doc, pool)
	for _, v := range vars {
		collectStrings(v, pool)
	}
	for _, s := range lits {
		pool[s] = true
	}
	for _, s := range extraRegexStrings {
		pool[s] = true
	}
	pathStrings(p.Root(), pool)
	strs := make([]string, 0, len(pool))
	for s := range pool {
		strs = append(strs, s)
	}
	sort.Strings(strs)
	out := [][]any{}
	seen := map[string]bool{}
	for _, n := range nodes {
		pat, flags := regexParts(n)
		key := fmt.Sprintf("%d:%s", flags, pat)
		if seen[key] {
			continue
		}
		seen[key] = true
		for _, s := range strs {
			out = append(out, []any{pat, flags, s, regexMatch(n, s)})
		}
	}
	return out
}

// regexMatch answers "does like_regex match" from the pattern text and the flag bits by the
// documented translation (i -> (?i); q -> the pattern is a literal, s and m ignored; otherwise
// s -> (?s), m -> (?m)), NOT through RegexNode.Regexp(): the library's own translation is part of
// what C12 checks.
func regexMatch(n *ast.RegexNode, s string) (res any) {
	defer func() {
		if r := recover(); r != nil {
			res = nil
		}
	}()
	pat, bits := regexParts(n)
	prefix := ""
	if bits&1 != 0 {
		prefix += "i"
	}
	expr := pat
	if bits&16 != 0 {
		expr = regexp.QuoteMeta(pat)
	} else {
		if bits&2 != 0 {
			prefix += "s"
		}
		if bits&4 != 0 {
			prefix += "m"
		}
	}
	if prefix != "" {
		expr = "(?" + prefix + ")" + expr
	}
	re, err := regexp.Compile(expr)
	if err != nil {
		return nil
	}
	return re.MatchString(s)
}

var zoneIDs = []string{"UTC", "UTC", "UTC", "fixed:19800", "fixed:-28800", "fixed:3600", "fixed:50400", "fixed:-43200", "fixed:1234"}

func execStream(args []string) int {
	fs := flag.NewFlagSet("exec-stream", flag.ExitOnError)
	seed := fs.Int64("seed", 1, "PRNG seed")
	n := fs.Int("n", 1000, "number of (path, document) groups")
	prof := fs.String("profile", "general", "generator profile")
	casesF := fs.String("cases", "cases.jsonl", "case file to write")
	outF := fs.String("out", "go.jsonl", "Go result file to write")
	cancel := fs.Bool("cancel", false, "cancellation stream: every poll index of every group")
	statsF := fs.String("stats", "", "write generator statistics here")
	noDT := fs.Bool("nodt", false, "suppress datetime methods")
	part := fs.Int("part", 0, "with a grid profile and -parts k: take the groups whose index is part mod k")
	parts := fs.Int("parts", 1, "number of parts a grid is split into")
	_ = fs.Parse(args)

	var grid []group
	if isGrid(*prof) {
		grid = gridSample(*prof, *seed, *n)
		if *parts > 1 {
			var mine []group
			for i, gr := range grid {
				if i%*parts == *part {
					mine = append(mine, gr)
				}
			}
			grid = mine
		}
		*n = len(grid)
	}
	p, ok := profiles[*prof]
	if !ok && grid == nil {
		fmt.Fprintln(os.Stderr, "unknown profile", *prof)
		return 2
	}
	if grid != nil {
		p = profiles["general"]
	}
	if *noDT {
		p.wDatetime = 0
	}
	g := &gen{r: rand.New(rand.NewSource(*seed)), p: p}

	cf, err := os.Create(*casesF)
	if err != nil {
		panic(err)
	}
	defer cf.Close()
	of, err := os.Create(*outF)
	if err != nil {
		panic(err)
	}
	defer of.Close()
	cw := bufio.NewWriterSize(cf, 1<<20)
	ow := bufio.NewWriterSize(of, 1<<20)
	defer cw.Flush()
	defer ow.Flush()

	stats := J{}
	outCount := map[string]int{}
	parseFail := 0
	id := 0
	forceZone, forceTZ := "", -1
	for grp := 0; grp < *n; grp++ {
		var text string
		var doc any
		var vars map[string]any
		if grid != nil {
			text, doc, vars = grid[grp].text, grid[grp].doc, grid[grp].vars
			g.strs = nil
			forceZone, forceTZ = "", -1
			if strings.HasPrefix(text, "#") {
				if end := strings.Index(text[1:], "#"); end >= 0 {
					for _, kv := range strings.Split(text[1:1+end], ";") {
						if v, ok := strings.CutPrefix(kv, "zone="); ok {
							forceZone = v
						} else if v, ok := strings.CutPrefix(kv, "usetz="); ok {
							forceTZ = int(v[0] - '0')
						}
					}
					text = text[end+2:]
				}
			}
		} else {
			text = g.path()
		}
		pp, err := parseNoPanic(text)
		if err != nil || pp == nil {
			parseFail++
			continue
		}
		if grid == nil {
			doc, vars = bestDocument(g, pp)
		}
		doc = withSpare(doc)
		if vars != nil {
			vars = withSpare(any(vars)).(map[string]any)
		}
		if grp%4 == 3 {
			// empty containers as nil Go slices / maps (what `var xs []any` gives): still an empty array / object
			doc = nilEmpties(doc)
			for k, v := range vars {
				vars[k] = nilEmpties(v)
			}
		}
		if grp%2 == 1 {
			seen := map[string]any{}
			doc = aliasEqual(doc, seen)
			for k, v := range vars {
				vars[k] = aliasEqual(v, seen)
			}
		}
		astW := encAST(pp.AST)
		// the predicate flag is derived here from the shape of the tree (a boolean node with nothing
		// chained to it), not taken from IsPredicate(): ExistsOrMatch dispatches on that method
		predShape := isPredicateShape(pp.AST.Root())
		astW.(J)["pred"] = predShape
		predGlue := pp.IsPredicate() != predShape
		docW := encItem(doc)
		varsW := encVars(vars)
		docB, varsB := marshal(docW), marshal(varsW)
		rx := regexOracle(pp, doc, vars, g.strs)
		zid := zoneIDs[g.r.Intn(len(zoneIDs))]
		usetz := g.pct(40)
		if forceZone != "" {
			zid = forceZone
		}
		if forceTZ >= 0 {
			usetz = forceTZ == 1
		}
		zw := zoneWireCached(zid)
		today := todayIn(time.Now(), zoneFor(zid)) // the civil date "now" in the context zone
		emit := func(entry string, silent bool, cancelAt *int, kind string) {
			c := &execCase{ID: id, Op: "exec", Path: text, AST: astW, Doc: docW, Vars: varsW, Entry: entry,
				Silent: silent, UseTZ: usetz, Zone: zw, ZoneID: zid, Today: today, Cancel: cancelAt, Kind: kind, Regex: rx, Group: grp}
			id++
			cw.Write(marshal(c))
			cw.WriteByte('\n')
			res := runExecPure(pp, doc, vars, c, docB, varsB)
			if predGlue {
				res = J{"out": "glue", "what": "IsPredicate() disagrees with the shape of the path"}
			}
			res["id"] = c.ID
			outCount[fmt.Sprint(res["out"], "/", res["class"])]++
			ow.Write(marshal(res))
			ow.WriteByte('\n')
		}
		if *cancel && strings.HasPrefix(*prof, "grid-big") {
			// big documents: the polls of a long loop are sampled (first, middle, the last one, one past it)
			for i, es := range [][2]any{{"query", false}, {"exists", true}, {"first", grp%2 == 0}, {"match", grp%2 == 1}} {
				if i >= 2 && (grp+i)%2 == 0 {
					continue
				}
				polls := countPolls(pp, doc, vars, es[0].(string), es[1].(bool))
				if polls < 0 {
					continue
				}
				seen := map[int]bool{}
				for j, k := range []int{0, 1, polls / 4, polls / 2, polls * 3 / 4, polls - 2, polls - 1, polls} {
					if k < 0 || seen[k] {
						continue
					}
					seen[k] = true
					kk := k
					emit(es[0].(string), es[1].(bool), &kk, []string{"canceled", "deadline", "cause", "async"}[(j+grp)%4])
				}
			}
		} else if *cancel {
			for _, entry := range []string{"query", "first", "exists", "match"} {
				for _, silent := range []bool{false, true} {
					all := countPolls(pp, doc, vars, entry, silent)
					if all < 0 {
						continue
					}
					polls := all
					if polls > 40 {
						polls = 40
					}
					for k := 0; k <= polls; k++ {
						kk := k
						kind := []string{"canceled", "deadline", "cause", "async"}[(k+grp)%4]
						emit(entry, silent, &kk, kind)
					}
					if all > 40 {
						// a long run: also its middle, its last poll and one past it
						for j, k := range []int{all / 2, all - 1, all} {
							if k > 40 {
								kk := k
								emit(entry, silent, &kk, []string{"canceled", "deadline", "cause", "async"}[(j+grp)%4])
							}
						}
					}
				}
			}
		} else {
			if *prof == "grid-bigcore" {
				emit("query", grp%4 == 1, nil, "")
				emit("exists", grp%4 == 2, nil, "")
				emit([]string{"first", "match", "eom"}[grp%3], grp%2 == 0, nil, "")
			} else if *prof == "grid-big" {
				// big documents: four of the ten entry/option combinations, rotating
				combos := [][2]any{{"query", false}, {"exists", grp%2 == 0}, {"first", true}, {"match", grp%2 == 1}, {"query", true}}
				for i := 0; i < 3; i++ {
					cb := combos[(grp+i)%len(combos)]
					emit(cb[0].(string), cb[1].(bool), nil, "")
				}
				emit("query", grp%3 == 0, nil, "")
			} else {
				for _, entry := range []string{"query", "first", "exists", "match", "eom"} {
					for _, silent := range []bool{false, true} {
						emit(entry, silent, nil, "")
					}
				}
			}
		}
	}
	stats["groups"] = *n
	stats["parse_fail"] = parseFail
	stats["cases"] = id
	stats["outcomes"] = outCount
	if *statsF != "" {
		os.WriteFile(*statsF, marshal(stats), 0o644)
	}
	return 0
}

// bestDocument draws several candidate documents for the current path and keeps one on which the
// evaluation goes deepest (measured by the number of context polls of an uncancelled Query), so
// that most cases get past the first accessor. One time in four the first candidate is kept.
func bestDocument(g *gen, pp *path.Path) (any, map[string]any) {
	doc, vars, _ := g.document()
	if g.pct(25) {
		return doc, vars
	}
	best := countPolls(pp, doc, vars, "query", true)
	for i := 0; i < 6; i++ {
		d2, v2, _ := g.document()
		if n := countPolls(pp, d2, v2, "query", true); n > best {
			doc, vars, best = d2, v2, n
		}
	}
	return doc, vars
}

func parseNoPanic(text string) (p *path.Path, err error) {
	defer func() {
		if r := recover(); r != nil {
			p, err = nil, fmt.Errorf("panic: %v", r)
		}
	}()
	return path.Parse(text)
}

// execRun re-runs a case file (the AST is rebuilt by parsing the "path" text).
func execRun(args []string) int {
	fs := flag.NewFlagSet("exec-run", flag.ExitOnError)
	inF := fs.String("in", "cases.jsonl", "case file")
	outF := fs.String("out", "go.jsonl", "result file")
	_ = fs.Parse(args)
	in, err := os.Open(*inF)
	if err != nil {
		panic(err)
	}
	defer in.Close()
	of, err := os.Create(*outF)
	if err != nil {
		panic(err)
	}
	defer of.Close()
	ow := bufio.NewWriter(of)
	defer ow.Flush()
	sc := bufio.NewScanner(in)
	sc.Buffer(make([]byte, 1<<20), 1<<26)
	for sc.Scan() {
		var c execCase
		dec := json.NewDecoder(bytesReader(sc.Bytes()))
		dec.UseNumber()
		if err := dec.Decode(&c); err != nil {
			continue
		}
		pp, err := parseNoPanic(c.Path)
		var res J
		if err != nil || pp == nil {
			res = J{"out": "skip", "why": "parse"}
		} else {
			doc, err := decItem(normJSON(c.Doc))
			if err != nil {
				res = J{"out": "skip", "why": "doc"}
			} else {
				var vars map[string]any
				if vs, ok := normJSON(c.Vars).([]any); ok {
					vars = map[string]any{}
					for _, m := range vs {
						kv := m.([]any)
						v, _ := decItem(kv[1])
						vars[kv[0].(string)] = v
					}
				}
				res = runExecPure(pp, doc, vars, &c, marshal(encItem(doc)), marshal(encVars(vars)))
			}
		}
		res["id"] = c.ID
		ow.Write(marshal(res))
		ow.WriteByte('\n')
	}
	return 0
}
