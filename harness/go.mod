module sqv

go 1.23.0

require github.com/theory/sqljson v0.0.0

replace github.com/theory/sqljson => /repo
