module sqv

go 1.23.0

require (
	github.com/smasher164/xid v0.1.2
	github.com/theory/sqljson v0.0.0
)

require golang.org/x/text v0.28.0 // indirect

replace github.com/theory/sqljson => /repo
